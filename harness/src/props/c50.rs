//! C50 — In-memory reading and writing (library(charsio)) match reading from / writing to a stream.
//!
//! Differential, both sides on the real machine:
//!   read : read_term_from_chars(Cs,T,Os) / read_from_chars(Cs,T)  vs  read_term(S,T,Os) / read(S,T)
//!          on a file stream holding the same characters;
//!   write: write_term_to_chars(T,Os,Cs)  vs  write_term(S,T,Os) into a file, file content read back
//!          by the harness with std::fs.
//! Accepted freedom (statement/library docs are silent): the Context of error(Formal, Context) is
//! never compared; variables that `variable_names` does not name print under implementation chosen
//! names (stream: _N, charsio: A, B, ... skipping names already in the list, in term_variables order —
//! charsio.pl extend_var_list/4) — the stream side is therefore given the variable_names list
//! extended by exactly those names, so that the two texts are comparable character by character.
use crate::engine::*;
use crate::gen::*;
use crate::session::{Outcome, Session};
use crate::shared::enc2::decode_t;
use crate::shared::scratch::Scratch;
use crate::term::{self, T};
use dashu::integer::IBig;
use proptest::prelude::*;
use serde::{Deserialize, Serialize};
use serde_json::Value;

pub const C50_PL: &str = include_str!("../../prolog/c50.pl");

// ---------------------------------------------------------------------------------------------
// cases

#[derive(Clone, Debug, Serialize, Deserialize)]
pub enum ROpt {
    VarNames,
    Vars,
    Singletons,
    /// option already bound to the empty list (unification with the result may fail)
    BoundNil(u8),
    /// ill-formed option (index into BAD_ROPTS)
    Bad(u8),
}

#[derive(Clone, Debug, Serialize, Deserialize)]
pub struct ReadCase {
    pub text: String,
    /// number of reads done on the stream before the compared read
    pub skip: u8,
    /// true: read_term/3 vs read_term_from_chars/3; false: read/2 vs read_from_chars/2
    pub with_opts: bool,
    pub opts: Vec<ROpt>,
    /// 0 proper list, 1 partial list, 2 tail `foo`
    pub tail: u8,
    /// 0 chars 1 codes 2 atom
    pub dq: u8,
    /// term argument: 0 unbound, 1 `end_of_file`, 2 `a`
    pub bound: u8,
}

#[derive(Clone, Debug, Serialize, Deserialize)]
pub enum WOpt {
    Quoted(bool),
    IgnoreOps(bool),
    NumberVars(bool),
    DoubleQuotes(bool),
    MaxDepth(u8),
    /// (name, variable index)
    VarNames(Vec<(String, u32)>),
    Bad(u8),
}

#[derive(Clone, Debug, Serialize, Deserialize)]
pub struct WriteCase {
    pub term: T,
    pub opts: Vec<WOpt>,
    pub tail: u8,
    pub dq: u8,
}

const BAD_ROPTS: &[&str] = &["bogus", "variable_names", "quoted(true)", "_", "variables(_,_)", "1"];
const BAD_WOPTS: &[&str] = &["bogus", "quoted(maybe)", "max_depth(-1)", "max_depth(a)", "variable_names([x])", "variable_names(_)", "_", "quoted(_)", "variable_names(['X'=_|_])", "ignore_ops(1)", "variables(_)", "double_quotes(codes)", "numbervars(_)", "variable_names([_=_])", "variable_names(foo)"];
const DQ: &[&str] = &["chars", "codes", "atom"];

// ---------------------------------------------------------------------------------------------
// text generator (surface syntax, valid and malformed)

fn pick_s(items: &'static [&'static str]) -> BoxedStrategy<String> {
    any::<u16>().prop_map(move |k| pick(items, k).to_string()).boxed()
}

const ATOMS: &[&str] = &[
    "a", "b", "foo", "bar", "[]", "{}", "!", ";", "'hello world'", "'it''s'", "'\\n'", "'\\x41\\'", "'a\\\nb'", "''", "+", "-", "*", "=", "\\+", "-->", ":-", "αβγ", "'日本語'", "é", "neg", "post", "decl",
    "===>", "**>", "<+>", "dynamic", "is", "mod", "'\\\\'", "'/*'", "a_B1", "'A'", "'_'", "e", "end_of_file", "\\", "^", "?-", "#", "@>=", "'😀'", "'e\u{301}'", "'[]'", "'{}'", "'|'",
];
const ODD_ATOMS: &[&str] = &["|", "||", "[ ]", "{ }", "'\\z'", "'a", "'\\xg\\'", "'a\nb'", "/*", "0a", "'\\400000000\\'"];
const VARS: &[&str] = &["X", "Y", "Z", "_", "_G1", "Foo", "_x", "X1", "Λ", "_1", "A", "B", "Écu"];
const NUMS: &[&str] = &[
    "0", "1", "-1", "42", "1.0", "-0.0", "1.0e10", "1.5E-3", "0x1F", "0o17", "0b101", "0'a", "0''", "0'\\n", "123456789012345678901234567890", "36028797018963968",
    "-36028797018963968", "9223372036854775808", "0.5", "1.0e-320", "1.7976931348623157e308", "0' ", "0'\\x41\\", "00", "0.0", "- 1", "1.0Inf", "0'\\\\", "0'\"", "1e10", "0.1e5", "1.0e+10",
];
const ODD_NUMS: &[&str] = &["1_000", "1 000", "0'", "1.e5", "0.1e", "1r3", "0xg", "0'ab", "1.0e", "2'1", "-  1", "0'''", "1.0e400", "0b2", "0o8", "1.", "0x"];
const STRS: &[&str] = &["\"abc\"", "\"\"", "\"a\\\"b\"", "\"a\"\"b\"", "\"λ日\"", "\"a\\nb\"", "\"\\x41\\\"", "`abc`", "\"a\\\nb\"", "\"a b\"", "\"'\"", "\"😀\""];
const ODD_STRS: &[&str] = &["\"abc", "\"\\q\"", "\"a\nb\"", "`a"];
const PUNCT: &[&str] = &["(", ")", "[", "]", "{", "}", ",", "|", ".", " ", "\n", "'", "\"", "%", "/*", "*/", "\\", "0'", "\t", "`", ". ", "_", "é"];
const INFIX: &[&str] = &["=", "+", "-", "*", "/", ":-", "-->", ",", ";", "->", "is", "mod", "===>", "**>", "<+>", "^", ":", "=..", "<", "@<", "\\=", "|", "**", "rdiv", "xor", "rem", "//", ">>", "=:=", "\\==", "*->", "||"];
const PREFIX: &[&str] = &["-", "+", "\\+", "\\", ":-", "?-", "neg", "decl", "dynamic", "- ", "\\ "];
const SEPS: &[&str] = &["", " ", "", " ", "\n", " % c\n", "/* c */", "  ", "\t"];
const ENDS: &[&str] = &[". ", ".\n", ".", ".%c\n", ". % c", " .\n", ".\t", ".\n\n"];

fn text_leaf() -> BoxedStrategy<String> {
    prop_oneof![
        10 => pick_s(ATOMS),
        8 => pick_s(VARS),
        8 => pick_s(NUMS),
        4 => pick_s(STRS),
        2 => "[a-z][a-zA-Z0-9_]{0,6}".prop_map(|s| s),
        2 => "[A-Z_][a-zA-Z0-9_]{0,4}".prop_map(|s| s),
        2 => (any::<i64>()).prop_map(|v| v.to_string()),
        // malformed or borderline tokens
        1 => pick_s(ODD_ATOMS),
        1 => pick_s(ODD_NUMS),
        1 => pick_s(ODD_STRS),
    ]
    .boxed()
}

fn text_term() -> BoxedStrategy<String> {
    text_leaf()
        .prop_recursive(4, 24, 3, |inner| {
            prop_oneof![
                4 => (pick_s(ATOMS), proptest::collection::vec(inner.clone(), 1..=3), pick_s(SEPS)).prop_map(|(f, args, s)| format!("{f}({})", args.join(&format!(",{s}")))),
                2 => (proptest::collection::vec(inner.clone(), 0..=3), pick_s(SEPS)).prop_map(|(items, s)| format!("[{}]", items.join(&format!("{s},")))),
                1 => (proptest::collection::vec(inner.clone(), 1..=2), inner.clone()).prop_map(|(items, t)| format!("[{}|{t}]", items.join(","))),
                1 => inner.clone().prop_map(|a| format!("{{{a}}}")),
                2 => inner.clone().prop_map(|a| format!("({a})")),
                3 => (inner.clone(), pick_s(INFIX), inner.clone(), pick_s(SEPS), pick_s(SEPS)).prop_map(|(a, op, b, s1, s2)| format!("{a}{s1}{op}{s2}{b}")),
                5 => (inner.clone(), pick_s(INFIX), inner.clone()).prop_map(|(a, op, b)| format!("({a}) {op} ({b})")),
                2 => (pick_s(PREFIX), inner.clone(), pick_s(SEPS)).prop_map(|(op, a, s)| format!("{op}{s}{a}")),
                2 => (pick_s(PREFIX), inner.clone()).prop_map(|(op, a)| format!("{op}({a})")),
                1 => inner.clone().prop_map(|a| format!("({a}) post")),
            ]
        })
        .boxed()
}

fn clause_text() -> BoxedStrategy<String> {
    (pick_s(SEPS), text_term(), pick_s(ENDS)).prop_map(|(s, t, e)| format!("{s}{t}{e}")).boxed()
}

fn soup() -> BoxedStrategy<String> {
    proptest::collection::vec(prop_oneof![3 => text_leaf(), 3 => pick_s(PUNCT), 1 => pick_s(INFIX), 1 => pick_s(ENDS)], 0..=10).prop_map(|v| v.concat()).boxed()
}

/// (text, number of generated clauses)
fn read_text() -> BoxedStrategy<(String, u8)> {
    let clean = proptest::collection::vec(clause_text(), 1..=4).prop_map(|v| {
        let n = v.len() as u8;
        (v.concat(), n)
    });
    let junk_tail = (proptest::collection::vec(clause_text(), 0..=2), soup()).prop_map(|(v, s)| {
        let n = v.len() as u8;
        (format!("{}{s}", v.concat()), n)
    });
    // 1-2 character edits of well-formed text
    let mutated = (proptest::collection::vec(clause_text(), 1..=3), proptest::collection::vec((any::<u16>(), 0u8..3, pick_s(PUNCT)), 1..=2)).prop_map(|(v, edits)| {
        let n = v.len() as u8;
        let mut cs: Vec<char> = v.concat().chars().collect();
        for (pos, kind, ins) in edits {
            if cs.is_empty() {
                break;
            }
            let i = (pos as usize * cs.len()) >> 16;
            match kind {
                0 => {
                    cs.remove(i);
                }
                1 => {
                    for (k, c) in ins.chars().enumerate() {
                        cs.insert(i + k, c);
                    }
                }
                _ => cs.truncate(i),
            }
        }
        (cs.into_iter().collect::<String>(), n)
    });
    let blank = pick_s(&["", " ", "\n", " \n ", "% c", "% c\n", "/* c */", "/* c", ".", " .", "a", "a.", "end_of_file.", "end_of_file. b."]).prop_map(|s| (s, 0u8));
    prop_oneof![8 => clean, 3 => junk_tail, 4 => mutated, 1 => blank].boxed()
}

fn ropt() -> BoxedStrategy<ROpt> {
    prop_oneof![
        6 => Just(ROpt::VarNames),
        5 => Just(ROpt::Vars),
        5 => Just(ROpt::Singletons),
        1 => (0u8..3).prop_map(ROpt::BoundNil),
        1 => (0u8..BAD_ROPTS.len() as u8).prop_map(ROpt::Bad),
    ]
    .boxed()
}

pub fn read_case() -> BoxedStrategy<ReadCase> {
    (
        read_text(),
        prop_oneof![6 => Just(0u8), 2 => Just(1u8), 1 => Just(2u8), 1 => Just(3u8)],
        prop_oneof![4 => Just(true), 1 => Just(false)],
        proptest::collection::vec(ropt(), 0..=4),
        prop_oneof![12 => Just(0u8), 1 => Just(1u8), 1 => Just(2u8)],
        prop_oneof![5 => Just(0u8), 2 => Just(1u8), 2 => Just(2u8)],
        prop_oneof![12 => Just(0u8), 1 => Just(1u8), 1 => Just(2u8)],
    )
        .prop_map(|((text, _n), skip, with_opts, opts, tail, dq, bound)| ReadCase { text, skip, with_opts, opts, tail, dq, bound })
        .boxed()
}

// ---------------------------------------------------------------------------------------------
// term generator for the write side

const OPS2: &[&str] = &["+", "-", "*", "/", "=", ":-", "-->", ",", ";", "->", "is", "mod", "===>", "**>", "<+>", "^", ":", "|", "**", "<", "=..", "rem", "xor", "@<", "\\="];
const OPS1: &[&str] = &["-", "+", "\\+", "\\", ":-", "?-", "neg", "post", "decl", "dynamic", "{}", "$VAR", "table"];

fn op_term() -> BoxedStrategy<T> {
    let leaf = prop_oneof![
        4 => atom_text_strategy().prop_map(T::Atom),
        2 => pick_s(OPS2).prop_map(T::Atom),
        2 => pick_s(OPS1).prop_map(T::Atom),
        3 => (-3i64..=3).prop_map(|i| T::Int(IBig::from(i))),
        1 => int_strategy().prop_map(T::Int),
        2 => float_strategy().prop_map(T::Float),
        4 => (0u32..4).prop_map(T::Var),
        2 => string_content_strategy().prop_map(T::Str),
        2 => prop_oneof![Just(0i64), Just(1), Just(25), Just(26), Just(27), Just(51), Just(52), Just(700), Just(-1)].prop_map(|n| T::Cmp("$VAR".into(), vec![T::Int(IBig::from(n))])),
        1 => prop_oneof![Just(term::atom("a")), Just(T::Float(1.0)), Just(T::Var(0)), Just(T::Str("x".into())), Just(T::Int(crate::num::ipow2(70)))].prop_map(|a| T::Cmp("$VAR".into(), vec![a])),
        1 => Just(term::nil()),
    ];
    leaf.prop_recursive(4, 20, 3, |inner| {
        prop_oneof![
            6 => (pick_s(OPS2), inner.clone(), inner.clone()).prop_map(|(f, a, b)| T::Cmp(f, vec![a, b])),
            4 => (pick_s(OPS1), inner.clone()).prop_map(|(f, a)| T::Cmp(f, vec![a])),
            2 => (atom_text_strategy(), proptest::collection::vec(inner.clone(), 1..=3)).prop_map(|(f, args)| T::Cmp(f, args)),
            1 => (pick_s(OPS2), proptest::collection::vec(inner.clone(), 3..=3)).prop_map(|(f, args)| T::Cmp(f, args)),
            2 => proptest::collection::vec(inner.clone(), 1..=3).prop_map(|items| T::PList(items, Box::new(term::nil()))),
            1 => (proptest::collection::vec(inner.clone(), 1..=2), inner.clone()).prop_map(|(items, t)| T::PList(items, Box::new(t))),
        ]
    })
    .boxed()
}

fn write_term_strategy() -> BoxedStrategy<T> {
    prop_oneof![
        3 => op_term(),
        2 => term_strategy(TermCfg { tricky_atoms: true, depth: 4, size: 24, ..TermCfg::default() }),
        1 => term_strategy(TermCfg { tricky_atoms: false, depth: 6, size: 40, ..TermCfg::default() }),
    ]
    .prop_map(|t| t.norm())
    .boxed()
}

const VNAMES: &[&str] = &["X", "Y", "_G1", "Foo", "A", "B", "C", "a b", "_", "x", "'", "Ü", "", "[]", "_123", "AA"];

fn wopt() -> BoxedStrategy<WOpt> {
    prop_oneof![
        5 => any::<bool>().prop_map(WOpt::Quoted),
        4 => any::<bool>().prop_map(WOpt::IgnoreOps),
        4 => any::<bool>().prop_map(WOpt::NumberVars),
        4 => any::<bool>().prop_map(WOpt::DoubleQuotes),
        3 => (0u8..=6).prop_map(WOpt::MaxDepth),
        5 => proptest::collection::vec((pick_s(VNAMES), 0u32..5), 0..=4).prop_map(WOpt::VarNames),
        1 => (0u8..BAD_WOPTS.len() as u8).prop_map(WOpt::Bad),
    ]
    .boxed()
}

pub fn write_case() -> BoxedStrategy<WriteCase> {
    (write_term_strategy(), proptest::collection::vec(wopt(), 0..=5), prop_oneof![14 => Just(0u8), 1 => Just(1u8), 1 => Just(2u8)], prop_oneof![6 => Just(0u8), 1 => Just(1u8), 1 => Just(2u8)])
        .prop_map(|(term, opts, tail, dq)| WriteCase { term, opts, tail, dq })
        .boxed()
}

// ---------------------------------------------------------------------------------------------
// environment

pub struct Env {
    pub s: Session,
}

pub fn mk_env() -> Env {
    let mut s = Session::new(&["charsio"]);
    if !s.consult(C50_PL, "c50") {
        panic!("c50.pl rejected");
    }
    Env { s }
}

fn tail_text(tail: u8) -> &'static str {
    match tail {
        1 => "|_",
        2 => "|foo",
        _ => "",
    }
}

fn opt_list(items: &[String], tail: u8) -> String {
    if items.is_empty() {
        match tail {
            1 => "_".into(),
            2 => "foo".into(),
            _ => "[]".into(),
        }
    } else {
        format!("[{}{}]", items.join(","), tail_text(tail))
    }
}

fn panic_verdict(what: &str, m: &str) -> Verdict {
    Verdict::fail(format!("panic:{}", m.split_whitespace().next().unwrap_or("?")), format!("{what} panicked: {m}"))
}

/// compare two reified sides `side(R, Payload)`: equal status; for exceptions the Formal of
/// error/2 balls (whole ball otherwise); payload up to variable renaming.
fn same_side(a: &T, b: &T) -> Result<(), String> {
    let (ra, pa) = split_side(a)?;
    let (rb, pb) = split_side(b)?;
    let key = |r: &T| -> T {
        match r {
            T::Cmp(n, args) if n == "ex" && args.len() == 1 => match &args[0] {
                T::Cmp(e, eargs) if e == "error" && eargs.len() == 2 => term::cmp("error_formal", vec![eargs[0].clone()]),
                other => term::cmp("ball", vec![other.clone()]),
            },
            other => other.clone(),
        }
    };
    let (ka, kb) = (key(&ra), key(&rb));
    if !ka.variant(&kb) {
        return Err(format!("status differs: {} vs {}", ra.text(), rb.text()));
    }
    if !pa.variant(&pb) {
        return Err(format!("results differ: {} vs {}", pa.text(), pb.text()));
    }
    Ok(())
}

fn split_side(t: &T) -> Result<(T, T), String> {
    match t {
        T::Cmp(n, args) if n == "side" && args.len() == 2 => Ok((args[0].clone(), args[1].clone())),
        other => Err(format!("harness: unexpected side term {}", other.text())),
    }
}

fn status_class(r: &T) -> &'static str {
    match r {
        T::Atom(a) if a == "ok" => "ok",
        T::Atom(a) if a == "failed" => "failed",
        T::Cmp(n, args) if n == "ex" => match &args[0] {
            T::Cmp(e, eargs) if e == "error" && eargs.len() == 2 => match &eargs[0] {
                T::Cmp(f, _) if f == "syntax_error" => "syntax-error",
                T::Cmp(f, _) if f == "domain_error" => "domain-error",
                T::Cmp(f, _) if f == "type_error" => "type-error",
                T::Atom(f) if f == "instantiation_error" => "instantiation-error",
                _ => "other-error",
            },
            _ => "other-ball",
        },
        _ => "other",
    }
}

// ---------------------------------------------------------------------------------------------
// read check

pub fn check_read(env: &mut Env, c: &ReadCase) -> Verdict {
    if c.text.contains('\0') {
        return Verdict::Discard("nul-in-text".into());
    }
    let sc = Scratch::new("c50");
    let path = sc.path_str("in.pl");
    if std::fs::write(&path, c.text.as_bytes()).is_err() {
        return Verdict::Discard("cannot-write-scratch".into());
    }
    // ground option specs; the helper builds the two option lists with fresh variables
    let mut specs = vec![];
    let mut shown = vec![];
    for o in c.opts.iter() {
        match o {
            ROpt::VarNames => {
                specs.push("vn".to_string());
                shown.push("variable_names(_)".to_string());
            }
            ROpt::Vars => {
                specs.push("vars".to_string());
                shown.push("variables(_)".to_string());
            }
            ROpt::Singletons => {
                specs.push("sing".to_string());
                shown.push("singletons(_)".to_string());
            }
            ROpt::BoundNil(k) => {
                specs.push(format!("nil({})", k % 3));
                shown.push(format!("{}([])", ["variable_names", "variables", "singletons"][*k as usize % 3]));
            }
            ROpt::Bad(k) => {
                specs.push(format!("bad({})", *k as usize % BAD_ROPTS.len()));
                shown.push(BAD_ROPTS[*k as usize % BAD_ROPTS.len()].to_string());
            }
        }
    }
    let o1 = opt_list(&shown, c.tail);
    let via = if c.with_opts { "rt" } else { "r" };
    let patom = T::Atom(path.clone()).text();
    let codes: Vec<String> = c.text.chars().map(|ch| (ch as u32).to_string()).collect();
    let goal = format!(
        "c50_read_case({patom}, [{codes}], {k}, {via}, {dq}, {bound}, [{specs}], {tail}, Enc)",
        codes = codes.join(","),
        k = c.skip,
        dq = DQ[c.dq as usize % 3],
        bound = c.bound % 3,
        specs = specs.join(","),
        tail = c.tail % 3,
    );
    let o = env.s.ask_once(&goal, "Enc");
    let what = format!("read of {:?} (skip {}, via {via}, opts {o1}, term argument {}, double_quotes={})", c.text, c.skip, ["unbound", "end_of_file", "a"][c.bound as usize % 3], DQ[c.dq as usize % 3]);
    let (a, b) = match &o {
        Outcome::Panic(m) => return panic_verdict(&what, m),
        Outcome::Sols(v) if v.len() == 1 => match decode_t(&v[0]).map(|t| t.norm()) {
            Ok(T::Cmp(n, args)) if n == "-" && args.len() == 2 => (args[0].clone(), args[1].clone()),
            Ok(other) => return Verdict::Discard(format!("harness:shape {}", other.text().chars().take(40).collect::<String>())),
            Err(e) => return Verdict::Discard(format!("harness:{}", e.chars().take(40).collect::<String>())),
        },
        Outcome::Ex(e) => return Verdict::fail("wrapper-exception:read", format!("{what}: exception escaped the reified goal: {}", e.text())),
        other => return Verdict::fail("wrapper-failed:read", format!("{what}: {}", other.short())),
    };
    if let Err(why) = same_side(&a, &b) {
        let (ra, pa) = split_side(&a).unwrap_or((term::atom("?"), term::atom("?")));
        let (rb, pb) = split_side(&b).unwrap_or((term::atom("?"), term::atom("?")));
        let after = if c.skip > 0 { "/after-skip" } else { "" };
        let arg = |p: &T, i: usize| match p {
            T::Cmp(_, args) if args.len() == 2 => args[i].clone(),
            _ => term::atom("?"),
        };
        let (ta, tb) = (arg(&pa, 0), arg(&pb, 0));
        // a stream that is already past its end binds end_of_file but leaves the option results
        // unbound, the chars reader binds them to []
        let stream_opts_unbound = match arg(&pa, 1).norm() {
            T::PList(items, _) => items.iter().all(|x| matches!(x, T::Var(_))),
            _ => false,
        };
        let chars_opts_nil = match arg(&pb, 1).norm() {
            T::PList(items, _) => items.iter().all(|x| x.is_nil() || matches!(x, T::Var(_))),
            _ => false,
        };
        let both_ok = status_class(&ra) == "ok" && status_class(&rb) == "ok";
        let sig = if both_ok && ta.variant(&tb) && matches!(&ta, T::Atom(x) if x == "end_of_file") && c.skip > 0 && stream_opts_unbound && chars_opts_nil {
            "read-differs:options-unbound-on-stream-past-end".to_string()
        } else if c.bound % 3 != 0 && status_class(&ra) == "ok" && matches!(status_class(&rb), "ok" | "failed") {
            // the stream reader computes the option lists after unifying with the (bound) term argument
            format!("read-differs:bound-term-argument:{}-vs-{}", status_class(&ra), status_class(&rb))
        } else if status_class(&ra) != status_class(&rb) || why.starts_with("status") {
            format!("read-differs:status:{}-vs-{}{after}", status_class(&ra), status_class(&rb))
        } else if !ta.variant(&tb) {
            format!("read-differs:term{after}")
        } else {
            format!("read-differs:options{after}")
        };
        return Verdict::fail(sig, format!("{what}: stream gives {} but chars give {} ({why})", a.text(), b.text()));
    }
    let (ra, pa) = split_side(&a).unwrap();
    let st = status_class(&ra);
    let mut classes: Vec<String> = vec![format!("read:{st}"), format!("dq:{}", DQ[c.dq as usize % 3])];
    if c.skip > 0 {
        classes.push("read:after-skip".into());
    }
    if !c.with_opts {
        classes.push("read:read_from_chars/2".into());
    }
    let is_eof = matches!(&pa, T::Cmp(_, args) if matches!(&args[0], T::Atom(a) if a == "end_of_file"));
    if is_eof {
        classes.push("read:end_of_file".into());
    }
    let mut vs = vec![];
    pa.vars(&mut vs);
    if !vs.is_empty() && st == "ok" {
        classes.push("read:with-variables".into());
    }
    if c.text.chars().any(|ch| ch as u32 > 127) {
        classes.push("read:non-ascii".into());
    }
    // at least two end tokens in the text (several clauses) or a syntax error
    let multi = c.text.matches('.').count() >= 2 && c.text.len() > 6;
    let nontrivial = (st == "ok" && multi && !is_eof) || st == "syntax-error" || (st == "ok" && c.skip > 0 && !is_eof);
    let cl: Vec<&str> = classes.iter().map(|s| s.as_str()).collect();
    Verdict::pass(nontrivial, &cl)
}

// ---------------------------------------------------------------------------------------------
// write check

/// charsio.pl fabricate_var_name(numbervars, Name, N)
fn fabricated_name(n: u32) -> String {
    let letter = (b'A' + (n % 26) as u8) as char;
    let nn = n / 26;
    if nn == 0 {
        letter.to_string()
    } else {
        format!("{letter}{nn}")
    }
}

/// The `variable_names` list library(charsio) hands to the printer: the given list followed by a
/// fabricated name for every variable of the term (term_variables order) not in the given list.
fn extended_names(term: &T, given: &[(String, u32)]) -> Vec<(String, u32)> {
    let mut vs = vec![];
    term.vars(&mut vs);
    let mut out: Vec<(String, u32)> = given.to_vec();
    let mut n = 0u32;
    for v in vs {
        if given.iter().any(|(_, w)| *w == v) {
            continue;
        }
        loop {
            let name = fabricated_name(n);
            n += 1;
            if !given.iter().any(|(g, _)| *g == name) {
                out.push((name, v));
                break;
            }
        }
    }
    out
}

fn vn_enc(names: &[(String, u32)]) -> T {
    term::list(names.iter().map(|(n, v)| T::Cmp("=".into(), vec![T::Atom(n.clone()), T::Var(*v)])).collect())
}

fn needs_quotes_or_ops(t: &T) -> bool {
    match t {
        T::Atom(a) => !(term::is_plain_atom(a) || a == "[]"),
        T::Cmp(f, args) => !term::is_plain_atom(f) || OPS2.contains(&f.as_str()) || OPS1.contains(&f.as_str()) || args.iter().any(needs_quotes_or_ops),
        T::PList(items, tail) => items.iter().any(needs_quotes_or_ops) || needs_quotes_or_ops(tail),
        T::Str(_) => true,
        _ => false,
    }
}

fn chars_to_string(t: &T) -> Option<String> {
    match t.norm() {
        T::Atom(a) if a == "[]" => Some(String::new()),
        T::PList(items, tail) if tail.is_nil() => {
            let mut s = String::new();
            for it in items {
                match it {
                    T::Atom(a) if a.chars().count() == 1 => s.push_str(&a),
                    _ => return None,
                }
            }
            Some(s)
        }
        _ => None,
    }
}

pub fn check_write(env: &mut Env, c: &WriteCase) -> Verdict {
    let sc = Scratch::new("c50");
    let path = sc.path_str("out.txt");
    let patom = T::Atom(path.clone()).text();
    // the variable_names option that decides (the rightmost one)
    let last_vn = c.opts.iter().rposition(|o| matches!(o, WOpt::VarNames(_)));
    let given: Vec<(String, u32)> = match last_vn {
        Some(i) => match &c.opts[i] {
            WOpt::VarNames(v) => v.clone(),
            _ => unreachable!(),
        },
        None => vec![],
    };
    let ext = extended_names(&c.term, &given);
    let all_named = ext.len() == given.len();
    // encodings decoded together so that variables are shared: term, every VarNames list, the extended list
    let mut encs = vec![c.term.enc_text()];
    let mut items_c = vec![];
    let mut items_s = vec![];
    let mut shown = vec![];
    let mut nvn = 0usize;
    let ext_index = c.opts.iter().filter(|o| matches!(o, WOpt::VarNames(_))).count();
    for (i, o) in c.opts.iter().enumerate() {
        let (spec, txt) = match o {
            WOpt::Quoted(b) => (format!("lit(quoted({b}))"), format!("quoted({b})")),
            WOpt::IgnoreOps(b) => (format!("lit(ignore_ops({b}))"), format!("ignore_ops({b})")),
            WOpt::NumberVars(b) => (format!("lit(numbervars({b}))"), format!("numbervars({b})")),
            WOpt::DoubleQuotes(b) => (format!("lit(double_quotes({b}))"), format!("double_quotes({b})")),
            WOpt::MaxDepth(n) => (format!("lit(max_depth({n}))"), format!("max_depth({n})")),
            WOpt::Bad(k) => (format!("bad({})", *k as usize % BAD_WOPTS.len()), BAD_WOPTS[*k as usize % BAD_WOPTS.len()].to_string()),
            WOpt::VarNames(v) => {
                encs.push(vn_enc(v).enc_text());
                nvn += 1;
                (format!("vn({})", nvn - 1), format!("variable_names({})", vn_enc(v).text()))
            }
        };
        items_c.push(spec.clone());
        shown.push(txt);
        if Some(i) == last_vn && !all_named {
            items_s.push(format!("vn({ext_index})"));
        } else {
            items_s.push(spec);
        }
    }
    if !all_named {
        encs.push(vn_enc(&ext).enc_text());
        if last_vn.is_none() {
            items_s.insert(0, format!("vn({ext_index})"));
        }
    }
    let oc = opt_list(&shown, c.tail);
    let goal = format!(
        "c50_write_case({patom}, [{encs}], [{sc}], [{ss}], {tail}, {dq}, Enc)",
        encs = encs.join(","),
        sc = items_c.join(","),
        ss = items_s.join(","),
        tail = c.tail % 3,
        dq = DQ[c.dq as usize % 3],
    );
    let o = env.s.ask_once(&goal, "Enc");
    let what = format!("write of {} with {oc} (double_quotes={})", c.term.text(), DQ[c.dq as usize % 3]);
    let (mut r1, mut r2, cs) = match &o {
        Outcome::Panic(m) => return panic_verdict(&what, m),
        Outcome::Sols(v) if v.len() == 1 => match decode_t(&v[0]).map(|t| t.norm()) {
            Ok(T::Cmp(n, args)) if n == "r" && args.len() == 3 => (args[0].clone(), args[1].clone(), args[2].clone()),
            Ok(other) => return Verdict::Discard(format!("harness:shape {}", other.text().chars().take(40).collect::<String>())),
            Err(e) => return Verdict::Discard(format!("harness:{}", e.chars().take(40).collect::<String>())),
        },
        Outcome::Ex(e) => return Verdict::fail("wrapper-exception:write", format!("{what}: exception escaped the reified goal: {}", e.text())),
        other => return Verdict::fail("wrapper-failed:write", format!("{what}: {}", other.short())),
    };
    if !all_named {
        // the stream side was given a longer option list: the culprit of type_error(list, Options)
        // necessarily differs, compare without it
        let strip = |r: &T| -> T {
            match r {
                T::Cmp(n, a) if n == "ex" && a.len() == 1 => match &a[0] {
                    T::Cmp(e, ea) if e == "error" && ea.len() == 2 => match &ea[0] {
                        T::Cmp(f, fa) if f == "type_error" && fa.len() == 2 && matches!(&fa[0], T::Atom(x) if x == "list") => {
                            term::cmp("ex", vec![term::cmp("error", vec![term::cmp("type_error", vec![term::atom("list"), term::atom("$options")]), ea[1].clone()])])
                        }
                        _ => r.clone(),
                    },
                    _ => r.clone(),
                },
                _ => r.clone(),
            }
        };
        r1 = strip(&r1);
        r2 = strip(&r2);
    }
    let (s1, s2) = (status_class(&r1), status_class(&r2));
    let a = term::cmp("side", vec![r1.clone(), term::atom("x")]);
    let b = term::cmp("side", vec![r2.clone(), term::atom("x")]);
    if let Err(why) = same_side(&a, &b) {
        return Verdict::fail(format!("write-differs:status:{s1}-vs-{s2}"), format!("{what}: write_term/3 gives {} but write_term_to_chars/3 gives {} ({why})", r1.text(), r2.text()));
    }
    let mut classes: Vec<String> = vec![format!("write:{s1}")];
    let mut nontrivial = false;
    if s1 == "ok" {
        let file = match std::fs::read(&path) {
            Ok(b) => b,
            Err(e) => return Verdict::Discard(format!("cannot-read-scratch {e}")),
        };
        let Some(chars) = chars_to_string(&cs) else {
            return Verdict::fail("write-differs:not-chars", format!("{what}: write_term_to_chars/3 returned {} which is not a list of characters", cs.text()));
        };
        if file != chars.as_bytes() {
            let ftxt = String::from_utf8_lossy(&file).to_string();
            let kind = if chars.starts_with(&ftxt) || ftxt.starts_with(&chars) {
                "truncated"
            } else if chars.chars().filter(|c| *c == '\'').count() != ftxt.chars().filter(|c| *c == '\'').count() {
                "quotes"
            } else {
                "text"
            };
            return Verdict::fail(format!("write-differs:{kind}"), format!("{what}: stream text {ftxt:?} but chars {chars:?}"));
        }
        nontrivial = needs_quotes_or_ops(&c.term);
        if nontrivial {
            classes.push("write:quotes-or-ops".into());
        }
        if !all_named {
            classes.push("write:unnamed-variables".into());
        } else if !given.is_empty() {
            classes.push("write:all-variables-named".into());
        }
        if chars.contains("...") {
            classes.push("write:elided".into());
        }
        if !chars.is_ascii() {
            classes.push("write:non-ascii".into());
        }
        for o in &c.opts {
            match o {
                WOpt::Quoted(true) => classes.push("write:quoted".into()),
                WOpt::IgnoreOps(true) => classes.push("write:ignore_ops".into()),
                WOpt::NumberVars(true) => classes.push("write:numbervars".into()),
                WOpt::DoubleQuotes(true) => classes.push("write:double_quotes".into()),
                _ => {}
            }
        }
        classes.sort();
        classes.dedup();
    }
    let cl: Vec<&str> = classes.iter().map(|s| s.as_str()).collect();
    Verdict::pass(nontrivial, &cl)
}

// ---------------------------------------------------------------------------------------------

pub struct C50;

impl Prop for C50 {
    fn id(&self) -> &'static str {
        "C50"
    }
    fn rule(&self) -> &'static str {
        "read: texts of 1-4 clauses in surface syntax (operators incl. user-defined ones, quoted atoms, escapes, strings, 0'c / based numbers, variables, comments, layout; clean, with a junk tail, or with 1-2 character edits / truncation) are written to a scratch file; the k-th read (k=0..3) through read_term/3 | read/2 on the file stream is compared with read_term_from_chars/3 | read_from_chars/2 on the same characters (k>0: on the characters a second stream has left after k reads), option lists variable_names/variables/singletons in any order and multiplicity, pre-bound and ill-formed options, partial option lists, three double_quotes flag values: same success/failure, same term and option results up to variable renaming, same error Formal. write: terms (operator-heavy incl. user operators, '$VAR'/1, {}/1, tricky atoms, strings, floats, bignums, lists, partial lists, shared variables) with option lists over quoted, ignore_ops, numbervars, double_quotes, max_depth, variable_names (any order/multiplicity, ill-formed options, partial lists): write_term_to_chars/3 must give exactly the bytes write_term/3 puts into a file (the stream side gets the variable_names list extended by the names charsio fabricates for unnamed variables), or the same error Formal. non-trivial = read: successful read from a text with >= 2 end tokens or after skipped reads, or a syntax error; write: the term contains an atom needing quotes, an operator functor or a string; distinct by case encoding"
    }
    fn assumptions(&self) -> Vec<String> {
        vec![
            "both sides run on the machine under test: a defect shared by the stream and the chars path is invisible here (C15/C17/C19 cover the shared reader, printer and streams)".into(),
            "std::fs reads back what the machine wrote to the scratch file".into(),
            "the harness transport encoding (vp_enc/vp_dec) is faithful".into(),
        ]
    }
    fn run_shard(&self, cfg: &ShardCfg) -> ShardResult {
        let mut d = Driver::new(cfg, "C50");
        let n = cfg.share(cfg.tier.pick(30_000, 1_500_000));
        d.run("read", 0, n / 2, 400, read_case(), &mk_env, &check_read);
        d.run("write", 1, n - n / 2, 400, write_case(), &mk_env, &check_write);
        d.finish()
    }
    fn replay(&self, kind: &str, case: &Value) -> Verdict {
        match kind {
            "read" => replay_case::<ReadCase, Env>(case, &mk_env, &check_read),
            _ => replay_case::<WriteCase, Env>(case, &mk_env, &check_write),
        }
    }
}
