//! C04 — Arithmetic comparison is exact and self-consistent.
use crate::engine::*;
use crate::gen::*;
use crate::num::*;
use crate::session::{Outcome, Session};
use crate::shared::aexpr::{FloatEcho, A};
use crate::shared::numx::*;
use crate::term::T;
use dashu::integer::IBig;
use proptest::prelude::*;
use serde::{Deserialize, Serialize};
use serde_json::Value;
use std::cmp::Ordering;

const HELPER_PL: &str = include_str!("../../prolog/c04.pl");
pub const OPS: [&str; 6] = ["=:=", "=\\=", "<", "=<", ">", ">="];

/// Operands are leaves only: I, Cloth, R (written rdiv(N,D)), F.
#[derive(Clone, Debug, Serialize, Deserialize)]
pub struct Pair {
    pub a: A,
    pub b: A,
}

fn value(a: &A) -> Option<V> {
    match a {
        A::I(v) | A::Cloth(v) => Some(V::Int(v.clone())),
        A::R(n, d) if *d > IBig::ZERO => Some(V::rat(n.clone(), d.clone())),
        A::F(f) if f.is_finite() => Some(V::F(*f)),
        _ => None,
    }
}

fn repr(a: &A) -> &'static str {
    match a {
        A::I(v) => {
            if bit_len(v) > 55 {
                "bignum"
            } else {
                "fixnum"
            }
        }
        A::Cloth(_) => "computed-int",
        A::R(..) => "rational",
        A::F(_) => "float",
        _ => "other",
    }
}

/// float side: ints/rationals converted nearest-even, overflow to +-inf
fn to_double(v: &V, conv: ConvMode) -> f64 {
    match promote_mode(v, conv) {
        Some(f) => f,
        None => {
            if v.is_neg() {
                f64::NEG_INFINITY
            } else {
                f64::INFINITY
            }
        }
    }
}

/// The ordering the statement prescribes: exact between integers and rationals; when a float is
/// involved the other side is converted to a double first and doubles are compared.
pub fn reference(x: &V, y: &V, conv: ConvMode) -> Ordering {
    if x.is_exact() && y.is_exact() {
        cmp_frac(&x.frac(), &y.frac())
    } else {
        let (p, q) = (to_double(x, conv), to_double(y, conv));
        p.partial_cmp(&q).expect("no NaN operands")
    }
}

pub fn six(ord: Ordering) -> [bool; 6] {
    let eq = ord == Ordering::Equal;
    let lt = ord == Ordering::Less;
    let gt = ord == Ordering::Greater;
    [eq, !eq, lt, lt || eq, gt, gt || eq]
}

// -------------------------------------------------------------------------------------------
// generators

fn int_forms(v: IBig) -> BoxedStrategy<A> {
    let exact_float = ibig_to_f64(&v).filter(|f| f64_to_ibig_exact(*f).map(|i| i == v).unwrap_or(false));
    let v1 = v.clone();
    let v2 = v.clone();
    let v3 = v.clone();
    let mut alts: Vec<(u32, BoxedStrategy<A>)> = vec![
        (3, Just(A::I(v1)).boxed()),
        (2, Just(A::Cloth(v2)).boxed()),
        (2, (1i64..=7).prop_map(move |k| A::R(&v3 * IBig::from(k), IBig::from(k))).boxed()),
    ];
    if let Some(f) = exact_float {
        alts.push((3, Just(A::F(f)).boxed()));
    }
    proptest::strategy::Union::new_weighted(alts).boxed()
}

fn any_number() -> BoxedStrategy<A> {
    prop_oneof![
        3 => (-20i64..=20).prop_map(|v| A::I(IBig::from(v))),
        4 => int_strategy().prop_map(A::I),
        1 => int_strategy().prop_map(A::Cloth),
        2 => ((-50i64..=50), (1i64..=12)).prop_map(|(n, d)| A::R(IBig::from(n), IBig::from(d))),
        2 => (int_strategy(), int_strategy()).prop_map(|(n, d)| A::R(n, iabs(&d) + IBig::ONE)),
        5 => float_strategy().prop_map(A::F),
    ]
    .boxed()
}

/// floats that are large integers or have few fraction bits (so that exact neighbours exist)
fn anchor_float() -> BoxedStrategy<f64> {
    let pow = (any::<u16>(), 0u64..(1u64 << 52), any::<bool>()).prop_map(|(k, frac, neg)| {
        let es = [0i32, 1, 10, 30, 52, 53, 54, 55, 56, 60, 63, 64, 65, 100, 127, 128, 129, 200, 500, 1000, 1023, -1, -10, -52, -60, -500, -1022];
        let e = pick(&es, k);
        let frac = if k % 3 == 0 { 0 } else if k % 3 == 1 { frac & 0xf } else { frac };
        let f = f64::from_bits((((e + 1023) as u64) << 52) | frac);
        if neg {
            -f
        } else {
            f
        }
    });
    prop_oneof![3 => pow, 1 => float_strategy(), 1 => Just(f64::MAX), 1 => Just(f64::MIN), 1 => Just(1e308), 1 => Just(0.1), 1 => Just(0.3333333333333333)].boxed()
}

/// an exact neighbour of the float f: its exact value displaced by a tiny amount, as integer
/// (when the displaced value is integral) or rational
fn neighbour(f: f64, k: i64, fine: u32) -> A {
    let (n, d) = f64_frac(f);
    if k == 0 {
        return if d == IBig::ONE { A::I(n) } else { A::R(n, d) };
    }
    if d == IBig::ONE && fine == 0 {
        // integral float: integer neighbours n + k
        A::I(n + IBig::from(k))
    } else {
        // n/d + k / (d * 2^fine * 3)
        let scale = ipow2(fine) * IBig::from(3);
        A::R(&n * &scale + IBig::from(k), &d * &scale)
    }
}

/// half an ulp away from f (the rounding boundary), plus/minus a hair
fn boundary(f: f64, up: bool, hair: i64) -> A {
    let next = if up { next_up(f) } else { next_down(f) };
    if !next.is_finite() {
        // beyond the largest double: the midpoint between MAX and 2^1024
        let (n, _) = f64_frac(f);
        let half_ulp = ipow2(970);
        let m = if f > 0.0 { n + half_ulp } else { n - half_ulp };
        return A::I(m + IBig::from(hair));
    }
    let (a, b) = f64_frac(f);
    let (c, d) = f64_frac(next);
    // midpoint (a/b + c/d) / 2, displaced by hair / (huge)
    let num = &a * &d + &c * &b;
    let den = &b * &d * IBig::from(2);
    if hair == 0 {
        let (n, d) = rat_norm(num, den);
        if d == IBig::ONE {
            A::I(n)
        } else {
            A::R(n, d)
        }
    } else {
        let scale = ipow2(80);
        let (n, d) = rat_norm(&num * &scale + IBig::from(hair), &den * &scale);
        if d == IBig::ONE {
            A::I(n)
        } else {
            A::R(n, d)
        }
    }
}

fn next_up(f: f64) -> f64 {
    if f == 0.0 {
        return f64::from_bits(1);
    }
    let b = f.to_bits();
    f64::from_bits(if f > 0.0 { b + 1 } else { b - 1 })
}

fn next_down(f: f64) -> f64 {
    -next_up(-f)
}

pub fn pair_strategy() -> BoxedStrategy<Pair> {
    // 1. the same value in two representations
    let same = int_strategy().prop_flat_map(|v| (int_forms(v.clone()), int_forms(v))).prop_map(|(a, b)| Pair { a, b });
    let same_small = (-40i64..=40).prop_flat_map(|v| (int_forms(IBig::from(v)), int_forms(IBig::from(v)))).prop_map(|(a, b)| Pair { a, b });
    // 2. integers next to each other in different representations (straddling 2^55, 2^63, 2^64..)
    let adjacent = (int_strategy(), -2i64..=2).prop_flat_map(|(v, d)| (int_forms(v.clone()), int_forms(v + IBig::from(d)))).prop_map(|(a, b)| Pair { a, b });
    // 3. a float against exact values that differ from it by less than its precision
    let near = (anchor_float(), -3i64..=3, prop_oneof![Just(0u32), Just(1u32), Just(60u32), Just(200u32)], any::<bool>()).prop_map(|(f, k, fine, swap)| {
        let (a, b) = (A::F(f), neighbour(f, k, fine));
        if swap {
            Pair { a: b, b: a }
        } else {
            Pair { a, b }
        }
    });
    // 4. a float against exact values at its rounding boundary (half an ulp away +- a hair)
    let edge = (anchor_float(), any::<bool>(), -1i64..=1, any::<bool>(), any::<bool>()).prop_map(|(f, up, hair, swap, other)| {
        let e = boundary(f, up, hair);
        // compare either with f itself or with the neighbour the boundary value may round to
        let g = if other { if up { next_up(f) } else { next_down(f) } } else { f };
        let g = if g.is_finite() { g } else { f };
        if swap {
            Pair { a: e, b: A::F(g) }
        } else {
            Pair { a: A::F(g), b: e }
        }
    });
    // 5. rationals next to each other (Farey-like neighbours, scaled copies)
    let rats = (int_strategy(), int_strategy(), -1i64..=1, 1i64..=9).prop_map(|(n, d, k, s)| {
        let d = iabs(&d) + IBig::ONE;
        let scale = IBig::from(s);
        // n/d versus (n*d2 + k) / (d*d2) with d2 = d + 1
        let d2 = &d + IBig::ONE;
        Pair { a: A::R(&n * &scale, &d * &scale), b: A::R(&n * &d2 + IBig::from(k), &d * &d2) }
    });
    // 6. integer versus rational with an integral or nearly integral value
    let int_rat = (int_strategy(), -1i64..=1, 1i64..=1000, any::<bool>()).prop_map(|(v, k, d, swap)| {
        let r = A::R(&v * IBig::from(d) + IBig::from(k), IBig::from(d));
        if swap {
            Pair { a: r, b: A::I(v) }
        } else {
            Pair { a: A::I(v), b: r }
        }
    });
    // 7. beyond the double range
    let huge = (any::<u16>(), -1i64..=1, any::<u16>(), any::<bool>(), any::<bool>()).prop_map(|(k, d, j, neg, swap)| {
        let bases = [ipow2(1024), ipow2(1024) - ipow2(970), ipow2(1024) - ipow2(971), ipow2(1023), ipow2(1025), ipow2(2000), ipow2(1024) - ipow2(969)];
        let v = pick(&bases, k) + IBig::from(d);
        let v = if neg { -v } else { v };
        let fs = [f64::MAX, f64::MIN, 1e308, -1e308, 8.98846567431158e307, 1.7976931348623155e308];
        let f = pick(&fs, j);
        let e = if k % 2 == 0 { A::I(v) } else { A::R(v * IBig::from(3) + IBig::ONE, IBig::from(3)) };
        if swap {
            Pair { a: A::F(f), b: e }
        } else {
            Pair { a: e, b: A::F(f) }
        }
    });
    // 8. zeros of every kind
    let zeros = (any::<u16>(), any::<u16>()).prop_map(|(i, j)| {
        let zs = [A::F(0.0), A::F(-0.0), A::I(IBig::ZERO), A::Cloth(IBig::ZERO), A::R(IBig::ZERO, IBig::from(5)), A::F(5e-324), A::F(-5e-324), A::R(IBig::ONE, ipow2(1075)), A::R(IBig::NEG_ONE, ipow2(1080))];
        Pair { a: pick(&zs, i), b: pick(&zs, j) }
    });
    // 9. anything against anything
    let random = (any_number(), any_number()).prop_map(|(a, b)| Pair { a, b });
    prop_oneof![
        3 => same,
        1 => same_small,
        3 => adjacent,
        4 => near,
        4 => edge,
        2 => rats,
        2 => int_rat,
        1 => huge,
        1 => zeros,
        4 => random,
    ]
    .prop_filter("thin out pairs that only re-find the known conversion defect", |p| {
        // an exact operand whose double the linked bignum crate gets wrong, compared with a
        // float: the known finding. One in eight of those is kept so that it stays visible.
        let (Some(x), Some(y)) = (value(&p.a), value(&p.b)) else { return true };
        if x.is_exact() == y.is_exact() {
            return true;
        }
        let ex = if x.is_exact() { &x } else { &y };
        let good = promote(ex).map(f64::to_bits);
        let dashu = promote_mode(ex, ConvMode { dashu_rat: true, dashu_int: true }).map(f64::to_bits);
        if good == dashu {
            return true;
        }
        let (n, d) = ex.frac();
        let h = crate::engine::fnv64(format!("{n}/{d}").as_bytes());
        h % 8 == 0
    })
    .boxed()
}

// -------------------------------------------------------------------------------------------
// check

pub struct Env {
    pub s: Session,
    pub echo: FloatEcho,
}

pub fn mk_env() -> Env {
    let mut s = Session::new(&[]);
    s.machine.consult_module_string("user", HELPER_PL);
    let o = s.ask("c04_loaded", "[]");
    assert!(matches!(o, Outcome::Sols(ref v) if v.len() == 1), "c04.pl failed to load: {}", o.short());
    let _ = s.ask("X = 0.0", "X");
    Env { s, echo: FloatEcho::default() }
}

fn decode_six(t: &T) -> Option<[bool; 6]> {
    let T::PList(items, tail) = t else { return None };
    if items.len() != 6 || !tail.is_nil() {
        return None;
    }
    let mut out = [false; 6];
    for (i, it) in items.iter().enumerate() {
        match it {
            T::Atom(a) if a == "t" => out[i] = true,
            T::Atom(a) if a == "f" => out[i] = false,
            _ => return None,
        }
    }
    Some(out)
}

fn show_six(s: &[bool; 6]) -> String {
    OPS.iter().zip(s.iter()).map(|(o, v)| format!("{o}:{}", if *v { "true" } else { "false" })).collect::<Vec<_>>().join(" ")
}

fn mirror(s: &[bool; 6]) -> [bool; 6] {
    // results of (b OP a) expected from the results of (a OP b)
    [s[0], s[1], s[4], s[5], s[2], s[3]]
}

fn consistent(s: &[bool; 6]) -> bool {
    let (eq, ne, lt, le, gt, ge) = (s[0], s[1], s[2], s[3], s[4], s[5]);
    let exactly_one = (lt as u8 + eq as u8 + gt as u8) == 1;
    exactly_one && ne != eq && le != gt && ge != lt
}

pub fn check(env: &mut Env, p: &Pair) -> Verdict {
    let (Some(x), Some(y)) = (value(&p.a), value(&p.b)) else { return Verdict::Discard("not-a-number-leaf".into()) };
    let mut fs = vec![];
    p.a.floats(&mut fs);
    p.b.floats(&mut fs);
    fs.retain(|f| *f != 0.0);
    if !env.echo.verify(&mut env.s, &fs) {
        return Verdict::Discard("float-literal-not-read-exactly".into());
    }
    let ord = reference(&x, &y, ConvMode::default());
    let want = six(ord);
    let (ta, tb) = (p.a.text(), p.b.text());

    // path 1..3: operands are numbers in variables (compiled with variable operands; the same
    // pair the other way round; the predicates reached through call/3)
    let o = env.s.ask(&format!("A is {ta}, B is {tb}, c04_six(A, B, R1), c04_six(B, A, R2), c04_call(A, B, R3)"), "[R1,R2,R3]");
    // path 4: literal operands in a clause compiled by assertz
    let body: Vec<String> = OPS.iter().enumerate().map(|(i, op)| format!("({}({ta},{tb}) -> R{i} = t ; R{i} = f)", crate::term::quote_atom(op))).collect();
    let o2 = env.s.ask(&format!("retractall(c04l(_)), assertz((c04l([R0,R1,R2,R3,R4,R5]) :- {})), c04l(R)", body.join(", ")), "R");

    let mut seen: Vec<(&'static str, [bool; 6])> = vec![];
    for (o, names) in [(&o, vec!["variables", "variables-swapped", "call/3"]), (&o2, vec!["literals-compiled"])] {
        match o {
            Outcome::Panic(m) => return Verdict::fail(format!("panic:{}", m.split_whitespace().next().unwrap_or("?")), format!("{ta} vs {tb}: {m}")),
            Outcome::Harness(m) => return Verdict::Discard(format!("harness:{}", m.chars().take(40).collect::<String>())),
            Outcome::Limit => return Verdict::Discard("limit".into()),
            Outcome::Ex(b) => return Verdict::fail(format!("unexpected-error:{}-vs-{}", repr(&p.a), repr(&p.b)), format!("comparing {ta} with {tb} raised {}", b.text())),
            Outcome::Sols(v) => {
                if v.len() != 1 {
                    return Verdict::fail("not-one-solution", format!("comparing {ta} with {tb}: {}", o.short()));
                }
                let lists: Vec<T> = if names.len() == 3 {
                    match &v[0] {
                        T::PList(items, _) if items.len() == 3 => items.clone(),
                        other => return Verdict::Discard(format!("harness:reply {}", other.text().chars().take(30).collect::<String>())),
                    }
                } else {
                    vec![v[0].clone()]
                };
                for (name, l) in names.iter().zip(lists.iter()) {
                    let Some(s) = decode_six(l) else { return Verdict::Discard("harness:reply-shape".into()) };
                    let s = if *name == "variables-swapped" { mirror(&s) } else { s };
                    seen.push((name, s));
                }
            }
        }
    }

    let kinds = format!("{}-vs-{}", repr(&p.a), repr(&p.b));
    for (name, s) in &seen {
        if *s != want {
            let detail = format!("{ta} vs {tb} ({name}): got {} ; the values compare {:?}, so expected {}", show_six(s), ord, show_six(&want));
            if !consistent(s) {
                return Verdict::fail(format!("inconsistent:{kinds}"), detail);
            }
            // is it the known conversion defect of the linked bignum crate?
            for (dr, di, sig) in [(true, false, "float-promotion:rational-misrounded"), (false, true, "float-promotion:bigint-misrounded")] {
                let alt = six(reference(&x, &y, ConvMode { dashu_rat: dr, dashu_int: di }));
                if seen.iter().all(|(_, s)| *s == alt) {
                    return Verdict::fail(sig, format!("{detail} ; the answers are those obtained when the exact operand is converted to a double the way the linked bignum crate does (misrounded)"));
                }
            }
            return Verdict::fail(format!("wrong-order:{kinds}"), detail);
        }
    }

    // classes / non-trivial
    let mut classes: Vec<String> = vec![format!("kinds:{kinds}"), format!("order:{ord:?}")];
    let different_repr = repr(&p.a) != repr(&p.b);
    let mut nontrivial = different_repr;
    if different_repr {
        classes.push("different-representations".into());
    }
    // closer than one ulp of the larger (relative difference below 2^-52)
    {
        let (a, b) = (exact_frac(&x), exact_frac(&y));
        let diff = iabs(&(&a.0 * &b.1 - &b.0 * &a.1));
        let big = iabs(&(&a.0 * &b.1)).max(iabs(&(&b.0 * &a.1)));
        if diff != IBig::ZERO && bit_len(&diff) + 52 < bit_len(&big) {
            classes.push("closer-than-one-ulp".into());
            nontrivial = true;
        }
        if diff == IBig::ZERO && different_repr {
            classes.push("equal-across-representations".into());
        }
    }
    let straddle = |v: &V| match v {
        V::Int(i) => bit_len(i) >= 55 && bit_len(i) <= 56,
        _ => false,
    };
    if straddle(&x) || straddle(&y) {
        classes.push("at-small-integer-boundary".into());
        nontrivial = true;
    }
    if !x.is_exact() || !y.is_exact() {
        if promote(&x).is_none() || promote(&y).is_none() {
            classes.push("beyond-double-range".into());
            nontrivial = true;
        }
    }
    let cls: Vec<&str> = classes.iter().map(|s| s.as_str()).collect();
    Verdict::pass(nontrivial, &cls)
}

pub struct C04;

impl Prop for C04 {
    fn id(&self) -> &'static str {
        "C04"
    }
    fn rule(&self) -> &'static str {
        "pairs of numbers from {small integer, bignum, integer computed through a bignum, rational, float} with correlated values: the same value in two representations; adjacent integers across 2^55/2^63/2^64; a float against exact values displaced from it by far less than an ulp; a float against exact values at its rounding boundary (half an ulp +- 2^-80) and against the neighbouring double; neighbouring rationals; integer vs (nearly) integral rational; integers/rationals beyond the double range vs the largest doubles; all zeros; random pairs. All six predicates are asked four ways (operands in variables, the swapped pair, through call/3, literal operands in a clause compiled by assertz) and must equal the reference: exact cross-multiplication between integers/rationals, nearest-even conversion written in the harness then double comparison when a float is involved. non-trivial = different representations, or closer than one ulp of the larger, or at the small-integer boundary, or beyond the double range; distinct by case encoding"
    }
    fn assumptions(&self) -> Vec<String> {
        vec!["dashu integer multiplication/comparison for the exact reference; the int/rational -> double conversion is the harness's own".into(), "float literals are only used after the machine echoed them bit-exactly".into()]
    }
    fn run_shard(&self, cfg: &ShardCfg) -> ShardResult {
        let mut d = Driver::new(cfg, "C04");
        let n = cfg.share(cfg.tier.pick(100_000, 5_000_000));
        d.run("pair", 0, n, 2000, pair_strategy(), &mk_env, &check);
        d.finish()
    }
    fn replay(&self, _kind: &str, case: &Value) -> Verdict {
        replay_case::<Pair, Env>(case, &mk_env, &check)
    }
}
