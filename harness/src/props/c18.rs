//! C18 — Text decoding does not depend on how input arrives.
//!
//! Level 1 (hook): `VerifCharReader` (= `CharReader`) over a `Read` that hands out the input in
//! the chunks of a chosen partition, driven by a script of peek/read/put-back/consume/peek_byte/
//! read operations, compared item by item with a reference decoder of the whole byte string.
//! Level 2 (public API): see `l2` below — the same bytes through `InputStreamConfig::channel()`.
use crate::engine::*;
use crate::gen::pick;
use crate::session::take_last_panic;
use crate::shared::c18_l2 as l2;
use crate::shared::utf8ref::{item_at, items, manual_item_at, Item};
use proptest::prelude::*;
use scryer_prolog::verif_hooks::{VerifCharItem, VerifCharReader};
use serde::{Deserialize, Serialize};
use serde_json::{json, Value};
use std::cell::RefCell;
use std::io::Read;
use std::panic::{catch_unwind, AssertUnwindSafe};
use std::rc::Rc;

// ---------------------------------------------------------------------------------------------
// case

#[derive(Clone, Debug, Serialize, Deserialize, PartialEq)]
pub enum Op {
    /// peek_char
    Peek,
    /// read_char (an error item is then skipped with consume(len of its bytes), as every caller does)
    Read,
    /// read_char, then put_back_char of the character just read
    ReadPutBack,
    /// peek_char, then consume(len)
    PeekConsume,
    /// peek_byte
    PeekByte,
    /// Read::read into a buffer of k bytes
    ReadBytes(u8),
}

#[derive(Clone, Debug, Serialize, Deserialize, PartialEq)]
pub enum Part {
    /// every partition of the input into non-empty chunks (input <= 12 bytes)
    All,
    /// bit i set = a chunk ends after byte i (inputs <= 64 bytes)
    Mask(u64),
    /// chunk sizes, cycled
    Sizes(Vec<u16>),
}

#[derive(Clone, Debug, Serialize, Deserialize)]
pub struct Case {
    /// filler in front of `bytes`: `pad_count` copies of PADS[pad_kind]
    pub pad_kind: u8,
    pub pad_count: u16,
    pub bytes: Vec<u8>,
    pub part: Part,
    /// plain read_char operations executed before the script
    pub skip: u16,
    pub script: Vec<Op>,
}

pub const PADS: &[&str] = &["x", "\u{3bb}", "\u{20ac}", "\u{1f600}"];

impl Case {
    pub fn input(&self) -> Vec<u8> {
        let p = pick(PADS, (self.pad_kind as u16).wrapping_mul(16384)).as_bytes();
        let mut v = Vec::with_capacity(p.len() * self.pad_count as usize + self.bytes.len());
        for _ in 0..self.pad_count {
            v.extend_from_slice(p);
        }
        v.extend_from_slice(&self.bytes);
        v
    }
}

// ---------------------------------------------------------------------------------------------
// chunking reader

struct ChunkedRead {
    data: Rc<Vec<u8>>,
    pos: usize,
    part: Part,
    next_size: usize,
    /// end offsets of the reads actually served
    log: Rc<RefCell<Vec<usize>>>,
}

impl Read for ChunkedRead {
    fn read(&mut self, buf: &mut [u8]) -> std::io::Result<usize> {
        let rem = self.data.len() - self.pos;
        if rem == 0 || buf.is_empty() {
            return Ok(0);
        }
        let want = match &self.part {
            Part::All => rem,
            Part::Mask(m) => {
                // next cut strictly after pos
                let mut e = self.pos + 1;
                while e < self.data.len() && !(e - 1 < 64 && (m >> (e - 1)) & 1 == 1) {
                    e += 1;
                }
                e - self.pos
            }
            Part::Sizes(s) => {
                if s.is_empty() {
                    rem
                } else {
                    let k = s[self.next_size % s.len()] as usize;
                    self.next_size += 1;
                    k.max(1)
                }
            }
        };
        let n = want.min(buf.len()).min(rem);
        buf[..n].copy_from_slice(&self.data[self.pos..self.pos + n]);
        self.pos += n;
        self.log.borrow_mut().push(self.pos);
        Ok(n)
    }
}

// ---------------------------------------------------------------------------------------------
// one run = (input, partition, script)

#[derive(Default)]
pub struct RunInfo {
    pub boundary_in_multibyte: bool,
    pub reads: usize,
}

fn ref_item(input: &[u8], pos: usize) -> Item {
    let a = item_at(input, pos);
    let b = manual_item_at(input, pos);
    assert_eq!(a, b, "oracle self-check: std-based and hand-written UTF-8 item decoders disagree at {pos} of {input:02x?}");
    a
}

fn same(got: &VerifCharItem, exp: &Item) -> bool {
    match (got, exp) {
        (VerifCharItem::Char(a), Item::Char(b)) => a == b,
        (VerifCharItem::BadUtf8(a), Item::Bad(b)) | (VerifCharItem::BadUtf8(a), Item::BadTail(b)) => a == b,
        (VerifCharItem::End, Item::End) => true,
        _ => false,
    }
}

fn hex(b: &[u8]) -> String {
    b.iter().map(|x| format!("{x:02X}")).collect::<Vec<_>>().join(" ")
}

fn show_input(b: &[u8]) -> String {
    if b.len() <= 48 {
        hex(b)
    } else {
        format!("{} .. ({} bytes) .. {}", hex(&b[..8]), b.len(), hex(&b[b.len() - 24..]))
    }
}

/// Runs the script and then reads to the end. Err((signature, detail)) on the first deviation.
fn run_inner(input: &Rc<Vec<u8>>, part: &Part, skip: usize, script: &[Op], log: &Rc<RefCell<Vec<usize>>>) -> Result<(), (String, String)> {
    let rd = ChunkedRead { data: input.clone(), pos: 0, part: part.clone(), next_size: 0, log: log.clone() };
    let mut r = VerifCharReader::new(rd);
    let mut pos = 0usize; // model position
    let n = input.len();
    let mut step = 0usize;
    let bad = |op: &str, exp: &Item, got: String, pos: usize, step: usize| -> (String, String) {
        let gk = got.split('(').next().unwrap_or("?").to_lowercase();
        (format!("mismatch:{op}:{}:got-{gk}", exp.kind()), format!("step {step} {op} at byte {pos}: got {got}, reference says {exp:?}"))
    };
    let total_steps = skip + script.len() + n + 3;
    let mut ended = 0;
    while step < total_steps && ended < 2 {
        let op = if step < skip {
            Op::Read
        } else if step - skip < script.len() {
            script[step - skip].clone()
        } else {
            Op::Read
        };
        step += 1;
        match op {
            Op::Peek => {
                let exp = ref_item(input, pos);
                let got = r.peek_char();
                if !same(&got, &exp) {
                    return Err(bad("peek", &exp, format!("{got:?}"), pos, step));
                }
            }
            Op::Read | Op::ReadPutBack => {
                let exp = ref_item(input, pos);
                let got = r.read_char();
                if !same(&got, &exp) {
                    return Err(bad("read", &exp, format!("{got:?}"), pos, step));
                }
                match &exp {
                    Item::Char(c) => {
                        pos += c.len_utf8();
                        if op == Op::ReadPutBack {
                            r.put_back_char(*c);
                            pos -= c.len_utf8();
                        }
                    }
                    Item::Bad(b) | Item::BadTail(b) => {
                        // read_char does not consume an error item; callers skip its bytes
                        r.consume(b.len());
                        pos += b.len();
                    }
                    Item::End => {
                        if step > skip + script.len() {
                            ended += 1;
                        }
                    }
                }
            }
            Op::PeekConsume => {
                let exp = ref_item(input, pos);
                let got = r.peek_char();
                if !same(&got, &exp) {
                    return Err(bad("peek", &exp, format!("{got:?}"), pos, step));
                }
                if exp != Item::End {
                    r.consume(exp.len());
                    pos += exp.len();
                }
            }
            Op::PeekByte => {
                let got = r.peek_byte();
                let ok = match (&got, input.get(pos)) {
                    (None, None) => true,
                    (Some(Ok(a)), Some(b)) => a == b,
                    _ => false,
                };
                if !ok {
                    return Err((format!("mismatch:peek_byte:{}", if pos < n { "byte" } else { "end" }), format!("step {step} peek_byte at byte {pos}: got {got:?}, input has {:?}", input.get(pos))));
                }
            }
            Op::ReadBytes(k) => {
                let k = k as usize;
                let got = r.read_bytes(k);
                let ok = match &got {
                    Ok(v) => v.len() <= k && pos + v.len() <= n && v[..] == input[pos..pos + v.len()] && (v.is_empty() == (k == 0 || pos == n)),
                    Err(_) => false,
                };
                if !ok {
                    return Err((format!("mismatch:read_bytes:{}", if pos < n { "bytes" } else { "end" }), format!("step {step} read({k}) at byte {pos}: got {got:?}, input continues {}", hex(&input[pos..(pos + k).min(n)]))));
                }
                pos += got.unwrap().len();
            }
        }
    }
    if pos != n {
        return Err(("mismatch:final:short".into(), format!("end reported at byte {pos} of {n}")));
    }
    Ok(())
}

pub fn run_one(input: &Rc<Vec<u8>>, part: &Part, skip: usize, script: &[Op]) -> Result<RunInfo, (String, String)> {
    let log = Rc::new(RefCell::new(Vec::new()));
    let res = catch_unwind(AssertUnwindSafe(|| run_inner(input, part, skip, script, &log)));
    let res = match res {
        Ok(r) => r,
        Err(_) => {
            let p = take_last_panic();
            let loc = p.split_whitespace().next().unwrap_or("?").to_string();
            if loc.starts_with("harness:") {
                // re-raise: a bug in the harness must never become a verdict
                panic!("harness panic in C18 run: {p}");
            }
            Err((format!("panic:{loc}"), format!("CharReader panicked: {p}")))
        }
    };
    let log = log.borrow();
    res.map_err(|(s, d)| {
        let mut cuts: Vec<usize> = log.clone();
        cuts.dedup();
        (s, format!("{d}; input [{}] delivered in reads ending at {:?}", show_input(input), if cuts.len() > 24 { &cuts[cuts.len() - 24..] } else { &cuts[..] }))
    })?;
    // non-trivial: a read boundary strictly inside a multi-byte item
    let mut info = RunInfo { reads: log.len(), ..Default::default() };
    if log.len() > 1 {
        let its = items(input);
        let mut bi = 0;
        for (s, it) in &its {
            let e = s + it.len();
            while bi < log.len() && log[bi] <= *s {
                bi += 1;
            }
            if bi < log.len() && log[bi] < e && it.len() >= 2 {
                info.boundary_in_multibyte = true;
                break;
            }
        }
    }
    Ok(info)
}

// ---------------------------------------------------------------------------------------------
// check

pub struct Env;
pub fn mk_env() -> Env {
    Env
}

thread_local! {
    static PARTITIONS_RUN: RefCell<u64> = const { RefCell::new(0) };
    static KNOWN_IN_ALL: RefCell<u64> = const { RefCell::new(0) };
}

pub fn check(_env: &mut Env, c: &Case) -> Verdict {
    let input = Rc::new(c.input());
    let n = input.len();
    let its = items(&input);
    let has_invalid = its.iter().any(|(_, i)| !matches!(i, Item::Char(_)));
    let trunc_end = matches!(its.last(), Some((_, Item::BadTail(_))));
    let multibyte = its.iter().any(|(_, i)| i.len() >= 2);
    let mut classes: Vec<&str> = vec![];
    let mut nontrivial = has_invalid;
    match &c.part {
        Part::All => {
            if n > 12 {
                return Verdict::Discard("all-partitions-too-long".into());
            }
            classes.push("exhaustive-partitions");
            let count: u64 = if n <= 1 { 1 } else { 1u64 << (n - 1) };
            let mut known_hit: Option<(String, String)> = None;
            for m in 0..count {
                PARTITIONS_RUN.with(|p| *p.borrow_mut() += 1);
                match run_one(&input, &Part::Mask(m), c.skip as usize, &c.script) {
                    Ok(info) => nontrivial |= info.boundary_in_multibyte,
                    Err((sig, detail)) => {
                        let detail = format!("partition mask {m:#b}: {detail}");
                        if is_known_open(&sig) {
                            // tolerated for exactly this signature; the other partitions are still checked
                            KNOWN_IN_ALL.with(|p| *p.borrow_mut() += 1);
                            known_hit.get_or_insert((sig, detail));
                        } else {
                            return Verdict::fail(sig, detail);
                        }
                    }
                }
            }
            if let Some((sig, detail)) = known_hit {
                return Verdict::fail(sig, detail);
            }
        }
        p => {
            if let Part::Mask(_) = p {
                if n > 64 {
                    return Verdict::Discard("mask-too-long".into());
                }
            }
            PARTITIONS_RUN.with(|p| *p.borrow_mut() += 1);
            match run_one(&input, p, c.skip as usize, &c.script) {
                Ok(info) => {
                    nontrivial |= info.boundary_in_multibyte;
                    if info.boundary_in_multibyte {
                        classes.push("boundary-in-multibyte");
                    }
                    if info.reads > 1 {
                        classes.push("several-reads");
                    }
                }
                Err((sig, detail)) => return Verdict::fail(sig, detail),
            }
        }
    }
    classes.push(if has_invalid { "has-invalid" } else { "valid-only" });
    if trunc_end {
        classes.push("truncated-at-end");
    }
    if multibyte {
        classes.push("has-multibyte");
    }
    if n > 8000 {
        classes.push("spans-8k-chunk");
    }
    if n == 0 {
        classes.push("empty");
    }
    if c.script.iter().any(|o| *o == Op::ReadPutBack) {
        classes.push("script-putback");
    }
    if c.script.iter().any(|o| matches!(o, Op::ReadBytes(_))) {
        classes.push("script-read-bytes");
    }
    if c.script.iter().any(|o| matches!(o, Op::PeekByte)) {
        classes.push("script-peek-byte");
    }
    Verdict::pass(nontrivial, &classes)
}

// ---------------------------------------------------------------------------------------------
// generators

/// well-formed sequences at the edges of every length class, and ill-formed material
pub const VALID: &[&[u8]] = &[
    b"a", b" ", b"\n", b".", b"0", b"\x00", b"\x7f",
    b"\xC2\x80", b"\xCE\xBB", b"\xC3\xA9", b"\xDF\xBF",
    b"\xE0\xA0\x80", b"\xE2\x82\xAC", b"\xED\x9F\xBF", b"\xEE\x80\x80", b"\xEF\xBB\xBF", b"\xEF\xBF\xBD", b"\xEF\xBF\xBF",
    b"\xF0\x90\x80\x80", b"\xF0\x9F\x98\x80", b"\xF3\xA0\x80\x81", b"\xF4\x8F\xBF\xBF",
];
pub const INVALID: &[&[u8]] = &[
    b"\x80", b"\xBF", b"\xC0\x80", b"\xC1\xBF", b"\xC0", b"\xE0\x80\x80", b"\xE0\x9F\xBF", b"\xF0\x80\x80\x80", b"\xF0\x8F\xBF\xBF",
    b"\xED\xA0\x80", b"\xED\xBF\xBF", b"\xF4\x90\x80\x80", b"\xF5\x80\x80\x80", b"\xFF", b"\xFE", b"\xF8\x88\x80\x80\x80",
    // truncated sequences (followed by whatever comes next)
    b"\xC2", b"\xE2", b"\xE2\x82", b"\xF0", b"\xF0\x9F", b"\xF0\x9F\x98", b"\xE0\xA0", b"\xF4\x8F\xBF", b"\xED\x9F",
];

fn piece() -> BoxedStrategy<Vec<u8>> {
    prop_oneof![
        6 => any::<u16>().prop_map(|k| pick(VALID, k).to_vec()),
        3 => any::<u16>().prop_map(|k| pick(INVALID, k).to_vec()),
        1 => any::<u8>().prop_map(|b| vec![b]),
    ]
    .boxed()
}

/// `allow_tail`: whether the input may end in a truncated sequence (the §7 finding lives there;
/// most inputs avoid it so that the search goes on behind it)
fn bytes_strategy(max_pieces: usize, max_len: usize) -> BoxedStrategy<Vec<u8>> {
    let valid_piece = any::<u16>().prop_map(|k| pick(VALID, k).to_vec());
    let pieces = prop_oneof![2 => proptest::collection::vec(valid_piece, 0..=max_pieces), 3 => proptest::collection::vec(piece(), 0..=max_pieces)];
    (pieces, 0u8..100)
        .prop_map(move |(ps, tail)| {
            let mut v: Vec<u8> = vec![];
            for p in ps {
                if v.len() + p.len() <= max_len {
                    v.extend_from_slice(&p);
                }
            }
            let allow_tail = tail < 12;
            if !allow_tail {
                while matches!(items(&v).last(), Some((_, Item::BadTail(_)))) {
                    if v.len() < max_len {
                        v.push(b'z');
                    } else {
                        v.pop();
                    }
                }
            }
            v
        })
        .boxed()
}

fn op_strategy() -> BoxedStrategy<Op> {
    prop_oneof![
        3 => Just(Op::Peek),
        5 => Just(Op::Read),
        4 => Just(Op::ReadPutBack),
        3 => Just(Op::PeekConsume),
        2 => Just(Op::PeekByte),
        2 => (0u8..=9).prop_map(Op::ReadBytes),
    ]
    .boxed()
}

pub fn small_strategy() -> BoxedStrategy<Case> {
    (bytes_strategy(6, 10), proptest::collection::vec(op_strategy(), 0..=14))
        .prop_map(|(bytes, script)| Case { pad_kind: 0, pad_count: 0, bytes, part: Part::All, skip: 0, script })
        .boxed()
}

fn sizes_strategy() -> BoxedStrategy<Vec<u16>> {
    let sz = prop_oneof![
        8 => 1u16..=9,
        1 => Just(4096u16),
        1 => Just(8191u16),
        1 => Just(8192u16),
        1 => Just(8193u16),
        1 => Just(20000u16),
    ];
    proptest::collection::vec(sz, 1..=6).boxed()
}

pub fn random_strategy() -> BoxedStrategy<Case> {
    let part = prop_oneof![2 => any::<u64>().prop_map(Part::Mask), 2 => (any::<u64>(), any::<u64>()).prop_map(|(a, b)| Part::Mask(a & b)), 2 => sizes_strategy().prop_map(Part::Sizes)];
    (bytes_strategy(24, 64), part, proptest::collection::vec(op_strategy(), 0..=40)).prop_map(|(bytes, part, script)| Case { pad_kind: 0, pad_count: 0, bytes, part, skip: 0, script }).boxed()
}

/// inputs whose interesting tail straddles a multiple of the 8 KiB read_chunk size
pub fn long_strategy() -> BoxedStrategy<Case> {
    (0u8..4, 1usize..=2, -7i32..=7, bytes_strategy(10, 28), sizes_strategy(), 0u16..12, proptest::collection::vec(op_strategy(), 0..=30))
        .prop_map(|(pad_kind, m, delta, bytes, sizes, back, script)| {
            let plen = pick(PADS, (pad_kind as u16).wrapping_mul(16384)).len();
            let target = (8192 * m) as i32 + delta;
            let pad_count = (target.max(0) as usize / plen) as u16;
            Case { pad_kind, pad_count, bytes, part: Part::Sizes(sizes), skip: pad_count.saturating_sub(back), script }
        })
        .boxed()
}

// ---------------------------------------------------------------------------------------------

pub struct C18;

impl Prop for C18 {
    fn id(&self) -> &'static str {
        "C18"
    }
    fn rule(&self) -> &'static str {
        "byte strings assembled from well-formed 1-4 byte sequences at the edges of each length class and ill-formed material (lone continuation bytes, overlong forms, surrogates, > U+10FFFF, 0xFE/0xFF, truncated sequences in the middle and at the end, random bytes); level 1: CharReader over a chunking Read, ALL 2^(n-1) partitions for inputs <= 10 bytes, random partitions (bit masks, cycled chunk sizes incl. 8191/8192/8193) for inputs <= 64 bytes and for inputs padded to straddle the 8 KiB read_chunk size, driven by random scripts of peek_char/read_char/put_back_char(of the char just read)/consume/peek_byte/read(k) and then read to the end, every delivered item compared with a reference decoder (std::str::from_utf8 error structure cross-checked by a hand-written table-3-7 decoder); level 2: the same kind of bytes through the public InputStreamConfig::channel() stream in a chosen partition, read with get_char/peek_char/get_code/peek_code and read_term, compared with the reference and with the one-chunk delivery; non-trivial = a read boundary falls strictly inside a multi-byte sequence or the input contains an ill-formed sequence; distinct by case encoding"
    }
    fn assumptions(&self) -> Vec<String> {
        vec![
            "std::str::from_utf8 (cross-checked against a hand-written decoder on every item)".into(),
            "put_back_char is only ever called with the character just read (the only use in lexer.rs/read.rs)".into(),
            "level 2 only asks the stream for items that are already determined by the bytes delivered so far (an empty channel is indistinguishable from end of data for the stream)".into(),
        ]
    }
    fn run_shard(&self, cfg: &ShardCfg) -> ShardResult {
        let mut d = Driver::new(cfg, "C18");
        let n_small = cfg.share(cfg.tier.pick(3_000, 120_000));
        let n_rand = cfg.share(cfg.tier.pick(36_000, 1_700_000));
        let n_long = cfg.share(cfg.tier.pick(3_000, 200_000));
        d.run("l1", 0, n_small, 1_000_000, small_strategy(), &mk_env, &check);
        d.run("l1", 1, n_rand, 1_000_000, random_strategy(), &mk_env, &check);
        d.run("l1", 2, n_long, 1_000_000, long_strategy(), &mk_env, &check);
        l2::run(&mut d, cfg);
        let parts = PARTITIONS_RUN.with(|p| *p.borrow());
        d.res.extra.insert("l1_runs_input_x_partition_x_script".into(), json!(parts));
        d.res.extra.insert("l1_known_hits_inside_exhaustive_cases".into(), json!(KNOWN_IN_ALL.with(|p| *p.borrow())));
        d.finish()
    }
    fn replay(&self, kind: &str, case: &Value) -> Verdict {
        match kind {
            "l1" => replay_case::<Case, Env>(case, &mk_env, &check),
            _ => l2::replay(kind, case),
        }
    }
}
