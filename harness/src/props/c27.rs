//! C27 — clp(Z) labeling is sound and complete on finite domains; ground constraints agree
//! with is/2 and comparison.
//!
//! kind "system": 1..4 variables with domains inside -6..6, 1..5 constraints (arithmetic
//! relations over + - * // div mod rem min max abs sign ^ and unary minus, reified formulas,
//! all_distinct/all_different, sum/3, scalar_product/4, extra in/2), labeling/2 with options.
//! Oracle: brute force over the Cartesian product of the domains with exact checked i128
//! arithmetic; a relation with an undefined subterm (zero divisor, 0^negative, 2^negative) is
//! false (clpz.pl: "the result of an expression can also be undefined, in which case the
//! constraint cannot hold"); a variable used as a Boolean is constrained to 0..1
//! unconditionally (clpz.pl reify//2: `B in 0..1`). The enumeration of labeling/2 must be exactly
//! the satisfying assignments, each once; the order is not asserted.
//!
//! kind "ground": `X #= E`, `E1 #op E2`, `B #<==> (E1 #op E2)` on ground expressions against the
//! exact evaluator and against is/2 of the same machine. Where E has an undefined subterm, the
//! non-reified constraint may fail or raise an evaluation/type error (statement silent).
use crate::engine::*;
use crate::gen::pick;
use crate::session::Outcome;
use crate::term::{self, T};
use dashu::integer::IBig;
use proptest::prelude::*;
use serde::{Deserialize, Serialize};
use serde_json::Value;

pub const LO: i64 = -6;
pub const HI: i64 = 6;
pub const MAX_ASSIGN: u64 = 1500;

pub const ARITH: &[&str] = &["+", "-", "*", "//", "div", "mod", "rem", "min", "max"];
pub const RELS: &[&str] = &["#=", "#\\=", "#<", "#=<", "#>", "#>="];
pub const CONN: &[&str] = &["#/\\", "#\\/", "#\\", "#<==>", "#==>", "#<=="];

#[derive(Clone, Debug, Serialize, Deserialize, PartialEq)]
pub enum X {
    V(u8),
    N(i64),
    Neg(Box<X>),
    Abs(Box<X>),
    Sign(Box<X>),
    Bin(String, Box<X>, Box<X>),
    Pow(Box<X>, Box<X>),
}

/// intervals (lo, hi) inside LO..HI; evaluated as a bit mask
pub type Dom = Vec<(i8, i8)>;

#[derive(Clone, Debug, Serialize, Deserialize, PartialEq)]
pub enum R {
    Rel(String, X, X),
    In(u8, Dom),
    B(u8),
    K(bool),
    Not(Box<R>),
    Bin(String, Box<R>, Box<R>),
}

#[derive(Clone, Debug, Serialize, Deserialize, PartialEq)]
pub enum Item {
    V(u8),
    N(i8),
}

#[derive(Clone, Debug, Serialize, Deserialize, PartialEq)]
pub enum C {
    Rel(String, X, X),
    Reif(R),
    AllDistinct(Vec<Item>),
    AllDifferent(Vec<Item>),
    Sum(Vec<Item>, String, X),
    Scalar(Vec<(i8, Item)>, String, X),
    In(u8, Dom),
}

#[derive(Clone, Debug, Serialize, Deserialize)]
pub struct Sys {
    pub nvars: u8,
    pub doms: Vec<Dom>,
    pub cons: Vec<C>,
    pub sel: u8,
    pub ord: u8,
    pub choice: u8,
    /// optional min(Expr)/max(Expr) labeling option
    pub optim: Option<(bool, X)>,
    pub perm: Vec<u16>,
    pub ins_first: bool,
    pub int_singletons: bool,
}

#[derive(Clone, Debug, Serialize, Deserialize)]
pub struct Ground {
    pub a: X,
    pub b: X,
    pub op: String,
}

fn vi(i: u8, n: u8) -> usize {
    (i % n.max(1)) as usize
}

// ---------------------------------------------------------------------------------------------
// exact evaluation

pub struct Overflow;

fn fdiv(a: i128, b: i128) -> i128 {
    let q = a / b;
    if (a % b != 0) && ((a < 0) != (b < 0)) {
        q - 1
    } else {
        q
    }
}

impl X {
    /// Ok(None) = undefined
    pub fn ev(&self, asg: &[i64], n: u8) -> Result<Option<i128>, Overflow> {
        Ok(match self {
            X::V(i) => Some(asg[vi(*i, n)] as i128),
            X::N(k) => Some(*k as i128),
            X::Neg(a) => match a.ev(asg, n)? {
                Some(v) => Some(v.checked_neg().ok_or(Overflow)?),
                None => None,
            },
            X::Abs(a) => match a.ev(asg, n)? {
                Some(v) => Some(v.checked_abs().ok_or(Overflow)?),
                None => None,
            },
            X::Sign(a) => a.ev(asg, n)?.map(|v| v.signum()),
            X::Bin(op, a, b) => {
                let (x, y) = (a.ev(asg, n)?, b.ev(asg, n)?);
                let (Some(x), Some(y)) = (x, y) else { return Ok(None) };
                match op.as_str() {
                    "+" => Some(x.checked_add(y).ok_or(Overflow)?),
                    "-" => Some(x.checked_sub(y).ok_or(Overflow)?),
                    "*" => Some(x.checked_mul(y).ok_or(Overflow)?),
                    "min" => Some(x.min(y)),
                    "max" => Some(x.max(y)),
                    "//" | "div" | "mod" | "rem" => {
                        if y == 0 {
                            return Ok(None);
                        }
                        if x == i128::MIN {
                            return Err(Overflow);
                        }
                        let q = fdiv(x, y);
                        let m = x - q * y;
                        // defining identities
                        assert!(m == 0 || (m < 0) == (y < 0));
                        assert!(m.abs() < y.abs());
                        match op.as_str() {
                            "//" => Some(x / y),
                            "rem" => Some(x % y),
                            "div" => Some(q),
                            _ => Some(m),
                        }
                    }
                    _ => panic!("unknown arithmetic functor {op}"),
                }
            }
            X::Pow(a, b) => {
                let (x, y) = (a.ev(asg, n)?, b.ev(asg, n)?);
                let (Some(x), Some(y)) = (x, y) else { return Ok(None) };
                if x == 1 {
                    Some(1)
                } else if x == -1 {
                    Some(if y % 2 == 0 { 1 } else { -1 })
                } else if y < 0 {
                    None
                } else if x == 0 {
                    Some(if y == 0 { 1 } else { 0 })
                } else {
                    if y > 200 {
                        return Err(Overflow);
                    }
                    let mut r: i128 = 1;
                    for _ in 0..y {
                        r = r.checked_mul(x).ok_or(Overflow)?;
                    }
                    Some(r)
                }
            }
        })
    }

    pub fn to_t(&self, n: u8) -> T {
        match self {
            X::V(i) => T::Var(vi(*i, n) as u32),
            X::N(k) => term::int(*k),
            X::Neg(a) => term::cmp("-", vec![a.to_t(n)]),
            X::Abs(a) => term::cmp("abs", vec![a.to_t(n)]),
            X::Sign(a) => term::cmp("sign", vec![a.to_t(n)]),
            X::Bin(op, a, b) => term::cmp(op, vec![a.to_t(n), b.to_t(n)]),
            X::Pow(a, b) => term::cmp("^", vec![a.to_t(n), b.to_t(n)]),
        }
    }
    pub fn vars(&self, n: u8) -> u32 {
        match self {
            X::V(i) => 1 << vi(*i, n),
            X::N(_) => 0,
            X::Neg(a) | X::Abs(a) | X::Sign(a) => a.vars(n),
            X::Bin(_, a, b) | X::Pow(a, b) => a.vars(n) | b.vars(n),
        }
    }
    pub fn ops(&self, out: &mut Vec<String>) {
        match self {
            X::V(_) | X::N(_) => {}
            X::Neg(a) => {
                out.push("neg".into());
                a.ops(out)
            }
            X::Abs(a) => {
                out.push("abs".into());
                a.ops(out)
            }
            X::Sign(a) => {
                out.push("sign".into());
                a.ops(out)
            }
            X::Bin(op, a, b) => {
                out.push(op.clone());
                a.ops(out);
                b.ops(out)
            }
            X::Pow(a, b) => {
                out.push("^".into());
                a.ops(out);
                b.ops(out)
            }
        }
    }
}

pub fn rel_holds(op: &str, a: i128, b: i128) -> bool {
    match op {
        "#=" => a == b,
        "#\\=" => a != b,
        "#<" => a < b,
        "#=<" => a <= b,
        "#>" => a > b,
        "#>=" => a >= b,
        _ => panic!("unknown relation {op}"),
    }
}

pub fn dom_mask(d: &Dom) -> u16 {
    let mut m = 0u16;
    for (a, b) in d {
        let (a, b) = ((*a as i64).min(*b as i64), (*a as i64).max(*b as i64));
        for v in a.max(LO)..=b.min(HI) {
            m |= 1 << (v - LO);
        }
    }
    m
}

pub fn mask_t(m: u16, int_singletons: bool) -> T {
    // runs of consecutive values
    let mut parts = vec![];
    let mut v = LO;
    while v <= HI {
        if (m >> (v - LO)) & 1 == 1 {
            let s = v;
            while v + 1 <= HI && (m >> (v + 1 - LO)) & 1 == 1 {
                v += 1;
            }
            if s == v && int_singletons {
                parts.push(term::int(s));
            } else {
                parts.push(term::cmp("..", vec![term::int(s), term::int(v)]));
            }
        }
        v += 1;
    }
    if parts.is_empty() {
        // an empty domain: 1..0
        return term::cmp("..", vec![term::int(1), term::int(0)]);
    }
    let mut it = parts.into_iter();
    let mut acc = it.next().unwrap();
    for p in it {
        acc = term::cmp("\\/", vec![acc, p]);
    }
    acc
}

impl R {
    /// Ok(None) = a Boolean operand variable is outside 0..1 (hard failure of the whole post)
    pub fn ev(&self, asg: &[i64], n: u8, undef: &mut bool) -> Result<Option<bool>, Overflow> {
        Ok(match self {
            R::Rel(op, a, b) => match (a.ev(asg, n)?, b.ev(asg, n)?) {
                (Some(x), Some(y)) => Some(rel_holds(op, x, y)),
                _ => {
                    *undef = true;
                    Some(false)
                }
            },
            R::In(v, d) => {
                let x = asg[vi(*v, n)];
                Some((dom_mask(d) >> (x - LO)) & 1 == 1)
            }
            R::B(v) => match asg[vi(*v, n)] {
                0 => Some(false),
                1 => Some(true),
                _ => None,
            },
            R::K(b) => Some(*b),
            R::Not(a) => a.ev(asg, n, undef)?.map(|b| !b),
            R::Bin(op, a, b) => {
                let (x, y) = (a.ev(asg, n, undef)?, b.ev(asg, n, undef)?);
                let (Some(x), Some(y)) = (x, y) else { return Ok(None) };
                Some(match op.as_str() {
                    "#/\\" => x && y,
                    "#\\/" => x || y,
                    "#\\" => x != y,
                    "#<==>" => x == y,
                    "#==>" => !x || y,
                    "#<==" => x || !y,
                    _ => panic!("unknown connective {op}"),
                })
            }
        })
    }
    /// replace Boolean-operand variables whose witness value is not 0/1 by an equation
    pub fn fix_bools(&mut self, asg: &[i64], n: u8) {
        match self {
            R::B(v) => {
                let x = asg[vi(*v, n)];
                if x != 0 && x != 1 {
                    *self = R::Rel("#=".into(), X::V(*v), X::N(x));
                }
            }
            R::Not(a) => a.fix_bools(asg, n),
            R::Bin(_, a, b) => {
                a.fix_bools(asg, n);
                b.fix_bools(asg, n);
            }
            _ => {}
        }
    }
    pub fn has_bool_var(&self) -> bool {
        match self {
            R::B(_) => true,
            R::Not(a) => a.has_bool_var(),
            R::Bin(_, a, b) => a.has_bool_var() || b.has_bool_var(),
            _ => false,
        }
    }
    pub fn to_t(&self, n: u8, is: bool) -> T {
        match self {
            R::Rel(op, a, b) => term::cmp(op, vec![a.to_t(n), b.to_t(n)]),
            R::In(v, d) => term::cmp("in", vec![T::Var(vi(*v, n) as u32), mask_t(dom_mask(d), is)]),
            R::B(v) => T::Var(vi(*v, n) as u32),
            R::K(b) => term::int(*b as i32),
            R::Not(a) => term::cmp("#\\", vec![a.to_t(n, is)]),
            R::Bin(op, a, b) => term::cmp(op, vec![a.to_t(n, is), b.to_t(n, is)]),
        }
    }
    pub fn vars(&self, n: u8) -> u32 {
        match self {
            R::Rel(_, a, b) => a.vars(n) | b.vars(n),
            R::In(v, _) | R::B(v) => 1 << vi(*v, n),
            R::K(_) => 0,
            R::Not(a) => a.vars(n),
            R::Bin(_, a, b) => a.vars(n) | b.vars(n),
        }
    }
}

fn item_val(i: &Item, asg: &[i64], n: u8) -> i128 {
    match i {
        Item::V(v) => asg[vi(*v, n)] as i128,
        Item::N(k) => *k as i128,
    }
}
fn item_t(i: &Item, n: u8) -> T {
    match i {
        Item::V(v) => T::Var(vi(*v, n) as u32),
        Item::N(k) => term::int(*k as i32),
    }
}
fn items_vars(items: &[Item], n: u8) -> u32 {
    items.iter().fold(0, |a, i| if let Item::V(v) = i { a | 1 << vi(*v, n) } else { a })
}

impl C {
    pub fn holds(&self, asg: &[i64], n: u8, undef: &mut bool) -> Result<bool, Overflow> {
        Ok(match self {
            C::Rel(op, a, b) => match (a.ev(asg, n)?, b.ev(asg, n)?) {
                (Some(x), Some(y)) => rel_holds(op, x, y),
                _ => {
                    *undef = true;
                    false
                }
            },
            C::Reif(r) => r.ev(asg, n, undef)? == Some(true),
            C::AllDistinct(items) | C::AllDifferent(items) => {
                let vals: Vec<i128> = items.iter().map(|i| item_val(i, asg, n)).collect();
                (0..vals.len()).all(|i| (0..i).all(|j| vals[i] != vals[j]))
            }
            C::Sum(items, op, x) => {
                let s: i128 = items.iter().map(|i| item_val(i, asg, n)).sum();
                match x.ev(asg, n)? {
                    Some(v) => rel_holds(op, s, v),
                    None => {
                        *undef = true;
                        false
                    }
                }
            }
            C::Scalar(pairs, op, x) => {
                let s: i128 = pairs.iter().map(|(c, i)| *c as i128 * item_val(i, asg, n)).sum();
                match x.ev(asg, n)? {
                    Some(v) => rel_holds(op, s, v),
                    None => {
                        *undef = true;
                        false
                    }
                }
            }
            C::In(v, d) => (dom_mask(d) >> (asg[vi(*v, n)] - LO)) & 1 == 1,
        })
    }
    pub fn to_t(&self, n: u8, is: bool) -> T {
        match self {
            C::Rel(op, a, b) => term::cmp(op, vec![a.to_t(n), b.to_t(n)]),
            C::Reif(r) => r.to_t(n, is),
            C::AllDistinct(items) => term::cmp("all_distinct", vec![term::list(items.iter().map(|i| item_t(i, n)).collect())]),
            C::AllDifferent(items) => term::cmp("all_different", vec![term::list(items.iter().map(|i| item_t(i, n)).collect())]),
            C::Sum(items, op, x) => term::cmp("sum", vec![term::list(items.iter().map(|i| item_t(i, n)).collect()), term::atom(op), x.to_t(n)]),
            C::Scalar(pairs, op, x) => term::cmp(
                "scalar_product",
                vec![term::list(pairs.iter().map(|(c, _)| term::int(*c as i32)).collect()), term::list(pairs.iter().map(|(_, i)| item_t(i, n)).collect()), term::atom(op), x.to_t(n)],
            ),
            C::In(v, d) => term::cmp("in", vec![T::Var(vi(*v, n) as u32), mask_t(dom_mask(d), is)]),
        }
    }
    pub fn vars(&self, n: u8) -> u32 {
        match self {
            C::Rel(_, a, b) => a.vars(n) | b.vars(n),
            C::Reif(r) => r.vars(n),
            C::AllDistinct(items) | C::AllDifferent(items) => items_vars(items, n),
            C::Sum(items, _, x) => items_vars(items, n) | x.vars(n),
            C::Scalar(pairs, _, x) => pairs.iter().fold(x.vars(n), |a, (_, i)| if let Item::V(v) = i { a | 1 << vi(*v, n) } else { a }),
            C::In(v, _) => 1 << vi(*v, n),
        }
    }
    pub fn kind(&self) -> &'static str {
        match self {
            C::Rel(..) => "c:arith-relation",
            C::Reif(_) => "c:reified",
            C::AllDistinct(_) => "c:all_distinct",
            C::AllDifferent(_) => "c:all_different",
            C::Sum(..) => "c:sum",
            C::Scalar(..) => "c:scalar_product",
            C::In(..) => "c:in",
        }
    }
}

// ---------------------------------------------------------------------------------------------
// generators

fn leaf(ground: bool) -> BoxedStrategy<X> {
    if ground {
        prop_oneof![
            8 => (-7i64..=7).prop_map(X::N),
            2 => (-40i64..=40).prop_map(X::N),
            1 => (any::<u16>(), -2i64..=2, any::<bool>()).prop_map(|(k, d, neg)| {
                let ks: [u32; 8] = [15, 31, 32, 53, 55, 56, 62, 63];
                let v = (1i128 << pick(&ks, k)) + d as i128;
                let v = v.min(i64::MAX as i128) as i64;
                X::N(if neg { -v } else { v })
            }),
        ]
        .boxed()
    } else {
        prop_oneof![
            6 => (0u8..4).prop_map(X::V),
            3 => (-3i64..=4).prop_map(X::N),
            1 => (-7i64..=7).prop_map(X::N),
        ]
        .boxed()
    }
}

fn pow_strategy(ground: bool) -> BoxedStrategy<X> {
    let exp = if ground { prop_oneof![5 => (-2i64..=5).prop_map(X::N), 1 => (0i64..=40).prop_map(X::N)].boxed() } else { prop_oneof![3 => (-1i64..=3).prop_map(X::N), 2 => (0u8..4).prop_map(X::V)].boxed() };
    (leaf(ground), exp).prop_map(|(a, b)| X::Pow(Box::new(a), Box::new(b))).boxed()
}

pub fn expr_strategy(ground: bool) -> BoxedStrategy<X> {
    let base = prop_oneof![8 => leaf(ground), 1 => pow_strategy(ground)];
    base.prop_recursive(3, 10, 2, move |inner| {
        prop_oneof![
            10 => (any::<u16>(), inner.clone(), inner.clone()).prop_map(|(k, a, b)| X::Bin(pick(ARITH, k).to_string(), Box::new(a), Box::new(b))),
            1 => inner.clone().prop_map(|a| X::Neg(Box::new(a))),
            1 => inner.clone().prop_map(|a| X::Abs(Box::new(a))),
            1 => inner.clone().prop_map(|a| X::Sign(Box::new(a))),
        ]
    })
    .boxed()
}

fn dom_strategy() -> BoxedStrategy<Dom> {
    let iv = (-6i8..=6, 0i8..=7).prop_map(|(a, w)| (a, (a + w).min(6)));
    prop_oneof![
        4 => iv.clone().prop_map(|i| vec![i]),
        2 => (iv.clone(), iv.clone()).prop_map(|(a, b)| vec![a, b]),
        1 => Just(vec![(-6i8, 6i8)]),
        1 => Just(vec![(0i8, 1i8)]),
    ]
    .boxed()
}

fn rel_strategy() -> BoxedStrategy<(String, X, X)> {
    (any::<u16>(), expr_strategy(false), expr_strategy(false))
        .prop_map(|(k, a, b)| {
            // #= twice as likely as each other relation
            let rels = ["#=", "#=", "#\\=", "#<", "#=<", "#>", "#>="];
            (pick(&rels, k).to_string(), a, b)
        })
        .boxed()
}

fn reif_strategy() -> BoxedStrategy<R> {
    let atom = prop_oneof![
        6 => rel_strategy().prop_map(|(op, a, b)| R::Rel(op, a, b)),
        2 => (0u8..4, dom_strategy()).prop_map(|(v, d)| R::In(v, d)),
        2 => (0u8..4).prop_map(R::B),
        1 => any::<bool>().prop_map(R::K),
    ];
    atom.prop_recursive(3, 8, 2, |inner| {
        prop_oneof![
            1 => inner.clone().prop_map(|a| R::Not(Box::new(a))),
            4 => (any::<u16>(), inner.clone(), inner.clone()).prop_map(|(k, a, b)| R::Bin(pick(CONN, k).to_string(), Box::new(a), Box::new(b))),
        ]
    })
    .boxed()
}

fn item_strategy() -> BoxedStrategy<Item> {
    prop_oneof![6 => (0u8..4).prop_map(Item::V), 1 => (-6i8..=6).prop_map(Item::N)].boxed()
}

fn con_strategy() -> BoxedStrategy<C> {
    let top_reif = reif_strategy().prop_map(|r| match r {
        // a bare atom is posted through a connective so that reification is involved
        R::Not(_) | R::Bin(..) => C::Reif(r),
        other => C::Reif(R::Bin("#<==>".into(), Box::new(other), Box::new(R::K(true)))),
    });
    prop_oneof![
        8 => rel_strategy().prop_map(|(op, a, b)| C::Rel(op, a, b)),
        5 => top_reif,
        1 => proptest::collection::vec(item_strategy(), 0..=4).prop_map(C::AllDistinct),
        1 => proptest::collection::vec(item_strategy(), 0..=4).prop_map(C::AllDifferent),
        1 => (proptest::collection::vec(item_strategy(), 0..=4), any::<u16>(), expr_strategy(false)).prop_map(|(i, k, x)| C::Sum(i, pick(RELS, k).to_string(), x)),
        1 => (proptest::collection::vec((-3i8..=3, item_strategy()), 0..=4), any::<u16>(), expr_strategy(false)).prop_map(|(p, k, x)| C::Scalar(p, pick(RELS, k).to_string(), x)),
        1 => (0u8..4, dom_strategy()).prop_map(|(v, d)| C::In(v, d)),
    ]
    .boxed()
}

pub fn sys_strategy() -> BoxedStrategy<Sys> {
    (
        (1u8..=4, proptest::collection::vec(dom_strategy(), 4), proptest::collection::vec(con_strategy(), 1..=5)),
        (0u8..5, 0u8..2, 0u8..3, proptest::option::weighted(0.15, (any::<bool>(), expr_strategy(false)))),
        (proptest::collection::vec(any::<u16>(), 4), any::<bool>(), any::<bool>()),
    )
        .prop_map(|((nvars, doms, cons), (sel, ord, choice, optim), (perm, ins_first, int_singletons))| Sys { nvars, doms, cons, sel, ord, choice, optim, perm, ins_first, int_singletons })
        .boxed()
}

/// Bias towards satisfiable systems: pick a witness assignment inside the domains and adjust
/// every constraint that the witness violates (other relation symbol, constant offset on one
/// side of an equation, negation of a reified formula, widened in/2 domain). Pure function of
/// the generated data; the brute-force oracle does not know about the witness.
pub fn repair(mut c: Sys, w: &[u8]) -> Sys {
    let n = c.nvars.clamp(1, 4);
    let doms = effective_doms(&c, n);
    let mut asg = vec![];
    for (i, m) in doms.iter().enumerate() {
        let vals: Vec<i64> = (LO..=HI).filter(|v| (m >> (v - LO)) & 1 == 1).collect();
        if vals.is_empty() {
            return c;
        }
        asg.push(vals[w.get(i).cloned().unwrap_or(0) as usize % vals.len()]);
    }
    let fix_rel = |op: &mut String, l: i128, x: &mut X, r: i128, sel: u8| {
        if rel_holds(op, l, r) {
            return;
        }
        if op == "#=" && sel % 2 == 0 {
            if let Ok(d) = i64::try_from(l - r) {
                *x = X::Bin("+".into(), Box::new(x.clone()), Box::new(X::N(d)));
                return;
            }
        }
        let cands: &[&str] = if l < r { &["#<", "#=<", "#\\="] } else if l > r { &["#>", "#>=", "#\\="] } else { &["#=", "#=<", "#>="] };
        *op = cands[sel as usize % 3].to_string();
    };
    let mut u = false;
    for (k, con) in c.cons.iter_mut().enumerate() {
        let sel = w.get(k % w.len().max(1)).cloned().unwrap_or(0).wrapping_add(k as u8);
        match con {
            C::Rel(op, a, b) => {
                if let (Ok(Some(l)), Ok(Some(r))) = (a.ev(&asg, n), b.ev(&asg, n)) {
                    fix_rel(op, l, b, r, sel);
                }
            }
            C::Reif(r) => {
                r.fix_bools(&asg, n);
                if let Ok(Some(false)) = r.ev(&asg, n, &mut u) {
                    *r = R::Not(Box::new(r.clone()));
                }
            }
            C::Sum(items, op, x) => {
                let l: i128 = items.iter().map(|i| item_val(i, &asg, n)).sum();
                if let Ok(Some(r)) = x.ev(&asg, n) {
                    fix_rel(op, l, x, r, sel);
                }
            }
            C::Scalar(pairs, op, x) => {
                let l: i128 = pairs.iter().map(|(c, i)| *c as i128 * item_val(i, &asg, n)).sum();
                if let Ok(Some(r)) = x.ev(&asg, n) {
                    fix_rel(op, l, x, r, sel);
                }
            }
            C::In(v, d) => {
                let x = asg[vi(*v, n)];
                if (dom_mask(d) >> (x - LO)) & 1 == 0 {
                    d.push((x as i8, x as i8));
                }
            }
            C::AllDistinct(items) | C::AllDifferent(items) => {
                let mut seen = vec![];
                items.retain(|i| {
                    let v = item_val(i, &asg, n);
                    if seen.contains(&v) {
                        false
                    } else {
                        seen.push(v);
                        true
                    }
                });
            }
        }
    }
    c
}

pub fn sys_biased_strategy() -> BoxedStrategy<Sys> {
    (sys_strategy(), proptest::collection::vec(any::<u8>(), 5), 0u8..10).prop_map(|(s, w, r)| if r < 8 { repair(s, &w) } else { s }).boxed()
}

pub fn ground_strategy() -> BoxedStrategy<Ground> {
    (expr_strategy(true), expr_strategy(true), any::<u16>()).prop_map(|(a, b, k)| Ground { a, b, op: pick(RELS, k).to_string() }).boxed()
}

// ---------------------------------------------------------------------------------------------
// checks

pub struct Env {
    pub p: crate::shared::pool::Pooled,
}

pub fn mk_env() -> Env {
    Env { p: crate::shared::pool::Pooled::new(&["clpz"]) }
}

const LIMIT: u64 = 150_000_000;

pub const SELS: &[&str] = &["leftmost", "ff", "ffc", "min", "max"];
pub const ORDS: &[&str] = &["up", "down"];
pub const CHOICES: &[&str] = &["step", "enum", "bisect"];

fn common(o: &Outcome, what: &str, q: &str) -> Option<Verdict> {
    match o {
        Outcome::Panic(m) => Some(Verdict::fail(format!("panic:{}", m.split_whitespace().next().unwrap_or("?")), format!("{what}: {q} panicked: {m}"))),
        Outcome::Harness(m) => Some(Verdict::Discard(format!("harness:{}", m.chars().take(40).collect::<String>()))),
        Outcome::Limit => Some(Verdict::Discard("inference-limit".into())),
        _ => None,
    }
}

fn err_name(o: &Outcome) -> String {
    match o.formal() {
        Some(T::Cmp(n, a)) => match a.first() {
            Some(T::Atom(x)) => format!("{n}({x})"),
            _ => n,
        },
        Some(T::Atom(n)) => n,
        _ => "non-iso".into(),
    }
}

/// effective domains: the declared masks, narrowed deterministically until the product of the
/// sizes is at most MAX_ASSIGN
pub fn effective_doms(c: &Sys, n: u8) -> Vec<u16> {
    let mut ms: Vec<u16> = (0..n as usize).map(|i| c.doms.get(i).map(dom_mask).unwrap_or(0x1fff)).collect();
    loop {
        let prod: u64 = ms.iter().map(|m| m.count_ones() as u64).product();
        if prod <= MAX_ASSIGN {
            return ms;
        }
        // drop the largest value of the (first) largest domain
        let (i, _) = ms.iter().enumerate().max_by_key(|(i, m)| (m.count_ones(), usize::MAX - i)).unwrap();
        let top = 15 - ms[i].leading_zeros() as u16;
        ms[i] &= !(1 << top);
    }
}

fn sig_of_con(c: &C) -> String {
    let mut ops = vec![];
    match c {
        C::Rel(op, a, b) => {
            ops.push(op.clone());
            a.ops(&mut ops);
            b.ops(&mut ops);
        }
        C::Reif(_) => ops.push("reified".into()),
        C::Sum(_, op, x) | C::Scalar(_, op, x) => {
            ops.push(c.kind()[2..].to_string());
            ops.push(op.clone());
            x.ops(&mut ops);
        }
        other => ops.push(other.kind()[2..].to_string()),
    }
    ops.sort();
    ops.dedup();
    ops.join(",")
}

pub fn check_sys(env: &mut Env, c: &Sys) -> Verdict {
    env.p.begin_case();
    let n = c.nvars.clamp(1, 4);
    let nn = n as usize;
    let doms = effective_doms(c, n);
    // brute force
    let vals: Vec<Vec<i64>> = doms.iter().map(|m| (LO..=HI).filter(|v| (m >> (v - LO)) & 1 == 1).collect()).collect();
    let total: u64 = vals.iter().map(|v| v.len() as u64).product();
    let mut expected: std::collections::BTreeSet<Vec<i64>> = Default::default();
    let mut undef_seen = false;
    if total > 0 {
        let mut idx = vec![0usize; nn];
        'outer: loop {
            let asg: Vec<i64> = (0..nn).map(|i| vals[i][idx[i]]).collect();
            let mut ok = true;
            for con in &c.cons {
                match con.holds(&asg, n, &mut undef_seen) {
                    Ok(true) => {}
                    Ok(false) => {
                        ok = false;
                        // keep evaluating the others only for the undefined flag? not needed
                        break;
                    }
                    Err(Overflow) => return Verdict::Discard("oracle-overflow".into()),
                }
            }
            if let Some((_, x)) = &c.optim {
                match x.ev(&asg, n) {
                    Ok(Some(_)) => {}
                    Ok(None) => {
                        if ok {
                            // labeling would have to evaluate an undefined objective: not a case the
                            // documentation defines
                            return Verdict::Discard("objective-undefined".into());
                        }
                    }
                    Err(Overflow) => return Verdict::Discard("oracle-overflow".into()),
                }
            }
            if ok {
                expected.insert(asg);
            }
            let mut k = 0;
            loop {
                if k == nn {
                    break 'outer;
                }
                idx[k] += 1;
                if idx[k] < vals[k].len() {
                    break;
                }
                idx[k] = 0;
                k += 1;
            }
        }
    }
    // query text
    let vs: Vec<String> = (0..nn).map(|i| format!("V{i}")).collect();
    let mut order: Vec<usize> = (0..nn).collect();
    order.sort_by_key(|i| (c.perm.get(*i).cloned().unwrap_or(0), *i));
    let lab_vars = format!("[{}]", order.iter().map(|i| vs[*i].clone()).collect::<Vec<_>>().join(","));
    let mut dom_goals = vec![];
    if c.ins_first {
        dom_goals.push(format!("'ins'([{}], '..'(-6,6))", vs.join(",")));
    }
    for i in 0..nn {
        dom_goals.push(term::cmp("in", vec![T::Var(i as u32), mask_t(doms[i], c.int_singletons)]).text());
    }
    let con_goals: Vec<String> = c.cons.iter().map(|k| k.to_t(n, c.int_singletons).text()).collect();
    let run = |env: &mut Env, cons: &[String], sel: u8, ord: u8, choice: u8, optim: bool| -> (String, Outcome) {
        let mut opts: Vec<String> = vec![];
        // defaults are sometimes left implicit
        if sel % 5 != 0 || c.ins_first {
            opts.push(pick_i(SELS, sel).to_string());
        }
        if ord % 2 != 0 || c.int_singletons {
            opts.push(pick_i(ORDS, ord).to_string());
        }
        if choice % 3 != 0 || c.ins_first {
            opts.push(pick_i(CHOICES, choice).to_string());
        }
        if optim {
            if let Some((mx, x)) = &c.optim {
                opts.push(format!("{}({})", if *mx { "max" } else { "min" }, x.to_t(n).text()));
            }
        }
        let cons_txt = if cons.is_empty() { "true".to_string() } else { cons.join(", ") };
        let q = format!("{}, {}, labeling([{}], {lab_vars})", dom_goals.join(", "), cons_txt, opts.join(","));
        let o = env.p.s().ask_lim(&q, &format!("[{}]", vs.join(",")), LIMIT);
        (q, o)
    };
    let err_accepted: std::cell::RefCell<Option<String>> = std::cell::RefCell::new(None);
    let judge = |q: &str, o: &Outcome| -> Option<Verdict> {
        if let Some(v) = common(o, "labeling", q) {
            return Some(v);
        }
        match o {
            Outcome::Ex(b) => {
                // a variable used as a Boolean operand that is already bound to an integer outside
                // 0..1 when the constraint is posted is rejected as "not reifiable" (an error, where
                // an unbound variable would make the post fail): accepted when no solution exists
                let has_bool_operand = c.cons.iter().any(|k| matches!(k, C::Reif(r) if r.has_bool_var()));
                // (clpz:reifiable/1 is not steadfast: when another operand of the same formula is an
                // unbound variable, backtracking into its clauses turns the intended domain_error into
                // type_error(integer, ?(_)) or an instantiation_error of (=..)/2 -- still an error for
                // the same input, the kind is not asserted)
                let en = err_name(o);
                if (en == "domain_error(clpz_reifiable_expression)" || en == "type_error(integer)" || en == "instantiation_error") && has_bool_operand && expected.is_empty() {
                    *err_accepted.borrow_mut() = Some(format!("accepted-error:{en}"));
                    return None;
                }
                Some(Verdict::fail(format!("error:{}", err_name(o)), format!("{q} raised {}", b.text())))
            }
            Outcome::Sols(sols) => {
                let mut got: std::collections::BTreeSet<Vec<i64>> = Default::default();
                for s in sols {
                    let items = match s {
                        T::PList(items, tail) if tail.is_nil() && items.len() == nn => items.clone(),
                        _ => return Some(Verdict::fail("labeling-shape:", format!("{q}: answer {}", s.text()))),
                    };
                    let mut asg = vec![];
                    for it in &items {
                        match it {
                            T::Int(v) => match i64::try_from(v) {
                                Ok(v) => asg.push(v),
                                Err(_) => return Some(Verdict::fail("labeling-shape:big", format!("{q}: answer {}", s.text()))),
                            },
                            _ => return Some(Verdict::fail("labeling-shape:unlabeled", format!("{q}: labeling left {} (answer {})", it.text(), s.text()))),
                        }
                    }
                    if !got.insert(asg.clone()) {
                        return Some(Verdict::fail(format!("duplicate-solution:{}", culprit(&c.cons, &asg, n, true)), format!("{q}: assignment {asg:?} enumerated twice")));
                    }
                }
                if let Some(bad) = got.iter().find(|a| !expected.contains(*a)) {
                    return Some(Verdict::fail(format!("unsound:{}", culprit(&c.cons, bad, n, false)), format!("{q}: enumerated {bad:?} which violates a constraint; expected {} solutions, got {}", expected.len(), got.len())));
                }
                if let Some(miss) = expected.iter().find(|a| !got.contains(*a)) {
                    return Some(Verdict::fail(format!("incomplete:{}", culprit(&c.cons, miss, n, true)), format!("{q}: solution {miss:?} was not enumerated; expected {} solutions, got {}", expected.len(), got.len())));
                }
                None
            }
            _ => None,
        }
    };
    let (q1, o1) = run(env, &con_goals, c.sel, c.ord, c.choice, true);
    if let Some(v) = judge(&q1, &o1) {
        return v;
    }
    // the same system posted in reverse order with other search options
    let rev: Vec<String> = con_goals.iter().rev().cloned().collect();
    let (q2, o2) = run(env, &rev, c.sel.wrapping_add(2), c.ord.wrapping_add(1), c.choice.wrapping_add(1), false);
    if let Some(v) = judge(&q2, &o2) {
        return v;
    }

    // classes
    let mut classes: Vec<String> = vec![];
    for k in &c.cons {
        classes.push(k.kind().to_string());
    }
    classes.push(format!("sel:{}", pick_i(SELS, c.sel)));
    classes.push(format!("choice:{}-{}", pick_i(CHOICES, c.choice), pick_i(ORDS, c.ord)));
    if c.optim.is_some() {
        classes.push("opt:min/max(Expr)".into());
    }
    if expected.is_empty() {
        classes.push("unsat".into());
    } else if expected.len() == 1 {
        classes.push("unique-solution".into());
    } else if (expected.len() as u64) < total {
        classes.push("several-solutions".into());
    } else {
        classes.push("all-assignments-are-solutions".into());
    }
    if nt_shares(&c.cons, n) {
        classes.push("constraints-share-variable".into());
    }
    if let Some(e) = err_accepted.borrow().clone() {
        classes.push(e);
    }
    if undef_seen {
        classes.push("undefined-subterm-reached".into());
    }
    let mut ops = vec![];
    for k in &c.cons {
        if let C::Rel(_, a, b) = k {
            a.ops(&mut ops);
            b.ops(&mut ops);
        }
    }
    ops.sort();
    ops.dedup();
    for o in ops {
        classes.push(format!("f:{o}"));
    }
    classes.sort();
    classes.dedup();
    // non-trivial: >= 2 constraints sharing a variable and 0 < #solutions < #assignments
    let shares = nt_shares(&c.cons, n);
    let nt = shares && !expected.is_empty() && (expected.len() as u64) < total;
    let cl: Vec<&str> = classes.iter().map(|s| s.as_str()).collect();
    Verdict::pass(nt, &cl)
}

fn nt_shares(cons: &[C], n: u8) -> bool {
    let vms: Vec<u32> = cons.iter().map(|k| k.vars(n)).collect();
    (0..vms.len()).any(|i| (0..i).any(|j| vms[i] & vms[j] != 0))
}

fn pick_i<'a>(items: &[&'a str], i: u8) -> &'a str {
    items[i as usize % items.len()]
}

/// the functor set of the first constraint that (dis)agrees with the assignment, to make
/// signatures specific
fn culprit(cons: &[C], asg: &[i64], n: u8, want_holding: bool) -> String {
    let mut u = false;
    if !want_holding {
        for c in cons {
            if let Ok(false) = c.holds(asg, n, &mut u) {
                return sig_of_con(c);
            }
        }
    }
    let mut all: Vec<String> = cons.iter().map(sig_of_con).collect();
    all.sort();
    all.dedup();
    all.join("+")
}

pub fn check_ground(env: &mut Env, g: &Ground) -> Verdict {
    env.p.begin_case();
    let (va, vb) = match (g.a.ev(&[], 1), g.b.ev(&[], 1)) {
        (Ok(a), Ok(b)) => (a, b),
        _ => return Verdict::Discard("oracle-overflow".into()),
    };
    let ta = g.a.to_t(1).text();
    let big = |v: i128| T::Int(IBig::from(v));
    let acceptable_error = |o: &Outcome| matches!(o.formal(), Some(T::Cmp(n, _)) if n == "evaluation_error" || n == "type_error");
    let mut ops = vec![];
    g.a.ops(&mut ops);
    ops.sort();
    ops.dedup();
    let opsig = ops.join(",");

    // 1. X #= A (both directions)
    for (dir, q) in [("X#=E", format!("'#='(X, {ta})")), ("E#=X", format!("'#='({ta}, X)"))] {
        let o = env.p.s().ask_lim(&q, "X", LIMIT);
        if let Some(v) = common(&o, "ground", &q) {
            return v;
        }
        match (&va, &o) {
            (Some(v), Outcome::Sols(s)) if s.len() == 1 && s[0] == big(*v) => {}
            (Some(v), _) => return Verdict::fail(format!("ground-value:{dir}:{opsig}"), format!("{q}: gave {} expected X = {v}", o.short())),
            (None, Outcome::Sols(s)) if s.is_empty() => {}
            (None, Outcome::Ex(_)) if acceptable_error(&o) => {}
            (None, _) => return Verdict::fail(format!("ground-undefined:{dir}:{opsig}"), format!("{q}: gave {} but the expression has an undefined subterm (expected failure or an evaluation/type error)", o.short())),
        }
    }
    // 2. A op B
    let rel = match (va, vb) {
        (Some(a), Some(b)) => Some(rel_holds(&g.op, a, b)),
        _ => None,
    };
    let q2 = term::cmp(&g.op, vec![g.a.to_t(1), g.b.to_t(1)]).text();
    let o2 = env.p.s().ask_lim(&q2, "[]", LIMIT);
    if let Some(v) = common(&o2, "ground", &q2) {
        return v;
    }
    match (&rel, &o2) {
        (Some(true), Outcome::Sols(s)) if s.len() == 1 => {}
        (Some(false), Outcome::Sols(s)) if s.is_empty() => {}
        (None, Outcome::Sols(s)) if s.is_empty() => {}
        (None, Outcome::Ex(_)) if acceptable_error(&o2) => {}
        _ => return Verdict::fail(format!("ground-relation:{}", g.op), format!("{q2}: gave {} expected {:?} (values {va:?} {vb:?})", o2.short(), rel)),
    }
    // 3. reified
    let q3 = format!("'#<==>'(B, {q2})");
    let o3 = env.p.s().ask_lim(&q3, "B", LIMIT);
    if let Some(v) = common(&o3, "ground", &q3) {
        return v;
    }
    let eb = term::int(rel.unwrap_or(false) as i32);
    match &o3 {
        Outcome::Sols(s) if s.len() == 1 && s[0] == eb => {}
        _ => return Verdict::fail(format!("ground-reified:{}:{}", g.op, if rel.is_none() { "undefined" } else { "defined" }), format!("{q3}: gave {} expected B = {} (values {va:?} {vb:?})", o3.short(), eb.text())),
    }
    // 4. agreement with is/2 of the same machine
    let q4 = format!("catch((Y is {ta}, R = v(Y)), error(_,_), R = err), ( catch('#='(X, {ta}), error(_,_), fail) -> S = v(X) ; S = none )");
    let o4 = env.p.s().ask_lim(&q4, "R-S", LIMIT);
    if let Some(v) = common(&o4, "ground", &q4) {
        return v;
    }
    match &o4 {
        Outcome::Sols(s) if s.len() == 1 => {
            if let T::Cmp(_, rs) = &s[0] {
                if let T::Cmp(v, _) = &rs[0] {
                    if v == "v" && rs[0] != rs[1] {
                        return Verdict::fail(format!("ground-vs-is:{opsig}"), format!("{q4}: is/2 gave {} but #= gave {}", rs[0].text(), rs[1].text()));
                    }
                }
            }
        }
        _ => return Verdict::fail("ground-vs-is:shape", format!("{q4}: {}", o4.short())),
    }
    let mut classes: Vec<String> = ops.iter().map(|o| format!("f:{o}")).collect();
    classes.push(format!("rel:{}", g.op));
    if va.is_none() || vb.is_none() {
        classes.push("undefined".into());
    }
    if va.map(|v| v.abs() > (1i128 << 55)).unwrap_or(false) {
        classes.push("big-value".into());
    }
    let cl: Vec<&str> = classes.iter().map(|s| s.as_str()).collect();
    Verdict::pass(!ops.is_empty(), &cl)
}

pub struct C27;

impl Prop for C27 {
    fn id(&self) -> &'static str {
        "C27"
    }
    fn rule(&self) -> &'static str {
        "kind system: 1..4 variables with domains (intervals and unions) inside -6..6 (product of sizes <= 1500), 1..5 constraints from {#= #\\= #< #=< #> #>= over + - * // div mod rem min max abs sign ^ unary-, reified formulas over #\\ #/\\ #\\/ #\\(xor) #<==> #==> #<== with relations, in/2, Boolean variables and 0/1, all_distinct, all_different, sum/3, scalar_product/4, in/2}, labeling/2 with every combination of leftmost/ff/ffc/min/max x up/down x step/enum/bisect and optional min/max(Expr), the system posted in both orders; the enumerated set must equal the brute-force solution set exactly, each once. kind ground: X #= E, E #= X, E1 #op E2, B #<==> (E1 #op E2) on ground expressions (leaves up to 2^63) vs the exact evaluator and vs is/2. non-trivial(system) = >= 2 constraints share a variable and 0 < #solutions < #assignments; non-trivial(ground) = at least one functor; distinct by case encoding"
    }
    fn assumptions(&self) -> Vec<String> {
        vec![
            "a relation with an undefined subterm is false; a variable used as a Boolean operand is constrained to 0..1 (clpz.pl comments and reify//2)".into(),
            "ground undefined expressions outside reification may fail or raise evaluation_error/type_error".into(),
            "findall/3, call_with_inference_limit/3 and the reader for canonical text (other properties)".into(),
        ]
    }
    fn run_shard(&self, cfg: &ShardCfg) -> ShardResult {
        let mut d = Driver::new(cfg, "C27");
        let n = cfg.share(cfg.tier.pick(3_000, 200_000));
        d.run("system", 0, n, 1000, sys_biased_strategy(), &mk_env, &check_sys);
        let g = cfg.share(cfg.tier.pick(4_000, 200_000));
        d.run("ground", 1, g, 2000, ground_strategy(), &mk_env, &check_ground);
        d.finish()
    }
    fn replay(&self, kind: &str, case: &Value) -> Verdict {
        match kind {
            "ground" => replay_case::<Ground, Env>(case, &mk_env, &check_ground),
            _ => replay_case::<Sys, Env>(case, &mk_env, &check_sys),
        }
    }
}
