//! C38 — Delimited control (reset/3, shift/1) and tabling compute the specified answers.
//!
//! (a) tabled transitive-closure programs over random graphs: the answers of every query mode must
//!     be exactly the reachability fixpoint (as a set, no duplicates), also when the table is
//!     already complete, and equal to the untabled answers where the untabled program terminates;
//! (b) effect programs over reset/3 and shift/1 with handlers (generator loop, state, drop,
//!     resume twice, resume without reset) compared with a reference goal-stack machine
//!     (`shared::effref`): ordered answers and the trace of emitted tokens.
//! Every query runs under an inference limit; hitting it is a finding (non-termination).
use crate::engine::*;
use crate::session::{Outcome, Session};
use crate::shared::effref::*;
use crate::term::{atom, cmp, int, list, T};
use proptest::prelude::*;
use serde::{Deserialize, Serialize};
use serde_json::Value;
use std::collections::BTreeSet;

pub const C38_PL: &str = include_str!("../../prolog/c38.pl");
const LIMIT: u64 = 20_000_000;

// ---------------------------------------------------------------------------------------------
// (a) tabling

#[derive(Clone, Debug, Serialize, Deserialize)]
pub struct TCase {
    pub n: u8,
    pub edges: Vec<(u8, u8)>,
    /// 0 left-recursive, 1 right-recursive, 2 double-recursive, 3 mutual recursion over two tabled
    /// predicates, 4 left-recursive with an extra bound argument, 5 right-recursive with the
    /// edge call last (p(X,Y) :- p(Z,Y), e(X,Z))
    pub def: u8,
    pub base_first: bool,
    /// (X bound?, Y bound?) as node numbers; 0 = unbound
    pub queries: Vec<(u8, u8)>,
}

pub fn tcase_strategy() -> BoxedStrategy<TCase> {
    (1u8..=7, proptest::collection::vec((1u8..=7, 1u8..=7), 0..=14), 0u8..=5, any::<bool>(), proptest::collection::vec((0u8..4, 1u8..=7, 1u8..=7).prop_map(|(mode, a, b)| (if mode & 1 == 0 { a } else { 0 }, if mode & 2 == 0 { b } else { 0 })), 1..=4), any::<u8>())
        .prop_map(|(n, edges, def, base_first, queries, shape)| {
            let m = |x: u8| (x - 1) % n + 1;
            let mut edges: Vec<(u8, u8)> = edges.into_iter().map(|(a, b)| (m(a), m(b))).collect();
            if shape % 4 == 0 {
                // DAG
                edges = edges.into_iter().filter(|(a, b)| a != b).map(|(a, b)| if a < b { (a, b) } else { (b, a) }).collect();
            }
            let queries = queries.into_iter().map(|(a, b)| (if a == 0 { 0 } else { m(a) }, if b == 0 { 0 } else { m(b) })).collect();
            TCase { n, edges, def, base_first, queries }
        })
        .boxed()
}

fn closure(n: u8, edges: &[(u8, u8)]) -> BTreeSet<(u8, u8)> {
    let mut e: BTreeSet<(u8, u8)> = edges.iter().cloned().collect();
    let _ = n;
    loop {
        let mut add = vec![];
        for (a, b) in &e {
            for (c, d) in &e {
                if b == c && !e.contains(&(*a, *d)) {
                    add.push((*a, *d));
                }
            }
        }
        if add.is_empty() {
            return e;
        }
        e.extend(add);
    }
}

pub fn tabling_text(c: &TCase, pfx: &str) -> String {
    let (p, q, e, u) = (format!("{pfx}p"), format!("{pfx}q"), format!("{pfx}e"), format!("{pfx}u"));
    let mut s = String::new();
    match c.def {
        3 => s.push_str(&format!(":- table {p}/2, {q}/2.\n")),
        4 => s.push_str(&format!(":- table {p}/3.\n")),
        _ => s.push_str(&format!(":- table {p}/2.\n")),
    }
    s.push_str(&format!(":- dynamic({e}/2).\n"));
    for (a, b) in &c.edges {
        s.push_str(&format!("{e}({a},{b}).\n"));
    }
    let base = if c.def == 4 { format!("{p}(T,X,Y) :- {e}(X,Y).\n") } else { format!("{p}(X,Y) :- {e}(X,Y).\n") };
    let rec = match c.def {
        0 => format!("{p}(X,Y) :- {p}(X,Z), {e}(Z,Y).\n"),
        1 => format!("{p}(X,Y) :- {e}(X,Z), {p}(Z,Y).\n"),
        2 => format!("{p}(X,Y) :- {p}(X,Z), {p}(Z,Y).\n"),
        3 => format!("{p}(X,Y) :- {q}(X,Z), {e}(Z,Y).\n"),
        4 => format!("{p}(T,X,Y) :- {p}(T,X,Z), {e}(Z,Y).\n"),
        _ => format!("{p}(X,Y) :- {p}(Z,Y), {e}(X,Z).\n"),
    };
    if c.base_first {
        s.push_str(&base);
        s.push_str(&rec);
    } else {
        s.push_str(&rec);
        s.push_str(&base);
    }
    if c.def == 3 {
        s.push_str(&format!("{q}(X,Y) :- {p}(X,Y).\n"));
    }
    // untabled right-recursive reference program (terminates on acyclic graphs)
    s.push_str(&format!("{u}(X,Y) :- {e}(X,Y).\n{u}(X,Y) :- {e}(X,Z), {u}(Z,Y).\n"));
    s
}

pub struct Env {
    pub s: Session,
    pub counter: u64,
}

pub fn mk_env() -> Env {
    let mut s = Session::new(&["tabling", "cont", "lists"]);
    assert!(s.consult(C38_PL, "c38pl"), "c38.pl failed to load");
    Env { s, counter: 0 }
}

fn panic_verdict(o: &Outcome, goal: &str) -> Option<Verdict> {
    match o {
        Outcome::Panic(m) => Some(Verdict::fail(format!("panic:{}", m.split_whitespace().next().unwrap_or("?")), format!("{goal} panicked: {m}"))),
        Outcome::Harness(m) => Some(Verdict::Discard(format!("harness:{}", m.chars().take(40).collect::<String>()))),
        _ => None,
    }
}

fn node_pairs(sols: &[T]) -> Option<Vec<(u8, u8)>> {
    let mut out = vec![];
    for s in sols {
        match s {
            T::Cmp(n, ab) if n == "-" && ab.len() == 2 => match (&ab[0], &ab[1]) {
                (T::Int(a), T::Int(b)) => out.push((u8::try_from(a).ok()?, u8::try_from(b).ok()?)),
                _ => return None,
            },
            _ => return None,
        }
    }
    Some(out)
}

pub fn check_tabling(env: &mut Env, c: &TCase) -> Verdict {
    env.counter += 1;
    let pfx = format!("t{}", env.counter);
    let text = tabling_text(c, &pfx);
    if !env.s.consult(&text, &format!("{pfx}s")) {
        return Verdict::fail("load-rejected:tabling", format!("consulting a tabled program was rejected:\n{text}"));
    }
    let cl = closure(c.n, &c.edges);
    let cyclic = cl.iter().any(|(a, b)| a == b);
    let defname = ["left", "right", "double", "mutual", "extra-arg", "right-edge-last"][c.def as usize % 6];
    let mut reach_cycle = false;
    for (qx, qy) in &c.queries {
        let xs = if *qx == 0 { "X".to_string() } else { qx.to_string() };
        let ys = if *qy == 0 { "Y".to_string() } else { qy.to_string() };
        let want: BTreeSet<(u8, u8)> = cl.iter().filter(|(a, b)| (*qx == 0 || a == qx) && (*qy == 0 || b == qy)).cloned().collect();
        let mode = format!("{}{}", if *qx == 0 { "-" } else { "+" }, if *qy == 0 { "-" } else { "+" });
        let goal = if c.def == 4 { format!("{pfx}p(tag,{xs},{ys})") } else { format!("{pfx}p({xs},{ys})") };
        let tmpl = format!("{xs}-{ys}");
        // twice: the second call finds the table complete
        for round in ["first-call", "complete-table"] {
            let o = env.s.ask_lim(&goal, &tmpl, LIMIT);
            if let Some(v) = panic_verdict(&o, &goal) {
                return v;
            }
            match &o {
                Outcome::Limit => return Verdict::fail(format!("no-termination:{defname}"), format!("{goal} ({round}) exceeded {LIMIT} inferences; program:\n{text}")),
                Outcome::Sols(sols) => {
                    let Some(pairs) = node_pairs(sols) else { return Verdict::fail(format!("wrong-answers:{defname}"), format!("{goal} ({round}) gave {} (not node pairs); program:\n{text}", o.short())) };
                    let got: BTreeSet<(u8, u8)> = pairs.iter().cloned().collect();
                    if got != want {
                        let missing: Vec<_> = want.difference(&got).collect();
                        let extra: Vec<_> = got.difference(&want).collect();
                        let class = if extra.is_empty() { "missing-answers" } else { "wrong-answers" };
                        return Verdict::fail(format!("{class}:{defname}"), format!("{goal} ({round}, mode {mode}) missing {missing:?} extra {extra:?}; program:\n{text}"));
                    }
                    if got.len() != pairs.len() {
                        return Verdict::fail(format!("duplicate-answers:{defname}"), format!("{goal} ({round}, mode {mode}) gave {} — an answer is repeated; program:\n{text}", o.short()));
                    }
                }
                other => return Verdict::fail(format!("unexpected-error:{defname}"), format!("{goal} ({round}) gave {}; program:\n{text}", other.short())),
            }
        }
        if *qx != 0 && cl.contains(&(*qx, *qx)) || *qx == 0 && cyclic {
            reach_cycle = true;
        }
        // untabled execution terminates on acyclic graphs: same set of answers
        if !cyclic {
            let ug = format!("{pfx}u({xs},{ys})");
            let o = env.s.ask_lim(&ug, &tmpl, LIMIT);
            if let Some(v) = panic_verdict(&o, &ug) {
                return v;
            }
            let ok = match &o {
                Outcome::Sols(sols) => node_pairs(sols).map(|p| p.into_iter().collect::<BTreeSet<_>>() == want).unwrap_or(false),
                _ => false,
            };
            if !ok {
                return Verdict::fail("untabled-differs", format!("{ug} gave {} but the tabled answers are {want:?}; program:\n{text}", o.short()));
            }
        }
    }
    let mut classes: Vec<String> = vec![format!("def-{defname}"), if cyclic { "cyclic".into() } else { "acyclic".into() }];
    if c.edges.iter().any(|(a, b)| a == b) {
        classes.push("self-loop".into());
    }
    if c.edges.is_empty() {
        classes.push("no-edges".into());
    }
    for (qx, qy) in &c.queries {
        classes.push(format!("mode{}{}", if *qx == 0 { "-" } else { "+" }, if *qy == 0 { "-" } else { "+" }));
    }
    classes.sort();
    classes.dedup();
    let cls: Vec<&str> = classes.iter().map(|s| s.as_str()).collect();
    Verdict::pass(reach_cycle, &cls)
}

// tabled programs that also terminate untabled: fib, and counting paths is not a set property, so
// only fib (exact value) is used here
#[derive(Clone, Debug, Serialize, Deserialize)]
pub struct FibCase {
    pub ns: Vec<u8>,
}

pub fn check_fib(env: &mut Env, c: &FibCase) -> Verdict {
    env.counter += 1;
    let pfx = format!("f{}", env.counter);
    let f = format!("{pfx}fib");
    let text = format!(":- table {f}/2.\n{f}(0, 0).\n{f}(1, 1).\n{f}(N, F) :- N > 1, N1 is N-1, N2 is N-2, {f}(N1, F1), {f}(N2, F2), F is F1+F2.\n{pfx}ufib(0, 0).\n{pfx}ufib(1, 1).\n{pfx}ufib(N, F) :- N > 1, N1 is N-1, N2 is N-2, {pfx}ufib(N1, F1), {pfx}ufib(N2, F2), F is F1+F2.\n");
    if !env.s.consult(&text, &format!("{pfx}s")) {
        return Verdict::fail("load-rejected:fib", format!("consulting a tabled program was rejected:\n{text}"));
    }
    for n in &c.ns {
        let mut a: (u64, u64) = (0, 1);
        for _ in 0..*n {
            a = (a.1, a.0 + a.1);
        }
        let goal = format!("{f}({n}, F)");
        let o = env.s.ask_lim(&goal, "F", LIMIT);
        if let Some(v) = panic_verdict(&o, &goal) {
            return v;
        }
        match &o {
            Outcome::Sols(v) if v.len() == 1 && v[0].eq_struct(&int(a.0 as i64)) => {}
            Outcome::Limit => return Verdict::fail("no-termination:fib", format!("{goal} exceeded {LIMIT} inferences")),
            other => return Verdict::fail("wrong-answers:fib", format!("{goal} gave {} expected {}", other.short(), a.0)),
        }
        if *n <= 15 {
            let ug = format!("{pfx}ufib({n}, F)");
            let o = env.s.ask_lim(&ug, "F", LIMIT);
            if !matches!(&o, Outcome::Sols(v) if v.len() == 1 && v[0].eq_struct(&int(a.0 as i64))) {
                return Verdict::fail("untabled-differs", format!("{ug} gave {} expected {}", o.short(), a.0));
            }
        }
    }
    Verdict::pass(c.ns.iter().any(|n| *n >= 10), &["fib"])
}

// ---------------------------------------------------------------------------------------------
// (b) effect programs

fn const_tok() -> BoxedStrategy<T> {
    prop_oneof![3 => (0u8..4).prop_map(|i| atom(&format!("t{i}"))), 1 => (0i64..3).prop_map(int)].boxed()
}

fn var_tok() -> BoxedStrategy<T> {
    (0u32..4).prop_map(T::Var).boxed()
}

fn tok() -> BoxedStrategy<T> {
    prop_oneof![3 => const_tok(), 2 => var_tok()].boxed()
}

fn handler() -> BoxedStrategy<Handler> {
    prop_oneof![
        4 => Just(Handler::Drive),
        3 => const_tok().prop_map(Handler::State),
        1 => Just(Handler::First),
        1 => Just(Handler::Twice),
        2 => Just(Handler::Once),
    ]
    .boxed()
}

fn item() -> BoxedStrategy<Item> {
    let leaf = prop_oneof![
        4 => tok().prop_map(Item::Emit),
        4 => tok().prop_map(|t| Item::Shift(cmp("y", vec![t]))),
        2 => var_tok().prop_map(|v| Item::Shift(cmp("get", vec![v]))),
        2 => tok().prop_map(|t| Item::Shift(cmp("put", vec![t]))),
        2 => (var_tok(), const_tok()).prop_map(|(v, c)| Item::Unify(v, c)),
        2 => (var_tok(), proptest::collection::vec(const_tok(), 1..=3)).prop_map(|(v, l)| Item::Member(v, l)),
        3 => (any::<u16>(), tok()).prop_map(|(i, t)| Item::Call(i as usize, t)),
    ];
    leaf.prop_recursive(3, 14, 4, |inner| (handler(), proptest::collection::vec(inner, 0..=4)).prop_map(|(h, items)| Item::Handle(h, items))).boxed()
}

/// make the raw program valid: calls go to higher-numbered predicates only (termination), and
/// the goal of a `Twice` handler binds nothing after a shift (a continuation that is resumed twice
/// shares its variables between the two runs; whether variables first bound inside the
/// continuation are shared is not specified, so such programs are not generated)
fn fix_items(items: Vec<Item>, cur: i64, npreds: usize, pure_only: bool) -> Vec<Item> {
    let mut out = vec![];
    for it in items {
        match it {
            Item::Call(i, t) => {
                let lo = (cur + 1) as usize;
                if lo >= npreds || pure_only {
                    out.push(Item::Emit(t));
                } else {
                    let idx = lo + ((i & 0xffff) * (npreds - lo) >> 16);
                    out.push(Item::Call(idx, t));
                }
            }
            Item::Handle(h, inner) => {
                let pure = pure_only || matches!(h, Handler::Twice);
                let h = if pure_only && matches!(h, Handler::State(_)) { Handler::Drive } else { h };
                out.push(Item::Handle(h, fix_items(inner, cur, npreds, pure)));
            }
            Item::Unify(..) | Item::Member(..) if pure_only => out.push(Item::Emit(atom("t0"))),
            Item::Shift(T::Cmp(n, args)) if pure_only && n != "y" => out.push(Item::Shift(cmp("y", args))),
            other => out.push(other),
        }
    }
    out
}

pub fn prog_strategy() -> BoxedStrategy<Prog> {
    (proptest::collection::vec(proptest::collection::vec(item(), 1..=5), 0..=4), proptest::collection::vec(item(), 1..=5))
        .prop_map(|(preds, top)| {
            let n = preds.len();
            let preds: Vec<Vec<Item>> = preds.into_iter().enumerate().map(|(i, b)| fix_items(b, i as i64, n, false)).collect();
            let top = fix_items(top, -1, n, false);
            Prog { preds, top }
        })
        .boxed()
}

fn count_items(items: &[Item], f: &mut dyn FnMut(&Item)) {
    for it in items {
        f(it);
        if let Item::Handle(_, inner) = it {
            count_items(inner, f);
        }
    }
}

pub fn check_effects(env: &mut Env, p: &Prog) -> Verdict {
    let exp = run_eff(p, 200_000);
    let (answers, trace, shifts, depth) = match exp {
        EffOutcome::Abort(m) => return Verdict::Discard(format!("model:{m}")),
        EffOutcome::Done { answers, trace, shifts, max_reset_depth } => (answers, trace, shifts, max_reset_depth),
    };
    env.counter += 1;
    let pfx = format!("k{}", env.counter);
    let text = render_prog(p, &pfx);
    if !text.is_empty() && !env.s.consult(&text, &format!("{pfx}s")) {
        return Verdict::fail("load-rejected:effects", format!("consulting an effect program was rejected:\n{text}"));
    }
    let goal = format!("c38_run(c38_drive({}), V0, Res)", render_conj(&p.top, &pfx));
    let o = env.s.ask_lim(&goal, "Res", LIMIT);
    if let Some(v) = panic_verdict(&o, &goal) {
        return v;
    }
    let want = cmp("-", vec![list(answers.clone()), list(trace.clone())]);
    match &o {
        Outcome::Limit => return Verdict::fail("no-termination:effects", format!("{goal} exceeded {LIMIT} inferences; program:\n{text}")),
        Outcome::Sols(v) if v.len() == 1 => {
            if !v[0].variant(&want) {
                // which part differs?
                let class = match &v[0] {
                    T::Cmp(n, ab) if n == "-" && ab.len() == 2 => {
                        if !ab[1].variant(&list(trace.clone())) {
                            "wrong-trace"
                        } else {
                            "wrong-answers"
                        }
                    }
                    _ => "wrong-shape",
                };
                return Verdict::fail(format!("{class}:effects"), format!("{goal} gave {} expected {}; program:\n{text}", v[0].text(), want.norm().text()));
            }
        }
        other => return Verdict::fail("unexpected-outcome:effects", format!("{goal} gave {} expected {}; program:\n{text}", other.short(), want.norm().text())),
    }
    let mut classes: Vec<&str> = vec!["effects"];
    let mut seen: BTreeSet<&'static str> = BTreeSet::new();
    let mut collect = |it: &Item| {
        let k: &'static str = match it {
            Item::Handle(Handler::Drive, _) => "handler-drive",
            Item::Handle(Handler::State(_), _) => "handler-state",
            Item::Handle(Handler::First, _) => "handler-drop",
            Item::Handle(Handler::Twice, _) => "handler-twice",
            Item::Handle(Handler::Once, _) => "handler-once",
            Item::Member(..) => "member",
            Item::Call(..) => "call",
            Item::Shift(T::Cmp(n, _)) if n == "get" => "shift-get",
            Item::Shift(T::Cmp(n, _)) if n == "put" => "shift-put",
            Item::Shift(_) => "shift-yield",
            _ => "other",
        };
        seen.insert(k);
    };
    count_items(&p.top, &mut collect);
    for b in &p.preds {
        count_items(b, &mut collect);
    }
    classes.extend(seen.iter().filter(|k| **k != "other"));
    if shifts >= 2 {
        classes.push("two-or-more-shifts");
    }
    if depth >= 3 {
        classes.push("nested-reset");
    }
    if answers.len() >= 2 {
        classes.push("several-answers");
    }
    if answers.is_empty() {
        classes.push("no-answer");
    }
    // the query itself is one reset; "nested" = a reset inside the goal of another one
    Verdict::pass(shifts >= 2 || depth >= 3, &classes)
}

pub struct C38;

impl Prop for C38 {
    fn id(&self) -> &'static str {
        "C38"
    }
    fn rule(&self) -> &'static str {
        "(a) tabled transitive-closure programs (left-, right-, double-recursive, right-recursive with the edge call last, mutual recursion over two tabled predicates, extra bound argument; base clause first or last) over random graphs of 1-7 nodes with cycles and self loops (1/4 DAGs), queried in modes (+,-), (-,+), (-,-), (+,+), each query twice (fresh and complete table): answers = reachability fixpoint computed in Rust, compared as sets, no duplicate answers, equal to the untabled program's answer set on acyclic graphs; tabled fib(0..30) exact; (b) effect programs (conjunctions of emit, shift(y/get/put), =, member/2, calls to later predicates, nested resets with the handlers drive/state/drop/twice/once) run under reset/3: ordered answers and emitted trace compared with a reference goal-stack machine; every query under call_with_inference_limit (2*10^7), exceeding it is a violation; non-trivial = (a) a cycle reachable from the query node, (b) >= 2 shifts executed or a reset nested in a handled goal; distinct by case encoding"
    }
    fn assumptions(&self) -> Vec<String> {
        vec![
            "a continuation that is resumed twice only emits and shifts ground balls (sharing of variables first bound inside a continuation between two resumptions is not specified)".into(),
            "shift/1 with no enclosing reset/3 is not generated (the statement does not cover it; scryer fails silently)".into(),
            "cut / if-then-else spanning a shift are not generated in the handled goals".into(),
            "assertz/1, findall/3, member/2 are used to observe".into(),
        ]
    }
    fn run_shard(&self, cfg: &ShardCfg) -> ShardResult {
        let mut d = Driver::new(cfg, "C38");
        // development aid for sensitivity trials (never set by the registered commands): run one stream only
        let only = std::env::var("VERIF_C38_ONLY").unwrap_or_default();
        if only == "effects" {
            let n3 = cfg.share(cfg.tier.pick(4_000, 200_000));
            d.run("effects", 2, n3, 200, prog_strategy(), &mk_env, &check_effects);
            return d.finish();
        }
        let n1 = cfg.share(cfg.tier.pick(1_500, 75_000));
        d.run("tabling", 0, n1, 40, tcase_strategy(), &mk_env, &check_tabling);
        let n2 = cfg.share(cfg.tier.pick(64, 3_200));
        d.run("fib", 1, n2, 40, proptest::collection::vec(0u8..=30, 1..=4).prop_map(|ns| FibCase { ns }), &mk_env, &check_fib);
        let n3 = cfg.share(cfg.tier.pick(4_000, 200_000));
        d.run("effects", 2, n3, 200, prog_strategy(), &mk_env, &check_effects);
        d.finish()
    }
    fn replay(&self, kind: &str, case: &Value) -> Verdict {
        match kind {
            "tabling" => replay_case::<TCase, Env>(case, &mk_env, &check_tabling),
            "fib" => replay_case::<FibCase, Env>(case, &mk_env, &check_fib),
            _ => replay_case::<Prog, Env>(case, &mk_env, &check_effects),
        }
    }
}
