//! C25 — All-solutions predicates collect exactly the solutions.
//!
//! Generator goals are the queries of the C07 program generator (shared::proggen: finite, several
//! solutions, free variables, exceptions raised after k solutions, ...). Every query is wrapped
//! (nesting depth <= 3) in findall/3, findall/4 (unbound / partial / bound tails), bagof/3, setof/3
//! with ^ (V^G, V1^V2^G, (V1,V2)^G, [V1,V2]^G, also quantifying only some of the free variables, a
//! template variable, a variable foreign to the goal), forall/2, countall/2, call_nth/2 (N unbound,
//! positive, 0, negative, not an integer), with templates that share variables with the goal and
//! with the context, results that are unbound, partial lists, bound lists or not lists.
//!
//! Oracle: the reference interpreter (shared::refint) models these predicates from their
//! definitions (findall = copies in order; findall/4 = S ++ Tail; bagof = S grouped by witness,
//! fails for no solution; setof = each group sorted, duplicates removed; forall(C,A) = \+ (C, \+ A);
//! countall = |S|; call_nth numbers the solutions of S). Ordered answers (each up to renaming) and the
//! Formal of errors are compared.
//! Accepted freedom: the order in which bagof/3 and setof/3 enumerate their solution groups is not
//! fixed by the statement: when the ordered comparison fails for a query that contains bagof/setof,
//! the answers are compared as multisets. Queries for which the reference says Limit / Unsupported
//! (e.g. a witness or a setof element with unbound variables that would have to be ordered) are skipped.
//! After every case: a fixed findall/bagof battery on the same machine, and the lifted heap must be
//! back at its size before the case (cleanup after exceptions inside generators).
use crate::engine::*;
use crate::props::c07::{compare, load, LoadErr};
use crate::session::{Outcome, Session};
use crate::shared::choice::{stream, Src};
use crate::shared::proggen::*;
use crate::shared::refint::{ball_matches, Interp, Limits, Pred, RefOutcome};
use crate::term::{atom, cmp, int, list, nil, T};
use proptest::prelude::*;
use serde_json::{json, Value};
use std::sync::atomic::{AtomicU64, Ordering};

static Q_COMPARED: AtomicU64 = AtomicU64::new(0);
static Q_SKIPPED: AtomicU64 = AtomicU64::new(0);
static Q_ORDER_ONLY: AtomicU64 = AtomicU64::new(0);

// ---------------------------------------------------------------------------------------------
// wrapping

/// do not generate the shapes of the open known findings (known/C25.json)
const AVOID_KNOWN: bool = true;

fn transparent_cut(t: &T) -> bool {
    match t {
        T::Atom(a) => a == "!",
        T::Cmp(n, a) if a.len() == 2 && matches!(n.as_str(), "," | ";" | "->") => transparent_cut(&a[0]) || transparent_cut(&a[1]),
        _ => false,
    }
}

/// a countall/2 or call_nth/2 whose goal argument has a transparent cut
pub fn cut_in_counted_goal(goal: &T) -> bool {
    let mut bad = false;
    walk(goal, &mut |t| {
        if let T::Cmp(n, a) = t {
            if (n == "countall" || n == "call_nth") && a.len() == 2 && transparent_cut(&a[0]) {
                bad = true;
            }
        }
    });
    bad
}

struct W<'a> {
    src: Src<'a>,
    fresh: u32,
}

fn vars_of(t: &T) -> Vec<u32> {
    let mut v = vec![];
    t.vars(&mut v);
    v
}

impl<'a> W<'a> {
    fn fresh(&mut self) -> T {
        self.fresh += 1;
        T::Var(self.fresh - 1)
    }

    fn pick_var(&mut self, vs: &[u32]) -> T {
        if vs.is_empty() {
            self.fresh()
        } else {
            T::Var(vs[self.src.n(vs.len())])
        }
    }

    fn template(&mut self, vs: &[u32]) -> T {
        if vs.is_empty() {
            return if self.src.chance(50) { atom("k") } else { self.fresh() };
        }
        match self.src.weighted(&[30, 18, 14, 10, 8, 8, 6, 6]) {
            0 => self.pick_var(vs),
            1 => cmp("-", vec![self.pick_var(vs), self.pick_var(vs)]),
            2 => list(vs.iter().map(|v| T::Var(*v)).collect()),
            3 => cmp("t", vec![self.pick_var(vs), atom("k"), self.pick_var(vs)]),
            4 => atom("k"),
            5 => self.fresh(),
            6 => cmp("-", vec![self.pick_var(vs), self.fresh()]),
            _ => T::PList(vec![self.pick_var(vs)], Box::new(self.pick_var(vs))),
        }
    }

    fn result(&mut self) -> T {
        match self.src.weighted(&[84, 5, 3, 3, 3, 2]) {
            0 => self.fresh(),
            1 => T::PList(vec![self.fresh()], Box::new(self.fresh())),
            2 => nil(),
            3 => list(vec![self.fresh()]),
            4 => atom("foo"),
            _ => T::PList(vec![atom("a")], Box::new(atom("foo"))),
        }
    }

    fn tail(&mut self) -> T {
        match self.src.weighted(&[50, 15, 12, 12, 6, 5]) {
            0 => self.fresh(),
            1 => nil(),
            2 => list(vec![atom("x"), atom("y")]),
            3 => T::PList(vec![atom("x")], Box::new(self.fresh())),
            4 => atom("foo"),
            _ => int(3),
        }
    }

    fn caret(&mut self, goal: T, tvars: &[u32]) -> T {
        let free: Vec<u32> = vars_of(&goal).into_iter().filter(|v| !tvars.contains(v)).collect();
        let nest = |vs: &[u32], g: T| vs.iter().rev().fold(g, |acc, v| cmp("^", vec![T::Var(*v), acc]));
        // the last four forms (some of the free variables, a template variable, reverse order) are the
        // shape of the open finding `wrong-answers:caret-list-mismatch` (wrong answers, wrong errors,
        // cyclic terms and hangs): not generated while it is open; the witness replays have them
        let w: [u32; 9] = if AVOID_KNOWN { [50, 18, 7, 4, 3, 0, 0, 0, 0] } else { [50, 18, 7, 4, 3, 6, 4, 4, 4] };
        match self.src.weighted(&w) {
            0 => goal,
            // every free variable, in order of occurrence
            1 if !free.is_empty() => nest(&free, goal),
            2 if !free.is_empty() => cmp("^", vec![free.iter().skip(1).fold(T::Var(free[0]), |acc, v| cmp(",", vec![acc, T::Var(*v)])), goal]),
            3 if !free.is_empty() => cmp("^", vec![list(free.iter().map(|v| T::Var(*v)).collect()), goal]),
            // a variable that does not occur in the goal (and all the free ones)
            4 => {
                let q = self.fresh();
                cmp("^", vec![q, nest(&free, goal)])
            }
            // only some of the free variables
            5 if free.len() >= 2 => {
                let k = self.src.range(1, free.len() - 1);
                nest(&free[..k], goal)
            }
            6 if free.len() >= 2 => nest(&free[1..], goal),
            // a template variable as well
            7 if !tvars.is_empty() => {
                let mut vs = vec![tvars[self.src.n(tvars.len())]];
                vs.extend(free.iter());
                nest(&vs, goal)
            }
            // every free variable, in reverse order
            8 if free.len() >= 2 => {
                let r: Vec<u32> = free.iter().rev().cloned().collect();
                nest(&r, goal)
            }
            _ => goal,
        }
    }

    fn count_arg(&mut self, nth: bool) -> T {
        match self.src.weighted(&[55, 30, 5, 5, 5]) {
            0 => self.fresh(),
            1 => int(self.src.range(if nth { 1 } else { 0 }, 3) as i64),
            2 => int(0),
            3 => int(-1),
            _ => atom("a"),
        }
    }

    fn wrap(&mut self, base: T, depth: u32) -> T {
        let vs = vars_of(&base);
        let w = match self.src.weighted(&[22, 12, 20, 16, 6, 8, 8, 8]) {
            0 => T::Cmp("findall".into(), vec![self.template(&vs), base, self.result()]),
            1 => T::Cmp("findall".into(), vec![self.template(&vs), base, self.result(), self.tail()]),
            k @ (2 | 3) => {
                let t = self.template(&vs);
                let g = self.caret(base, &vars_of(&t));
                T::Cmp(if k == 2 { "bagof" } else { "setof" }.into(), vec![t, g, self.result()])
            }
            4 => {
                let v = self.pick_var(&vs);
                let test = match self.src.n(6) {
                    0 => atom("true"),
                    1 => atom("fail"),
                    2 => cmp("nonvar", vec![v]),
                    3 => cmp("integer", vec![v]),
                    4 => cmp("\\==", vec![v, atom("a")]),
                    _ => cmp("=", vec![v, atom("a")]),
                };
                T::Cmp("forall".into(), vec![base, test])
            }
            k => {
                // open finding `wrong-answers:cut-in-counted-goal`: a cut that is transparent in the goal
                // term cuts into countall/2 and call_nth/2 themselves; such goals are passed as call(G)
                let base = if AVOID_KNOWN && transparent_cut(&base) { cmp("call", vec![base]) } else { base };
                if k == 5 {
                    T::Cmp("countall".into(), vec![base, self.count_arg(false)])
                } else {
                    T::Cmp("call_nth".into(), vec![base, self.count_arg(true)])
                }
            }
        };
        // context goals that share variables with the template / the result
        let w = match self.src.weighted(&[70, 10, 10, 10]) {
            0 => w,
            1 => {
                let v = self.pick_var(&vars_of(&w));
                cmp(",", vec![cmp("=", vec![v, atom("c")]), w])
            }
            2 => {
                let v = self.pick_var(&vars_of(&w));
                cmp(",", vec![w, cmp("=", vec![v, atom("c")])])
            }
            _ => {
                let v = self.pick_var(&vars_of(&w));
                let z = self.fresh();
                cmp(",", vec![cmp("=", vec![v, cmp("f", vec![z])]), w])
            }
        };
        if depth < 3 && self.src.chance(38) {
            self.wrap(w, depth + 1)
        } else {
            w
        }
    }
}

/// a table of 2-8 (mostly ground) facts p90/3 over a small domain, with duplicates, and generator
/// goals over it: several witness groups, duplicates for setof, an exception at the k-th solution
fn table(w: &mut W) -> (Pred, Vec<T>) {
    let n = w.src.range(2, 8);
    let dom = |w: &mut W| -> T {
        match w.src.weighted(&[20, 20, 14, 14, 12, 8, 6, 6]) {
            0 => atom("a"),
            1 => atom("b"),
            2 => atom("c"),
            3 => int(1),
            4 => int(2),
            5 => cmp("f", vec![atom("a")]),
            6 => T::Str("ab".into()),
            _ => T::Var(0),
        }
    };
    let mut clauses = vec![];
    for _ in 0..n {
        let head = T::Cmp("p90".into(), vec![dom(w), dom(w), dom(w)]);
        clauses.push(crate::shared::refint::Clause { head, body: atom("true") });
        if w.src.chance(15) {
            clauses.push(clauses.last().unwrap().clone());
        }
    }
    let (x, y, z, u) = (T::Var(0), T::Var(1), T::Var(2), T::Var(3));
    let t = |a: &T, b: &T, c: &T| T::Cmp("p90".into(), vec![a.clone(), b.clone(), c.clone()]);
    let mut goals = vec![];
    for _ in 0..2 {
        let g = match w.src.weighted(&[30, 14, 12, 10, 12, 10, 6, 6]) {
            0 => t(&x, &y, &z),
            1 => t(&x, &atom(["a", "b", "c"][w.src.n(3)]), &z),
            2 => cmp(",", vec![t(&x, &y, &z), t(&u, &y, &T::Var(4))]),
            3 => cmp(",", vec![t(&x, &y, &z), cmp("\\==", vec![x.clone(), atom("a")])]),
            4 => cmp(",", vec![t(&x, &y, &z), cmp(";", vec![cmp("->", vec![cmp("==", vec![[x.clone(), y.clone(), z.clone()][w.src.n(3)].clone(), atom(["a", "b", "c"][w.src.n(3)])]), cmp("throw", vec![cmp("oops", vec![x.clone()])])]), atom("true")])]),
            5 => cmp(";", vec![t(&x, &y, &z), t(&z, &y, &x)]),
            6 => t(&x, &x, &z),
            _ => cmp(",", vec![t(&x, &y, &z), cmp("=", vec![u.clone(), cmp("g", vec![y.clone()])])]),
        };
        goals.push(g);
    }
    (Pred { name: "p90".into(), arity: 3, dynamic: false, clauses }, goals)
}

pub fn wrap_case(c: &GenCase, s: &[u16]) -> GenCase {
    let mut w = W { src: Src::new(s), fresh: 200 };
    let mut queries = vec![];
    let (tab, tgoals) = table(&mut w);
    let mut prog = c.prog.clone();
    prog.preds.push(tab);
    for g in tgoals {
        let n = 1 + w.src.n(2);
        for _ in 0..n {
            let goal = w.wrap(g.clone(), 1);
            let template = list(vars_of(&goal).into_iter().map(T::Var).collect());
            let qq = Query { goal, template };
            if !queries.contains(&qq) {
                queries.push(qq);
            }
        }
    }
    for q in &c.queries {
        let n = 1 + w.src.n(2);
        for _ in 0..n {
            let goal = w.wrap(q.goal.clone(), 1);
            let template = list(vars_of(&goal).into_iter().map(T::Var).collect());
            let qq = Query { goal, template };
            if !queries.contains(&qq) {
                queries.push(qq);
            }
        }
    }
    GenCase { prog, queries }
}

pub fn case_strategy25() -> BoxedStrategy<GenCase> {
    let cfg = GenCfg { max_queries: 3, ..GenCfg::default() };
    (case_strategy(cfg), stream(160)).prop_map(|(c, s)| wrap_case(&c, &s)).boxed()
}

// ---------------------------------------------------------------------------------------------
// shapes

fn walk(t: &T, f: &mut dyn FnMut(&T)) {
    f(t);
    match t {
        T::Cmp(_, a) => a.iter().for_each(|x| walk(x, f)),
        T::PList(i, tl) => {
            i.iter().for_each(|x| walk(x, f));
            walk(tl, f)
        }
        _ => {}
    }
}

/// Known finding: builtins:findall_with_existential/5 computes the witness of bagof/setof with
/// `append(Witnesses0, Witnesses, ExistentialVars)`: that is only right when the goal's variables
/// outside the template are exactly the ^-quantified variables, in the same order.
pub fn caret_list_mismatch(goal: &T) -> bool {
    let mut bad = false;
    walk(goal, &mut |t| {
        if let T::Cmp(n, a) = t {
            if (n == "bagof" || n == "setof") && a.len() == 3 && matches!(&a[1], T::Cmp(c, ca) if c == "^" && ca.len() == 2) {
                let tv = vars_of(&a[0]);
                let w0: Vec<u32> = vars_of(&a[1]).into_iter().filter(|v| !tv.contains(v)).collect();
                let mut ev = vec![];
                let mut g = &a[1];
                while let T::Cmp(c, ca) = g {
                    if c == "^" && ca.len() == 2 {
                        ca[0].vars(&mut ev);
                        g = &ca[1];
                    } else {
                        break;
                    }
                }
                if w0 != ev {
                    bad = true;
                }
            }
        }
    });
    bad
}

fn kinds(goal: &T) -> (Vec<&'static str>, usize) {
    let mut ks: Vec<&'static str> = vec![];
    fn depth(t: &T) -> usize {
        match t {
            T::Cmp(n, a) => {
                let here = matches!((n.as_str(), a.len()), ("findall", 3) | ("findall", 4) | ("bagof", 3) | ("setof", 3) | ("forall", 2) | ("countall", 2) | ("call_nth", 2)) as usize;
                here + a.iter().map(depth).max().unwrap_or(0)
            }
            _ => 0,
        }
    }
    walk(goal, &mut |t| {
        if let T::Cmp(n, a) = t {
            let k = match (n.as_str(), a.len()) {
                ("findall", 3) => "findall/3",
                ("findall", 4) => "findall/4",
                ("bagof", 3) => "bagof/3",
                ("setof", 3) => "setof/3",
                ("forall", 2) => "forall/2",
                ("countall", 2) => "countall/2",
                ("call_nth", 2) => "call_nth/2",
                ("^", 2) => "^/2",
                _ => "",
            };
            if !k.is_empty() && !ks.contains(&k) {
                ks.push(k);
            }
        }
    });
    (ks, depth(goal))
}

// ---------------------------------------------------------------------------------------------

pub struct Env {
    pub s: Session,
    pub n: u64,
}

pub fn mk_env() -> Env {
    Env { s: Session::new(&[]), n: 0 }
}

pub fn ref_limits() -> Limits {
    Limits { max_steps: 60_000, max_solutions: 300, max_term_nodes: 3_000 }
}

fn multiset_equal(e: &[T], o: &[T]) -> bool {
    if e.len() != o.len() {
        return false;
    }
    let mut used = vec![false; o.len()];
    'outer: for x in e {
        for (i, y) in o.iter().enumerate() {
            if !used[i] && (x.eq_struct(y) || ball_matches(x, y)) {
                used[i] = true;
                continue 'outer;
            }
        }
        return false;
    }
    true
}

fn battery(env: &mut Env, lifted_before: usize) -> Result<(), Verdict> {
    let bad = |what: &str, o: &Outcome| match o {
        Outcome::Panic(m) => Verdict::fail(format!("panic:{}", m.split_whitespace().next().unwrap_or("?")), format!("follow-up battery: {what} panicked: {m}")),
        Outcome::Harness(m) => Verdict::Discard(format!("harness:{}", m.chars().take(40).collect::<String>())),
        _ => Verdict::fail(format!("battery:{what}"), format!("follow-up battery on the same machine: {what} gave {}", o.short())),
    };
    let lifted = env.s.machine.verif_footprint().lifted_heap_cells;
    if lifted != lifted_before {
        return Err(Verdict::fail("lifted-heap:not-restored", format!("the lifted heap holds {lifted} cells after the case, {lifted_before} before it")));
    }
    let o = env.s.ask("findall(X-Y, (member(X, [1,2,3]), member(Y, [a,b])), L)", "L");
    let want = list([1, 2, 3].iter().flat_map(|i| ["a", "b"].iter().map(move |a| cmp("-", vec![int(*i as i64), atom(a)]))).collect());
    if !matches!(&o, Outcome::Sols(v) if v.len() == 1 && v[0].eq_struct(&want)) {
        return Err(bad("findall", &o));
    }
    let o = env.s.ask("catch(findall(X, (member(X, [1,2,3]), (X >= 2 -> throw(stop) ; true)), _), stop, true), bagof(X-Y, member(X-Y, [1-a, 2-b, 3-a]), L)", "L");
    let want = list(vec![cmp("-", vec![int(1), atom("a")]), cmp("-", vec![int(2), atom("b")]), cmp("-", vec![int(3), atom("a")])]);
    if !matches!(&o, Outcome::Sols(v) if v.len() == 1 && v[0].eq_struct(&want)) {
        return Err(bad("bagof-after-exception", &o));
    }
    Ok(())
}

pub fn check(env: &mut Env, case: &GenCase) -> Verdict {
    let prefix = format!("d{}x_", env.n);
    env.n += 1;
    let c = rename_case(case, &prefix);
    let text = render_program(&c.prog);
    match load(&mut env.s, &text, &format!("d{}", env.n)) {
        Ok(()) => {}
        Err(LoadErr::Panic(m)) => return Verdict::fail(format!("panic:{}", m.split_whitespace().next().unwrap_or("?")), format!("consult panicked: {m}\n{text}")),
        Err(LoadErr::Rejected(m)) => return Verdict::fail("load-rejected:", format!("valid program text was not loaded ({m})\n{text}")),
    }
    let lifted_before = env.s.machine.verif_footprint().lifted_heap_cells;
    let mut interp = Interp::new(&c.prog);
    let lim = ref_limits();
    let mut compared = 0;
    let mut classes: Vec<String> = vec![];
    let add = |classes: &mut Vec<String>, s: String| {
        if !classes.contains(&s) {
            classes.push(s);
        }
    };
    let mut nontrivial = false;
    for q in &c.queries {
        let expected = interp.solve(&q.goal, &q.template, &lim);
        if matches!(expected, RefOutcome::Limit | RefOutcome::Unsupported(_)) {
            Q_SKIPPED.fetch_add(1, Ordering::Relaxed);
            continue;
        }
        let goal = goal_text(&q.goal);
        let got = env.s.ask(&goal, &q.template.text());
        if let Outcome::Harness(m) = &got {
            // the transport is itself a findall/3 around the query: when its result list holds things
            // that are not the encodings it collected, an inner all-solutions call has left its own
            // solutions on the lifted heap (they end up in the enclosing findall's result)
            if m.contains("not a tagged term") || m.contains("arg not a list") {
                return Verdict::fail("enclosing-findall-corrupted:transport", format!("?- {goal}.  the findall/3 of the transport around this query returned elements it never collected ({m})\nreference: {}\nprogram:\n{text}", expected.short()));
            }
            return Verdict::Discard(format!("harness:{}", m.chars().take(40).collect::<String>()));
        }
        compared += 1;
        Q_COMPARED.fetch_add(1, Ordering::Relaxed);
        let (ks, depth) = kinds(&q.goal);
        if let Some((sig, detail)) = compare(&expected, &got) {
            // the order of the solution groups of bagof/setof is free
            let groups_reordered = match (&expected, &got) {
                (RefOutcome::Sols(e), Outcome::Sols(o)) => (ks.contains(&"bagof/3") || ks.contains(&"setof/3")) && multiset_equal(e, o),
                _ => false,
            };
            if groups_reordered {
                Q_ORDER_ONLY.fetch_add(1, Ordering::Relaxed);
                add(&mut classes, "answers-equal-as-multiset-only".into());
            } else {
                let mut sig = sig;
                if caret_list_mismatch(&q.goal) && !sig.starts_with("panic") {
                    // one signature for the known finding, whatever the wrong outcome looks like
                    sig = "wrong-answers:caret-list-mismatch".into();
                } else if cut_in_counted_goal(&q.goal) && !sig.starts_with("panic") {
                    sig = "wrong-answers:cut-in-counted-goal".into();
                } else {
                    let shapes: Vec<&str> = known_shapes(&c.prog).into_iter().collect();
                    if !shapes.is_empty() && !sig.starts_with("panic") {
                        sig = format!("{sig}+{}", shapes.join("+"));
                    }
                }
                return Verdict::fail(sig, format!("?- {goal}.  {detail}\nreference: {}\nscryer:    {}\nprogram:\n{text}", expected.short(), got.short()));
            }
        }
        for k in &ks {
            add(&mut classes, k.to_string());
        }
        add(&mut classes, format!("nesting-depth:{}", depth.min(4)));
        match &expected {
            RefOutcome::Ex(_) => add(&mut classes, "query:error".into()),
            RefOutcome::Sols(v) => add(&mut classes, match v.len() {
                0 => "query:fails".into(),
                1 => "query:1-answer".into(),
                _ => "query:>=2-answers".into(),
            }),
            _ => {}
        }
        if interp.bag_groups_max >= 2 {
            add(&mut classes, "witness-groups>=2".into());
        }
        if interp.findall_abandoned_nonempty {
            add(&mut classes, "exception-after>=1-collected-solution".into());
        }
        if interp.bag_groups_max >= 2 || depth >= 2 || interp.findall_abandoned_nonempty {
            nontrivial = true;
        }
    }
    if compared == 0 {
        return Verdict::Discard("no-decidable-query".into());
    }
    if let Err(v) = battery(env, lifted_before) {
        return match v {
            Verdict::Fail { signature, detail } => Verdict::fail(signature, format!("{detail}\nafter the queries {:?}\nprogram:\n{text}", c.queries.iter().map(|q| goal_text(&q.goal)).collect::<Vec<_>>())),
            other => other,
        };
    }
    let cl: Vec<&str> = classes.iter().map(|s| s.as_str()).collect();
    Verdict::pass(nontrivial, &cl)
}

pub struct C25;

impl Prop for C25 {
    fn id(&self) -> &'static str {
        "C25"
    }
    fn rule(&self) -> &'static str {
        "programs and queries of the C07 generator; every query wrapped 1-2 times (nesting <= 3) in findall/3, findall/4 (unbound / partial / bound / non-list tails), bagof/3, setof/3 with ^ (V^G, V1^V2^G, (V1,V2)^G, [V1,V2]^G; all, some, reversed, template or foreign variables), forall/2, countall/2, call_nth/2 (N unbound, positive, 0, negative, atom), templates sharing variables with goal and context, results unbound / partial / bound / not lists; ordered answers and error Formals compared with the reference interpreter's models of these predicates (group order of bagof/setof free: multiset comparison as fallback); after each case a findall/bagof battery and the lifted heap back at its previous size; non-trivial = a bagof/setof with >= 2 witness groups, nesting depth >= 2, or an exception after >= 1 collected solution; distinct by case encoding"
    }
    fn assumptions(&self) -> Vec<String> {
        vec![
            "the reference interpreter shared/refint.rs incl. its models of findall/4, bagof/3, setof/3, ^/2, countall/2, call_nth/2, forall/2 (unit-tested: refint_all_solutions, refint_findall)".into(),
            "the transport (vp_run: findall/3 + vp_enc of support.pl) reports scryer's answers faithfully -- the outermost findall/3 of the transport is itself part of what is under test".into(),
        ]
    }
    fn run_shard(&self, cfg: &ShardCfg) -> ShardResult {
        let mut d = Driver::new(cfg, "C25");
        let n = cfg.share(cfg.tier.pick(10_000, 500_000));
        d.run("program", 0, n, 200, case_strategy25(), &mk_env, &check);
        d.res.extra.insert("queries_compared".into(), json!(Q_COMPARED.load(Ordering::Relaxed)));
        d.res.extra.insert("queries_skipped_reference_limit_or_unsupported".into(), json!(Q_SKIPPED.load(Ordering::Relaxed)));
        d.res.extra.insert("queries_equal_as_multiset_only".into(), json!(Q_ORDER_ONLY.load(Ordering::Relaxed)));
        d.finish()
    }
    fn replay(&self, _kind: &str, case: &Value) -> Verdict {
        replay_case::<GenCase, Env>(case, &mk_env, &check)
    }
    fn case_timeout_s(&self, _tier: Tier) -> u64 {
        30
    }
    fn classify_stuck(&self, _kind: &str, case: &Value, base: &str) -> String {
        match serde_json::from_value::<GenCase>(case.clone()) {
            Ok(c) if base == "hang" && c.queries.iter().any(|q| caret_list_mismatch(&q.goal)) => "hang:caret-list-mismatch".into(),
            _ => base.to_string(),
        }
    }
    /// triage: `vcheck child C25 mkcase file.json` with {"text": program over p0..pN, "queries": [goal, ..]}
    /// runs the check and prints a replay file; other modes: prints per query reference / scryer
    fn child(&self, mode: &str, input: &Value) -> i32 {
        let case: GenCase = if input.get("text").is_some() {
            let prog = crate::shared::refint::Program::from_text(input["text"].as_str().unwrap_or("")).expect("program text");
            let mut queries = vec![];
            for q in input["queries"].as_array().cloned().unwrap_or_default() {
                let goal = crate::shared::plparse::parse_term(q.as_str().unwrap()).expect("query text");
                let template = list(vars_of(&goal).into_iter().map(T::Var).collect());
                queries.push(Query { goal, template });
            }
            GenCase { prog, queries }
        } else {
            let cv = if input.get("case").is_some() { input["case"].clone() } else { input.clone() };
            serde_json::from_value(cv).expect("case")
        };
        if mode == "mkcase" {
            let (sig, detail) = match check(&mut mk_env(), &case) {
                Verdict::Fail { signature, detail } => (signature, detail),
                Verdict::Pass { .. } => ("pass".into(), String::new()),
                Verdict::Discard(w) => (format!("discard {w}"), String::new()),
            };
            println!("{}", serde_json::to_string_pretty(&json!({"property": "C25", "kind": "program", "signature": sig, "detail": detail, "case": case})).unwrap());
            return 0;
        }
        let c = rename_case(&case, "k_");
        let text = render_program(&c.prog);
        println!("{text}");
        let mut s = Session::new(&[]);
        if load(&mut s, &text, "dbg").is_err() {
            println!("load failed");
            return 1;
        }
        let mut it = Interp::new(&c.prog);
        for q in &c.queries {
            let g = goal_text(&q.goal);
            println!("?- {g}.");
            println!("   reference: {}", it.solve(&q.goal, &q.template, &ref_limits()).short());
            println!("   scryer:    {}", s.ask(&g, &q.template.text()).short());
        }
        0
    }
}
