//! C35 — Reloading a program is idempotent.
//!
//! A case is a generated, error-free program text (static, dynamic, discontiguous and multifile
//! predicates of arity 1 over a pool of constants — atoms, small and big integers, floats,
//! strings, compounds, lists —, rules that call earlier predicates, `:- dynamic`,
//! `:- discontiguous`, `:- multifile`, `:- op/3` with a clause using the operator,
//! `:- initialization(true)`, `:- use_module(library(lists))`), a load API
//! (load_module_string / consult_module_string / consult/1 of a scratch file) and a number of
//! loads k >= 2 of the SAME text.
//!
//! Oracle: (1) after every load, every predicate's solution sequence equals the one computed by
//! a small evaluator over the program (clauses in text order, goals left to right), hence equal
//! after load #1 and load #k; (2) the machine footprint measured after load #2, #3, ... #k
//! (each followed by the same queries) is identical in: heap cells, stack top, trail, choice
//! point and catch-block registers, load-context stack, inactive load states, atom count,
//! operator directory, code directory, pending cleanup/ball/inference-limit stacks. Load #1 vs
//! #2 may differ by one-time interning, so the comparison starts at #2. The code area and the
//! float table are reported (growth per reload) but not part of the statement.

use crate::engine::*;
use crate::gen::pick;
use crate::session::{Outcome, Session};
use crate::term::{atom, cmp, int, list, T};
use dashu::integer::IBig;
use proptest::prelude::*;
use serde::{Deserialize, Serialize};
use serde_json::Value;

pub struct C35;

#[derive(Clone, Copy, Debug, Serialize, Deserialize, PartialEq)]
pub enum Kind {
    Static,
    Dynamic,
    Discontiguous,
    Multifile,
    /// dynamic and discontiguous
    DynDisc,
}

#[derive(Clone, Debug, Serialize, Deserialize, PartialEq)]
pub enum Goal {
    /// call of an earlier predicate (index into the predicate list, taken modulo the own index) on the clause variable
    Call(u8),
    /// X = constant (index into the pool)
    Eq(u16),
    True,
}

#[derive(Clone, Debug, Serialize, Deserialize, PartialEq)]
pub struct Clause {
    /// None = the head argument is the variable X
    pub head: Option<u16>,
    pub body: Vec<Goal>,
}

#[derive(Clone, Debug, Serialize, Deserialize, PartialEq)]
pub struct Pred {
    pub kind: Kind,
    pub clauses: Vec<Clause>,
}

#[derive(Clone, Debug, Serialize, Deserialize, PartialEq)]
pub struct Prog {
    pub preds: Vec<Pred>,
    pub op_decl: bool,
    pub init: bool,
    pub use_lists: bool,
    /// seed of the layout (order of declarations and clause segments)
    pub layout: u64,
    /// 0 load_module_string, 1 consult_module_string, 2 consult/1 of a file
    pub api: u8,
    pub loads: u8,
}

fn pool() -> Vec<T> {
    vec![
        atom("a"),
        atom("b"),
        atom("hello world"),
        atom("[]"),
        int(0),
        int(1),
        int(-7),
        // no integers beyond the small-integer range: clause indexing keys bignum constants by
        // pointer (finding of C06), which would make every program that calls a predicate with a
        // bignum first argument fail here for a reason that has nothing to do with reloading
        T::Int(IBig::from(1u8) << 50),
        T::Int(-(IBig::from(1u8) << 40) - IBig::from(3u8)),
        T::Float(1.5),
        T::Float(-2.5),
        T::Float(1.0e100),
        T::Str("str".into()),
        T::Str("a longer string with spaces".into()),
        cmp("f", vec![atom("a")]),
        cmp("g", vec![T::Str("s".into()), T::Float(2.5), list(vec![int(1), int(2)])]),
        list(vec![atom("a"), atom("b")]),
        cmp("-", vec![int(1), atom("x")]),
    ]
}

fn cst(i: u16) -> T {
    pick(&pool(), i)
}

fn name(i: usize, k: Kind) -> String {
    let l = match k {
        Kind::Static => "s",
        Kind::Dynamic => "d",
        Kind::Discontiguous => "q",
        Kind::Multifile => "m",
        Kind::DynDisc => "e",
    };
    format!("c35{l}{i}")
}

fn mix(seed: u64, i: u64) -> u64 {
    let mut x = seed ^ i.wrapping_mul(0x9E3779B97F4A7C15);
    x ^= x >> 30;
    x = x.wrapping_mul(0xBF58476D1CE4E5B9);
    x ^= x >> 27;
    x = x.wrapping_mul(0x94D049BB133111EB);
    x ^ (x >> 31)
}

impl Prog {
    /// callee of `Goal::Call(j)` in predicate i: an earlier predicate that is defined
    /// (dynamic, or with at least one clause); None = no such predicate (goal becomes true)
    fn callee(&self, i: usize, j: u8) -> Option<usize> {
        let cands: Vec<usize> = (0..i).filter(|k| !self.preds[*k].clauses.is_empty() || matches!(self.preds[*k].kind, Kind::Dynamic | Kind::DynDisc)).collect();
        if cands.is_empty() {
            None
        } else {
            Some(cands[j as usize % cands.len()])
        }
    }

    fn defined(&self, i: usize) -> bool {
        !self.preds[i].clauses.is_empty() || matches!(self.preds[i].kind, Kind::Dynamic | Kind::DynDisc)
    }

    fn clause_text(&self, i: usize, c: &Clause) -> String {
        let p = &self.preds[i];
        let head_arg = match c.head {
            Some(k) => cst(k).text(),
            None => "X".to_string(),
        };
        let mut goals = vec![];
        for g in &c.body {
            match g {
                Goal::Call(j) => match self.callee(i, *j) {
                    Some(k) => goals.push(format!("{}({})", name(k, self.preds[k].kind), head_arg)),
                    None => goals.push("true".to_string()),
                },
                Goal::Eq(k) => goals.push(format!("{} = {}", head_arg, cst(*k).text())),
                Goal::True => goals.push("true".to_string()),
            }
        }
        let h = format!("{}({})", name(i, p.kind), head_arg);
        if goals.is_empty() {
            format!("{h}.")
        } else {
            format!("{h} :- {}.", goals.join(", "))
        }
    }

    pub fn text(&self) -> String {
        let mut decls: Vec<String> = vec![];
        if self.use_lists {
            decls.push(":- use_module(library(lists)).".into());
        }
        if self.op_decl {
            decls.push(":- op(700, xfx, ===>).".into());
        }
        if self.init {
            decls.push(":- initialization(true).".into());
        }
        for (i, p) in self.preds.iter().enumerate() {
            let n = name(i, p.kind);
            match p.kind {
                Kind::Static => {}
                Kind::Dynamic => decls.push(format!(":- dynamic({n}/1).")),
                Kind::Discontiguous => decls.push(format!(":- discontiguous({n}/1).")),
                Kind::Multifile => decls.push(format!(":- multifile({n}/1).")),
                Kind::DynDisc => {
                    decls.push(format!(":- dynamic({n}/1)."));
                    decls.push(format!(":- discontiguous({n}/1)."));
                }
            }
        }
        // declarations keep "dynamic before discontiguous of the same predicate" by a stable sort on a
        // key that is equal for both lines of one predicate
        let mut keyed: Vec<(u64, usize, String)> = decls
            .into_iter()
            .enumerate()
            .map(|(i, d)| {
                let key_src = d.split('(').nth(1).unwrap_or("").to_string();
                (mix(self.layout, crate::engine::fnv64(key_src.as_bytes())), i, d)
            })
            .collect();
        keyed.sort();
        // clause segments: one per predicate, except discontiguous ones (one per clause)
        let mut segs: Vec<(u64, usize, String)> = vec![];
        for (i, p) in self.preds.iter().enumerate() {
            let split = matches!(p.kind, Kind::Discontiguous | Kind::DynDisc);
            if split {
                for (ci, c) in p.clauses.iter().enumerate() {
                    // clauses of one predicate keep their relative order: key grows with ci
                    let base = mix(self.layout, 1000 + i as u64) % 1000;
                    segs.push((base * 100 + ci as u64 * (1 + mix(self.layout, 77 + i as u64) % 37), segs.len(), self.clause_text(i, c)));
                }
            } else if !p.clauses.is_empty() {
                let txt = p.clauses.iter().map(|c| self.clause_text(i, c)).collect::<Vec<_>>().join("\n");
                segs.push(((mix(self.layout, 2000 + i as u64) % 1000) * 100, segs.len(), txt));
            }
        }
        if self.op_decl {
            segs.push(((mix(self.layout, 3000) % 1000) * 100, segs.len(), "c35op(a ===> b).\nc35op(X) :- X = (1 ===> \"two\").".into()));
        }
        segs.sort();
        let mut out = String::new();
        for (_, _, d) in keyed {
            out.push_str(&d);
            out.push('\n');
        }
        for (_, _, s) in segs {
            out.push_str(&s);
            out.push('\n');
        }
        out
    }

    /// solution sequence of predicate i (None = unbound answer)
    fn solutions(&self, i: usize, memo: &mut Vec<Option<Vec<Option<T>>>>) -> Vec<Option<T>> {
        if let Some(v) = &memo[i] {
            return v.clone();
        }
        let mut out = vec![];
        for c in &self.preds[i].clauses {
            let mut cur: Vec<Option<T>> = vec![c.head.map(cst)];
            for g in &c.body {
                let mut next = vec![];
                match g {
                    Goal::True => next = cur,
                    Goal::Eq(k) => {
                        let v = cst(*k);
                        for b in cur {
                            match b {
                                None => next.push(Some(v.clone())),
                                Some(x) => {
                                    if unifiable(&x, &v) {
                                        next.push(Some(x))
                                    }
                                }
                            }
                        }
                    }
                    Goal::Call(j) => match self.callee(i, *j) {
                        None => next = cur,
                        Some(k) => {
                            let sols = self.solutions(k, memo);
                            for b in cur {
                                for s in &sols {
                                    match (&b, s) {
                                        (None, s) => next.push(s.clone()),
                                        (Some(x), None) => next.push(Some(x.clone())),
                                        (Some(x), Some(y)) => {
                                            if unifiable(x, y) {
                                                next.push(Some(x.clone()))
                                            }
                                        }
                                    }
                                }
                            }
                        }
                    },
                }
                cur = next;
            }
            out.extend(cur);
        }
        memo[i] = Some(out.clone());
        out
    }
}

/// ground constants unify iff they are the same term (floats by bits, strings = char lists)
fn unifiable(a: &T, b: &T) -> bool {
    fn key(t: &T) -> String {
        fn bits(t: &T) -> T {
            match t {
                T::Float(f) => T::Atom(format!("$float{:016x}", f.to_bits())),
                T::PList(i, t) => T::PList(i.iter().map(bits).collect(), Box::new(bits(t))),
                T::Cmp(n, a) => T::Cmp(n.clone(), a.iter().map(bits).collect()),
                o => o.clone(),
            }
        }
        bits(&t.norm()).text()
    }
    key(a) == key(b)
}

// ---------------------------------------------------------------------------------------------
// generator

fn clause_strategy() -> BoxedStrategy<Clause> {
    let goal = prop_oneof![3 => any::<u8>().prop_map(Goal::Call), 2 => any::<u16>().prop_map(Goal::Eq), 1 => Just(Goal::True)];
    (proptest::option::weighted(0.7, any::<u16>()), proptest::collection::vec(goal, 0..=2)).prop_map(|(head, body)| Clause { head, body }).boxed()
}

fn pred_strategy() -> BoxedStrategy<Pred> {
    let kind = prop_oneof![4 => Just(Kind::Static), 3 => Just(Kind::Dynamic), 2 => Just(Kind::Discontiguous), 1 => Just(Kind::Multifile), 1 => Just(Kind::DynDisc)];
    (kind, proptest::collection::vec(clause_strategy(), 0..=4))
        .prop_map(|(kind, mut clauses)| {
            if clauses.is_empty() && !matches!(kind, Kind::Dynamic | Kind::DynDisc) {
                clauses.push(Clause { head: Some(0), body: vec![] });
            }
            Pred { kind, clauses }
        })
        .boxed()
}

pub fn prog_strategy(max_loads: u8) -> BoxedStrategy<Prog> {
    (proptest::collection::vec(pred_strategy(), 1..=6), any::<bool>(), any::<bool>(), any::<bool>(), any::<u64>(), 0u8..3, 2u8..=max_loads)
        .prop_map(|(preds, op_decl, init, use_lists, layout, api, loads)| Prog { preds, op_decl, init, use_lists, layout, api, loads })
        .boxed()
}

// ---------------------------------------------------------------------------------------------
// check

pub struct Env {
    dir: std::path::PathBuf,
}

impl Drop for Env {
    fn drop(&mut self) {
        let _ = std::fs::remove_dir_all(&self.dir);
    }
}

pub fn mk_env() -> Env {
    // one directory per environment: the driver creates the next environment before it drops the old one
    static SEQ: std::sync::atomic::AtomicU64 = std::sync::atomic::AtomicU64::new(0);
    let seq = SEQ.fetch_add(1, std::sync::atomic::Ordering::SeqCst);
    let dir = std::path::Path::new(&verif_dir()).join("scratch").join(format!("c35-{}-{seq}", std::process::id()));
    std::fs::create_dir_all(&dir).ok();
    Env { dir }
}

fn strict_footprint(s: &Session) -> String {
    let f = s.machine.verif_footprint();
    format!(
        "heap={} stack_top={} trail_len={} tr={} b={} block={} load_contexts={} atoms={} op_dir={} code_dir={} lifted_heap={} cont_pts={} ball_stack={} ball_cells={} attr_queues={:?} cwil={}",
        f.heap_cells, f.stack_top, f.trail_len, f.tr, f.b, f.block, f.load_contexts, f.atom_count, f.op_dir_len, f.code_dir_len, f.lifted_heap_cells, f.cont_pts, f.ball_stack, f.ball_cells, f.attr_var_queues, f.cwil_depth
    )
}

fn load(env: &Env, s: &mut Session, api: u8, text: &str, case_id: u64) -> Result<(), Verdict> {
    let r = std::panic::catch_unwind(std::panic::AssertUnwindSafe(|| match api % 3 {
        0 => {
            s.machine.load_module_string("user", text.to_string());
            None
        }
        1 => {
            s.machine.consult_module_string("user", text.to_string());
            None
        }
        _ => {
            let path = env.dir.join(format!("p{case_id:016x}.pl"));
            std::fs::write(&path, text).expect("write scratch program");
            let o = s.ask(&format!("consult('{}')", path.display()), "[]");
            Some(o)
        }
    }));
    match r {
        Err(_) => {
            let p = crate::session::take_last_panic();
            Err(Verdict::fail(format!("panic:{}", p.split_whitespace().next().unwrap_or("?")), format!("loading panicked: {p}")))
        }
        Ok(Some(o)) => match o {
            Outcome::Sols(v) if v.len() == 1 => Ok(()),
            Outcome::Panic(p) => Err(Verdict::fail(format!("panic:{}", p.split_whitespace().next().unwrap_or("?")), format!("consult/1 panicked: {p}"))),
            other => Err(Verdict::fail("load-failed:consult", format!("consult/1 of an error-free program gave {}", other.short()))),
        },
        Ok(None) => Ok(()),
    }
}

pub fn check(env: &mut Env, p: &Prog) -> Verdict {
    let text = p.text();
    let case_id = fnv64(text.as_bytes()) ^ p.api as u64;
    let mut s = Session::new(&[]);
    let mut memo = vec![None; p.preds.len()];
    let mut expected: Vec<(String, Vec<Option<T>>)> = vec![];
    for i in 0..p.preds.len() {
        if p.defined(i) {
            expected.push((name(i, p.preds[i].kind), p.solutions(i, &mut memo)));
        }
    }
    let api_name = ["load_module_string", "consult_module_string", "consult/1"][(p.api % 3) as usize];
    let mut fp2: Option<String> = None;
    let mut ils: Vec<usize> = vec![];
    let mut tolerated: Vec<String> = vec![];
    let mut secondary: Vec<(usize, usize)> = vec![];
    for l in 1..=p.loads {
        if let Err(v) = load(env, &mut s, p.api, &text, case_id) {
            return v;
        }
        // answers
        for (n, exp) in &expected {
            let o = s.ask(&format!("{n}(X)"), "X");
            let ok = match &o {
                Outcome::Sols(v) => {
                    v.len() == exp.len()
                        && v.iter().zip(exp.iter()).all(|(g, e)| match e {
                            None => matches!(g, T::Var(_)),
                            Some(t) => unifiable(g, t) && g.is_ground(),
                        })
                }
                _ => false,
            };
            if !ok {
                if let Outcome::Panic(pn) = &o {
                    return Verdict::fail(format!("panic:{}", pn.split_whitespace().next().unwrap_or("?")), format!("after load #{l} via {api_name}: {n}(X) panicked: {pn}\nprogram:\n{text}"));
                }
                let kind = p.preds.iter().enumerate().find(|(i, q)| &name(*i, q.kind) == n).map(|(_, q)| format!("{:?}", q.kind)).unwrap_or_default();
                return Verdict::fail(
                    format!("answers-differ:{}:{kind}:{api_name}", if l == 1 { "first-load" } else { "reload" }),
                    format!("after load #{l} via {api_name}: {n}(X) gives {} but the program defines {:?}\nprogram:\n{text}", o.short(), exp.iter().map(|e| e.as_ref().map(|t| t.text()).unwrap_or("_".into())).collect::<Vec<_>>()),
                );
            }
        }
        if p.op_decl {
            let o = s.ask("c35op(X)", "X");
            let want = vec![cmp("===>", vec![atom("a"), atom("b")]), cmp("===>", vec![int(1), T::Str("two".into())])];
            let ok = matches!(&o, Outcome::Sols(v) if v.len() == 2 && v.iter().zip(want.iter()).all(|(g, e)| unifiable(g, e)));
            if !ok {
                return Verdict::fail(format!("answers-differ:{}:op-clause:{api_name}", if l == 1 { "first-load" } else { "reload" }), format!("after load #{l} via {api_name}: c35op(X) gives {}\nprogram:\n{text}", o.short()));
            }
            let o = s.ask("findall(P-T, current_op(P, T, ===>), L)", "L");
            let want = list(vec![cmp("-", vec![int(700), atom("xfx")])]);
            if !matches!(&o, Outcome::Sols(v) if v.len() == 1 && unifiable(&v[0], &want)) {
                return Verdict::fail(format!("op-table:{}:{api_name}", if l == 1 { "first-load" } else { "reload" }), format!("after load #{l} via {api_name}: current_op(P,T,===>) gives {}\nprogram:\n{text}", o.short()));
            }
        }
        // footprint
        let f = s.machine.verif_footprint();
        secondary.push((f.code_len, f.f64_entries));
        let fp = strict_footprint(&s);
        ils.push(f.inactive_load_states);
        if l > 2 && f.inactive_load_states != ils[1] {
            // checked after the other fields below; an open known finding with exactly this signature
            // is tolerated here (and counted as a class) so that the rest of the oracle keeps running
            let sig = format!("footprint-grows:inactive_load_states:{api_name}");
            if is_known_open(&sig) {
                tolerated.push(format!("tolerated-known:{sig}"));
            } else if fp2.as_ref() == Some(&fp) {
                return Verdict::fail(sig, format!("inactive load states in the arena after loads #1.. via {api_name}: {:?} (must stay at the value reached after load #2)\nprogram:\n{text}", ils));
            }
        }
        if l == 2 {
            fp2 = Some(fp);
        } else if l > 2 {
            let base = fp2.as_ref().unwrap();
            if &fp != base {
                let diff: Vec<String> = base.split(' ').zip(fp.split(' ')).filter(|(a, b)| a != b).map(|(a, b)| format!("{a} -> {b}")).collect();
                let field = diff.first().map(|d| d.split('=').next().unwrap_or("?").to_string()).unwrap_or_default();
                return Verdict::fail(format!("footprint-grows:{field}:{api_name}"), format!("footprint after load #2 vs after load #{l} via {api_name}: {}\nprogram:\n{text}", diff.join(", ")));
            }
        }
    }
    if p.api % 3 == 2 {
        let _ = std::fs::remove_file(env.dir.join(format!("p{case_id:016x}.pl")));
    }
    let has_dyn = p.preds.iter().any(|q| !matches!(q.kind, Kind::Static | Kind::Multifile));
    let has_directive = p.op_decl || p.init || p.use_lists || p.preds.iter().any(|q| !matches!(q.kind, Kind::Static));
    let mut classes: Vec<String> = vec![format!("api:{api_name}"), format!("loads:{}", if p.loads <= 2 { "2".to_string() } else if p.loads <= 5 { "3-5".to_string() } else { "6+".to_string() })];
    for q in &p.preds {
        classes.push(format!("pred:{:?}", q.kind));
    }
    if p.op_decl {
        classes.push("directive:op".into());
    }
    if p.init {
        classes.push("directive:initialization".into());
    }
    if p.use_lists {
        classes.push("directive:use_module".into());
    }
    if p.preds.iter().any(|q| q.clauses.iter().any(|c| !c.body.is_empty())) {
        classes.push("has-rules".into());
    }
    if secondary.len() >= 3 {
        let g1 = secondary[2].0 as i64 - secondary[1].0 as i64;
        classes.push(format!("code-area-growth-per-reload:{}", if g1 == 0 { "zero" } else { "nonzero" }));
        let g2 = secondary[2].1 as i64 - secondary[1].1 as i64;
        classes.push(format!("float-table-growth-per-reload:{}", if g2 == 0 { "zero" } else { "nonzero" }));
    }
    classes.extend(tolerated);
    classes.sort();
    classes.dedup();
    Verdict::Pass { nontrivial: has_dyn && has_directive && p.loads >= 3, classes }
}

impl Prop for C35 {
    fn id(&self) -> &'static str {
        "C35"
    }
    fn rule(&self) -> &'static str {
        "generated error-free programs: 1..6 predicates of arity 1 (static / dynamic / discontiguous / multifile / dynamic+discontiguous, 0..4 clauses each, heads over 18 constants incl. 50-bit integers, floats, strings, compounds, lists; bodies of up to 2 goals calling earlier predicates or unifying), optional :- op/3 + clause using it, :- initialization(true), :- use_module(library(lists)), random layout of declarations and clause segments (discontiguous clauses interleaved), loaded 2..5 times (thorough: up to 50) through load_module_string | consult_module_string | consult/1 of a file; answers of every predicate after every load compared with an evaluator of the program; footprint after load #3.. compared with load #2; non-trivial = at least one dynamic or discontiguous predicate, at least one directive and at least 3 loads; distinct by case encoding"
    }
    fn assumptions(&self) -> Vec<String> {
        vec!["the reader parses the canonical functional notation, quoted atoms, strings and the declared infix operator (C15-C17 check that separately)".into(), "queries are run through the session layer (vp_run/findall), which truncates the heap after each query; heap size is therefore compared after the same query sequence".into()]
    }
    fn run_shard(&self, cfg: &ShardCfg) -> ShardResult {
        let mut d = Driver::new(cfg, "C35");
        let n = cfg.share(cfg.tier.pick(1_500, 60_000));
        let max_loads = cfg.tier.pick(5u8, 50u8);
        d.run("prog", 0, n, 1, prog_strategy(max_loads), &mk_env, &check);
        d.finish()
    }
    fn replay(&self, _kind: &str, case: &Value) -> Verdict {
        replay_case::<Prog, Env>(case, &mk_env, &check)
    }
    fn child(&self, mode: &str, input: &Value) -> i32 {
        if mode == "show" {
            // print a few generated programs
            let n = input.as_u64().unwrap_or(3);
            for i in 0..n {
                let p = sample_one(&prog_strategy(5), i);
                println!("--- api {} loads {}\n{}", p.api, p.loads, p.text());
                let mut env = mk_env();
                println!("=> {:?}", check(&mut env, &p));
            }
            return 0;
        }
        2
    }
}
