//! C41 — JSON text and JSON terms convert faithfully both ways (library(serialization/json)).
//!
//! A generated JSON value is rendered to text by the harness (every escape form, surrogate pairs,
//! raw non-ASCII, arbitrary inter-token whitespace, many number shapes). The harness's own strict
//! RFC 8259 parser (cross-checked against serde_json on every text) gives the expected document;
//! the documented mapping pairs/list/string/number/boolean/null gives the expected term.
//! Checked: parse(text) = expected term (all solutions, under an inference limit); generating
//! from the term gives text that the reference parsers accept with the same content; parsing the
//! generated text gives the same term; invalid documents are rejected.
use crate::engine::*;
use crate::gen::*;
use crate::session::{Outcome, Session};
use crate::shared::txt::{chars_of, drain_tolerated, items_of, short, tolerate_on, tolerated};
use crate::term::{self, T};
use dashu::integer::IBig;
use proptest::prelude::*;
use serde::{Deserialize, Serialize};
use serde_json::Value;

const C41_PL: &str = include_str!("../../prolog/c41.pl");

// ---------------------------------------------------------------------------------------------
// Case

/// one character of a JSON string with the way it is written
#[derive(Clone, Debug, Serialize, Deserialize, PartialEq)]
pub struct SCh {
    pub c: char,
    /// 0 raw, 1 short escape, 2 \uXXXX lower-case hex, 3 \uXXXX upper-case hex (fallbacks apply)
    pub esc: u8,
}

#[derive(Clone, Debug, Serialize, Deserialize)]
pub enum J {
    Null,
    Bool(bool),
    /// number literal exactly as written
    Num(String),
    Str(Vec<SCh>),
    Arr(Vec<J>),
    Obj(Vec<(Vec<SCh>, J)>),
    /// raw (usually invalid) text in value position
    Raw(String),
}

#[derive(Clone, Debug, Serialize, Deserialize)]
pub struct Case {
    pub doc: J,
    /// whitespace choices, consumed cyclically at every token boundary
    pub ws: Vec<u8>,
    /// text-level edit applied after rendering: (kind, position seed)
    pub edit: Option<(u8, u16)>,
    /// also enumerate all parses
    pub all: bool,
}

const WS: &[&str] = &["", "", "", " ", "\n", "\t", "\r\n", "  ", " \t\n"];

struct Renderer<'a> {
    ws: &'a [u8],
    i: usize,
    out: String,
}

impl<'a> Renderer<'a> {
    fn ws(&mut self) {
        if self.ws.is_empty() {
            return;
        }
        let k = self.ws[self.i % self.ws.len()] as usize % WS.len();
        self.i += 1;
        self.out.push_str(WS[k]);
    }
    fn string(&mut self, s: &[SCh]) {
        self.out.push('"');
        for ch in s {
            render_char(ch, &mut self.out);
        }
        self.out.push('"');
    }
    fn value(&mut self, j: &J) {
        self.ws();
        match j {
            J::Null => self.out.push_str("null"),
            J::Bool(b) => self.out.push_str(if *b { "true" } else { "false" }),
            J::Num(l) | J::Raw(l) => self.out.push_str(l),
            J::Str(s) => self.string(s),
            J::Arr(items) => {
                self.out.push('[');
                if items.is_empty() {
                    self.ws();
                }
                for (i, it) in items.iter().enumerate() {
                    if i > 0 {
                        self.out.push(',');
                    }
                    self.value(it);
                }
                self.out.push(']');
            }
            J::Obj(members) => {
                self.out.push('{');
                if members.is_empty() {
                    self.ws();
                }
                for (i, (k, v)) in members.iter().enumerate() {
                    if i > 0 {
                        self.out.push(',');
                    }
                    self.ws();
                    self.string(k);
                    self.ws();
                    self.out.push(':');
                    self.value(v);
                }
                self.out.push('}');
            }
        }
        self.ws();
    }
}

fn short_escape(c: char) -> Option<char> {
    Some(match c {
        '"' => '"',
        '\\' => '\\',
        '/' => '/',
        '\u{8}' => 'b',
        '\u{c}' => 'f',
        '\n' => 'n',
        '\r' => 'r',
        '\t' => 't',
        _ => return None,
    })
}

fn render_char(ch: &SCh, out: &mut String) {
    let c = ch.c;
    let raw_ok = (c as u32) >= 0x20 && c != '"' && c != '\\';
    let mode = match ch.esc % 4 {
        0 if raw_ok => 0,
        0 => {
            if short_escape(c).is_some() {
                1
            } else {
                2
            }
        }
        1 if short_escape(c).is_some() => 1,
        1 => {
            if raw_ok {
                0
            } else {
                2
            }
        }
        m => m,
    };
    match mode {
        0 => out.push(c),
        1 => {
            out.push('\\');
            out.push(short_escape(c).unwrap());
        }
        m => {
            let mut buf = [0u16; 2];
            for u in c.encode_utf16(&mut buf) {
                if m == 2 {
                    out.push_str(&format!("\\u{:04x}", u));
                } else {
                    out.push_str(&format!("\\u{:04X}", u));
                }
            }
        }
    }
}

pub fn render(case: &Case) -> String {
    let mut r = Renderer { ws: &case.ws, i: 0, out: String::new() };
    r.value(&case.doc);
    let mut text = r.out;
    if let Some((kind, pos)) = case.edit {
        let chars: Vec<char> = text.chars().collect();
        let p = if chars.is_empty() { 0 } else { (pos as usize * chars.len()) >> 16 };
        text = match kind % 6 {
            0 => chars[..p].iter().collect(),                                                       // truncate
            1 => chars.iter().enumerate().filter(|(i, _)| *i != p).map(|(_, c)| *c).collect(),      // delete a char
            2 => format!("{text}{}", ["x", ",", "]", "}", "1", "\"", "null", ":"][pos as usize % 8]), // trailing garbage
            3 => {
                // duplicate a char
                let mut v = chars.clone();
                if !v.is_empty() {
                    v.insert(p, chars[p]);
                }
                v.into_iter().collect()
            }
            4 => {
                // replace a char by a structural / control character
                let mut v = chars.clone();
                if !v.is_empty() {
                    v[p] = [',', ':', '[', '}', '"', '\\', '\u{1}', '\'', '0', '-'][pos as usize % 10];
                }
                v.into_iter().collect()
            }
            _ => format!("{}{text}", [",", "]", "x", "\u{feff}", "0", ":"][pos as usize % 6]), // leading garbage
        };
    }
    text
}

// ---------------------------------------------------------------------------------------------
// Reference parser (strict RFC 8259; lone surrogates rejected like serde_json does)

#[derive(Clone, Debug, PartialEq)]
pub enum PJ {
    Null,
    Bool(bool),
    Num(String),
    Str(String),
    Arr(Vec<PJ>),
    Obj(Vec<(String, PJ)>),
}

struct P<'a> {
    s: &'a [char],
    i: usize,
    depth: usize,
}

impl<'a> P<'a> {
    fn peek(&self) -> Option<char> {
        self.s.get(self.i).copied()
    }
    fn ws(&mut self) {
        while matches!(self.peek(), Some(' ' | '\n' | '\r' | '\t')) {
            self.i += 1;
        }
    }
    fn lit(&mut self, w: &str) -> Result<(), ()> {
        for c in w.chars() {
            if self.peek() != Some(c) {
                return Err(());
            }
            self.i += 1;
        }
        Ok(())
    }
    fn hex4(&mut self) -> Result<u32, ()> {
        let mut v = 0;
        for _ in 0..4 {
            let d = self.peek().and_then(|c| c.to_digit(16)).ok_or(())?;
            v = v * 16 + d;
            self.i += 1;
        }
        Ok(v)
    }
    fn string(&mut self) -> Result<String, ()> {
        self.lit("\"")?;
        let mut out = String::new();
        loop {
            let c = self.peek().ok_or(())?;
            self.i += 1;
            match c {
                '"' => return Ok(out),
                '\\' => {
                    let e = self.peek().ok_or(())?;
                    self.i += 1;
                    match e {
                        '"' => out.push('"'),
                        '\\' => out.push('\\'),
                        '/' => out.push('/'),
                        'b' => out.push('\u{8}'),
                        'f' => out.push('\u{c}'),
                        'n' => out.push('\n'),
                        'r' => out.push('\r'),
                        't' => out.push('\t'),
                        'u' => {
                            let u = self.hex4()?;
                            if (0xD800..0xDC00).contains(&u) {
                                self.lit("\\u")?;
                                let l = self.hex4()?;
                                if !(0xDC00..0xE000).contains(&l) {
                                    return Err(());
                                }
                                out.push(char::from_u32(0x10000 + ((u - 0xD800) << 10) + (l - 0xDC00)).ok_or(())?);
                            } else if (0xDC00..0xE000).contains(&u) {
                                return Err(());
                            } else {
                                out.push(char::from_u32(u).ok_or(())?);
                            }
                        }
                        _ => return Err(()),
                    }
                }
                c if (c as u32) < 0x20 => return Err(()),
                c => out.push(c),
            }
        }
    }
    fn number(&mut self) -> Result<String, ()> {
        let start = self.i;
        if self.peek() == Some('-') {
            self.i += 1;
        }
        match self.peek() {
            Some('0') => self.i += 1,
            Some('1'..='9') => {
                while matches!(self.peek(), Some('0'..='9')) {
                    self.i += 1;
                }
            }
            _ => return Err(()),
        }
        if self.peek() == Some('.') {
            self.i += 1;
            if !matches!(self.peek(), Some('0'..='9')) {
                return Err(());
            }
            while matches!(self.peek(), Some('0'..='9')) {
                self.i += 1;
            }
        }
        if matches!(self.peek(), Some('e' | 'E')) {
            self.i += 1;
            if matches!(self.peek(), Some('+' | '-')) {
                self.i += 1;
            }
            if !matches!(self.peek(), Some('0'..='9')) {
                return Err(());
            }
            while matches!(self.peek(), Some('0'..='9')) {
                self.i += 1;
            }
        }
        Ok(self.s[start..self.i].iter().collect())
    }
    fn value(&mut self) -> Result<PJ, ()> {
        self.depth += 1;
        if self.depth > 100 {
            return Err(());
        }
        self.ws();
        let v = match self.peek().ok_or(())? {
            'n' => {
                self.lit("null")?;
                PJ::Null
            }
            't' => {
                self.lit("true")?;
                PJ::Bool(true)
            }
            'f' => {
                self.lit("false")?;
                PJ::Bool(false)
            }
            '"' => PJ::Str(self.string()?),
            '[' => {
                self.i += 1;
                self.ws();
                let mut items = vec![];
                if self.peek() == Some(']') {
                    self.i += 1;
                } else {
                    loop {
                        items.push(self.value()?);
                        match self.peek() {
                            Some(',') => self.i += 1,
                            Some(']') => {
                                self.i += 1;
                                break;
                            }
                            _ => return Err(()),
                        }
                    }
                }
                PJ::Arr(items)
            }
            '{' => {
                self.i += 1;
                self.ws();
                let mut ms = vec![];
                if self.peek() == Some('}') {
                    self.i += 1;
                } else {
                    loop {
                        self.ws();
                        let k = self.string()?;
                        self.ws();
                        self.lit(":")?;
                        let v = self.value()?;
                        ms.push((k, v));
                        match self.peek() {
                            Some(',') => self.i += 1,
                            Some('}') => {
                                self.i += 1;
                                break;
                            }
                            _ => return Err(()),
                        }
                    }
                }
                PJ::Obj(ms)
            }
            _ => PJ::Num(self.number()?),
        };
        self.ws();
        self.depth -= 1;
        Ok(v)
    }
}

pub fn ref_parse(text: &str) -> Result<PJ, ()> {
    let cs: Vec<char> = text.chars().collect();
    let mut p = P { s: &cs, i: 0, depth: 0 };
    let v = p.value()?;
    if p.i != cs.len() {
        return Err(());
    }
    Ok(v)
}

/// exact value of a JSON number literal: (numerator, power of ten) value = num * 10^exp10
fn num_exact(lit: &str) -> (IBig, i64) {
    let (mant, exp) = match lit.find(['e', 'E']) {
        Some(i) => (&lit[..i], lit[i + 1..].parse::<i64>().unwrap()),
        None => (lit, 0),
    };
    let (ip, fp) = match mant.split_once('.') {
        Some((a, b)) => (a, b),
        None => (mant, ""),
    };
    let digits: IBig = format!("{ip}{fp}").parse().unwrap();
    (digits, exp - fp.len() as i64)
}

/// significant decimal digits of the mantissa of a number literal
fn sig_digits(lit: &str) -> usize {
    let mant = match lit.find(['e', 'E']) {
        Some(i) => &lit[..i],
        None => lit,
    };
    let ds: String = mant.chars().filter(|c| c.is_ascii_digit()).collect();
    ds.trim_start_matches('0').trim_end_matches('0').len()
}

fn is_plain_int(lit: &str) -> bool {
    !lit.contains(['.', 'e', 'E'])
}

/// same content as serde_json sees it (only called when there are no duplicate keys)
fn agrees_with_serde(p: &PJ, v: &Value) -> bool {
    match (p, v) {
        (PJ::Null, Value::Null) => true,
        (PJ::Bool(a), Value::Bool(b)) => a == b,
        (PJ::Str(a), Value::String(b)) => a == b,
        (PJ::Num(l), Value::Number(n)) => match l.parse::<f64>() {
            Ok(f) => n.as_f64().map(|g| g == f || (g - f).abs() <= f.abs() * 1e-15).unwrap_or(false),
            Err(_) => false,
        },
        (PJ::Arr(a), Value::Array(b)) => a.len() == b.len() && a.iter().zip(b).all(|(x, y)| agrees_with_serde(x, y)),
        (PJ::Obj(a), Value::Object(b)) => a.len() == b.len() && a.iter().all(|(k, x)| b.get(k).map(|y| agrees_with_serde(x, y)).unwrap_or(false)),
        _ => false,
    }
}

fn has_dup_keys(p: &PJ) -> bool {
    match p {
        PJ::Arr(a) => a.iter().any(has_dup_keys),
        PJ::Obj(ms) => {
            let mut seen = std::collections::HashSet::new();
            ms.iter().any(|(k, v)| !seen.insert(k.clone()) || has_dup_keys(v))
        }
        _ => false,
    }
}

/// Both reference parsers on one text. Ok(Some) valid, Ok(None) invalid, Err = they disagree.
fn reference(text: &str) -> Result<Option<PJ>, String> {
    let mine = ref_parse(text);
    let serde: Result<Value, _> = serde_json::from_str(text);
    match (mine, serde) {
        (Ok(p), Ok(v)) => {
            if has_dup_keys(&p) || agrees_with_serde(&p, &v) {
                Ok(Some(p))
            } else {
                Err("content".into())
            }
        }
        (Err(()), Err(_)) => Ok(None),
        (Ok(_), Err(e)) => Err(format!("serde rejects: {e}")),
        (Err(()), Ok(_)) => Err("serde accepts".into()),
    }
}

// ---------------------------------------------------------------------------------------------
// Documented mapping

fn to_term(p: &PJ) -> T {
    match p {
        PJ::Null => term::atom("null"),
        PJ::Bool(b) => term::cmp("boolean", vec![term::atom(if *b { "true" } else { "false" })]),
        PJ::Str(s) => term::cmp("string", vec![T::Str(s.clone())]),
        PJ::Num(l) => {
            let n = if is_plain_int(l) {
                T::Int(l.parse::<IBig>().unwrap())
            } else {
                let f: f64 = l.parse().unwrap();
                // -0.0 cannot be written by number_chars/2 (printer's business, C15): use 0.0
                T::Float(if f == 0.0 { 0.0 } else { f })
            };
            term::cmp("number", vec![n])
        }
        PJ::Arr(items) => term::cmp("list", vec![term::list(items.iter().map(to_term).collect())]),
        PJ::Obj(ms) => term::cmp("pairs", vec![term::list(ms.iter().map(|(k, v)| term::cmp("-", vec![term::cmp("string", vec![T::Str(k.clone())]), to_term(v)])).collect())]),
    }
}

#[derive(Default)]
struct Cmp {
    /// a float that differs from the correctly rounded value by a few ulps: (literal, got, ulps)
    inexact: Option<(String, f64, u64)>,
}

fn ulp_distance(a: f64, b: f64) -> u64 {
    fn key(f: f64) -> i64 {
        let b = f.to_bits() as i64;
        if b < 0 {
            i64::MIN - b
        } else {
            b
        }
    }
    key(a).abs_diff(key(b))
}

/// Is the term `t` the documented image of document `p`? Numbers by value (type not asserted):
/// an integer must be the exact value of the literal, a float the correctly rounded double.
fn same(p: &PJ, t: &T, st: &mut Cmp) -> Result<(), String> {
    match (p, t) {
        (PJ::Null, T::Atom(a)) if a == "null" => Ok(()),
        (PJ::Bool(b), T::Cmp(n, a)) if n == "boolean" && a.len() == 1 => match &a[0] {
            T::Atom(x) if x == if *b { "true" } else { "false" } => Ok(()),
            o => Err(format!("boolean {b} came as {}", o.text())),
        },
        (PJ::Str(s), T::Cmp(n, a)) if n == "string" && a.len() == 1 => match chars_of(&a[0]) {
            Some(g) if g == *s => Ok(()),
            _ => Err(format!("string {} came as {}", short(s), short(&a[0].text()))),
        },
        (PJ::Num(l), T::Cmp(n, a)) if n == "number" && a.len() == 1 => {
            let (m, e) = num_exact(l);
            match &a[0] {
                T::Int(i) => {
                    // i == m * 10^e exactly
                    let ok = if e >= 0 { *i == &m * ipow10(e as u32) } else { i * ipow10((-e) as u32) == m };
                    if ok {
                        Ok(())
                    } else {
                        Err(format!("number {l} came as the integer {i}"))
                    }
                }
                T::Float(g) => {
                    let f: f64 = l.parse().map_err(|_| "unparsable literal")?;
                    if *g == f {
                        Ok(())
                    } else if g.is_finite() && ulp_distance(*g, f) <= 64 {
                        if st.inexact.is_none() {
                            st.inexact = Some((l.clone(), *g, ulp_distance(*g, f)));
                        }
                        Ok(())
                    } else {
                        Err(format!("number {l} came as the float {}", term::write_float(*g)))
                    }
                }
                o => Err(format!("number {l} came as {}", o.text())),
            }
        }
        (PJ::Arr(items), T::Cmp(n, a)) if n == "list" && a.len() == 1 => {
            let got = items_of(&a[0]).ok_or("list/1 argument is not a list")?;
            if got.len() != items.len() {
                return Err(format!("array of {} came with {} elements", items.len(), got.len()));
            }
            for (x, y) in items.iter().zip(&got) {
                same(x, y, st)?;
            }
            Ok(())
        }
        (PJ::Obj(ms), T::Cmp(n, a)) if n == "pairs" && a.len() == 1 => {
            let got = items_of(&a[0]).ok_or("pairs/1 argument is not a list")?;
            if got.len() != ms.len() {
                return Err(format!("object of {} members came with {}", ms.len(), got.len()));
            }
            for ((k, v), y) in ms.iter().zip(&got) {
                match y {
                    T::Cmp(d, kv) if d == "-" && kv.len() == 2 => {
                        same(&PJ::Str(k.clone()), &kv[0], st)?;
                        same(v, &kv[1], st)?;
                    }
                    o => return Err(format!("member came as {}", o.text())),
                }
            }
            Ok(())
        }
        (p, t) => Err(format!("{:?} came as {}", p, short(&t.text()))),
    }
}

fn ipow10(n: u32) -> IBig {
    let mut r = IBig::ONE;
    for _ in 0..n {
        r *= IBig::from(10);
    }
    r
}

/// Is document `q` (parsed from generated text) the same content as term-source document `p`?
/// Numbers: the generated literal must denote the number of the term exactly.
fn same_doc(p: &T, q: &PJ) -> Result<(), String> {
    let mut st = Cmp::default();
    same(q, p, &mut st)?;
    if let Some((l, g, u)) = st.inexact {
        return Err(format!("generated literal {l} does not denote the float {} ({u} ulps off)", term::write_float(g)));
    }
    Ok(())
}

// ---------------------------------------------------------------------------------------------
// Generators

fn sch() -> BoxedStrategy<SCh> {
    let c = prop_oneof![
        8 => any::<u16>().prop_map(|k| pick(&"abcxyzABZ019 _-+.,:;{}[]'".chars().collect::<Vec<_>>(), k)),
        4 => any::<u16>().prop_map(|k| pick(&['"', '\\', '/', '\u{8}', '\u{c}', '\n', '\r', '\t'], k)),
        2 => any::<u16>().prop_map(|k| pick(&['\u{1}', '\u{1f}', '\u{7f}', '\u{b}', '\u{10}'], k)),
        3 => any::<u16>().prop_map(|k| pick(&['é', 'λ', '日', '\u{a0}', '\u{2028}', '\u{ffff}', '\u{fffd}', '\u{d7ff}', '\u{e000}'], k)),
        2 => any::<u16>().prop_map(|k| pick(&['😀', '\u{10000}', '\u{10ffff}', '𝄞'], k)),
        1 => any::<char>().prop_filter("not NUL", |c| *c != '\0'),
    ];
    (c, prop_oneof![3 => Just(0u8), 2 => Just(1u8), 1 => Just(2u8), 1 => Just(3u8)]).prop_map(|(c, esc)| SCh { c, esc }).boxed()
}

fn jstring() -> BoxedStrategy<Vec<SCh>> {
    proptest::collection::vec(sch(), 0..=8).boxed()
}

fn digits(min: usize, max: usize) -> BoxedStrategy<String> {
    proptest::collection::vec(0u8..=9, min..=max).prop_map(|v| v.into_iter().map(|d| (b'0' + d) as char).collect::<String>()).boxed()
}

fn number_lit() -> BoxedStrategy<String> {
    let int_part = prop_oneof![
        2 => Just("0".to_string()),
        6 => (1u8..=9, digits(0, 5)).prop_map(|(d, r)| format!("{d}{r}")),
        2 => (1u8..=9, digits(10, 30)).prop_map(|(d, r)| format!("{d}{r}")),
    ];
    let frac = prop_oneof![
        5 => Just(String::new()),
        5 => digits(1, 6).prop_map(|d| format!(".{d}")),
        2 => digits(12, 22).prop_map(|d| format!(".{d}")),
    ];
    let exp = prop_oneof![
        6 => Just(String::new()),
        4 => (any::<bool>(), prop_oneof![Just(""), Just("+"), Just("-")], prop_oneof![4 => 0u32..=25, 1 => 0u32..=250], any::<bool>()).prop_map(|(up, s, v, pad)| format!("{}{}{}{}", if up { "E" } else { "e" }, s, if pad { "0" } else { "" }, v)),
    ];
    (any::<bool>(), int_part, frac, exp).prop_map(|(neg, i, f, e)| format!("{}{i}{f}{e}", if neg { "-" } else { "" })).boxed()
}

fn jvalue() -> BoxedStrategy<J> {
    let leaf = prop_oneof![
        1 => Just(J::Null),
        2 => any::<bool>().prop_map(J::Bool),
        5 => number_lit().prop_map(J::Num),
        5 => jstring().prop_map(J::Str),
    ];
    leaf.prop_recursive(4, 24, 4, |inner| {
        prop_oneof![
            1 => proptest::collection::vec(inner.clone(), 0..=4).prop_map(J::Arr),
            1 => proptest::collection::vec((prop_oneof![3 => jstring(), 1 => Just(vec![SCh { c: 'k', esc: 0 }])], inner.clone()), 0..=4).prop_map(J::Obj),
        ]
    })
    .boxed()
}

const RAW_INVALID: &[&str] = &[
    "01", "-", "+1", ".5", "1.", "1e", "1e+", "1.e3", "-01", "00", "NaN", "Infinity", "-Infinity", "True", "FALSE", "nul", "nulll", "tru", "'a'", "\"abc", "\"a\u{1}b\"", "\"a\nb\"", "\"a\tb\"", "\"\\x41\"", "\"\\a\"", "\"\\u12G4\"", "\"\\u12\"",
    "\"\\U0041\"", "\"\\ud800\"", "\"\\udc00\"", "\"\\ud800\\u0041\"", "\"\\ude00\\ud83d\"", "0x10", "1 2", "[1,]", "[,1]", "[1,,2]", "[1 2]", "[,]", "{\"a\":1,}", "{,}", "{a:1}", "{'a':1}", "{\"a\" 1}", "{\"a\":}", "{\"a\"}", "{1:2}", "{\"a\":1 \"b\":2}",
    "{\"a\":1,,\"b\":2}", "{null:1}", "[", "]", "{", "}", "[1}", "{\"a\":1]", "/* c */ 1", "1 // c", "\"a\" \"b\"", "truee", "1a", "1_000", "1,2", "\"a\":1", "\u{b}1", "\u{a0}1", "\u{feff}1", "[1]]", "{}}", "-\"a\"", "- 1", "1 .5", "1e 5", "\\u0031",
];

fn place_raw(doc: J, raw: J, path: &[u16]) -> J {
    // put `raw` somewhere inside `doc`: walk down by the path while containers are met
    match (doc, path.split_first()) {
        (J::Arr(mut items), Some((k, rest))) if !items.is_empty() => {
            let i = (*k as usize * items.len()) >> 16;
            let child = std::mem::replace(&mut items[i], J::Null);
            items[i] = place_raw(child, raw, rest);
            J::Arr(items)
        }
        (J::Obj(mut ms), Some((k, rest))) if !ms.is_empty() => {
            let i = (*k as usize * ms.len()) >> 16;
            let child = std::mem::replace(&mut ms[i].1, J::Null);
            ms[i].1 = place_raw(child, raw, rest);
            J::Obj(ms)
        }
        (J::Arr(mut items), _) => {
            items.push(raw);
            J::Arr(items)
        }
        (_, _) => raw,
    }
}

pub fn case_strategy() -> BoxedStrategy<Case> {
    let ws = proptest::collection::vec(0u8..=8, 0..=6);
    let valid = (jvalue(), ws.clone(), proptest::bool::weighted(0.3)).prop_map(|(doc, ws, all)| Case { doc, ws, edit: None, all });
    let raw = (jvalue(), any::<u16>(), proptest::collection::vec(any::<u16>(), 0..=3), ws.clone()).prop_map(|(doc, k, path, ws)| Case { doc: place_raw(doc, J::Raw(pick(RAW_INVALID, k).to_string()), &path), ws, edit: None, all: false });
    let edited = (jvalue(), ws, 0u8..=5, any::<u16>()).prop_map(|(doc, ws, kind, pos)| Case { doc, ws, edit: Some((kind, pos)), all: false });
    prop_oneof![12 => valid, 4 => raw, 3 => edited].boxed()
}

// ---------------------------------------------------------------------------------------------
// Check

pub struct Env {
    pub s: Session,
}

pub fn mk_env() -> Env {
    let mut s = Session::new(&["serialization/json", "dcgs", "lists"]);
    assert!(s.consult(C41_PL, "c41"), "c41.pl failed to load");
    Env { s }
}

enum Res {
    Ok(T),
    Failed,
    Ex(T),
    None,
}

fn decode_res(t: &T) -> Option<Res> {
    match t {
        T::Atom(a) if a == "failed" => Some(Res::Failed),
        T::Atom(a) if a == "none" => Some(Res::None),
        T::Cmp(n, a) if n == "ok" && a.len() == 1 => Some(Res::Ok(a[0].clone())),
        T::Cmp(n, a) if n == "ex" && a.len() == 1 => Some(Res::Ex(a[0].clone())),
        _ => None,
    }
}

fn problem(o: &Outcome, what: &str) -> Option<Verdict> {
    match o {
        Outcome::Panic(m) => Some(Verdict::fail(format!("panic:{}", m.split_whitespace().next().unwrap_or("?")), format!("{what}: {m}"))),
        Outcome::Harness(m) => Some(Verdict::Discard(format!("harness:{}", m.chars().take(40).collect::<String>()))),
        _ => None,
    }
}

struct Feat {
    depth: usize,
    escape: bool,
    nonint: bool,
    surrogate_escape: bool,
    nonbmp: bool,
    dup: bool,
    bigint: bool,
}

fn features(j: &J, depth: usize, f: &mut Feat) {
    f.depth = f.depth.max(depth);
    let chars = |s: &Vec<SCh>, f: &mut Feat| {
        for ch in s {
            let raw_ok = (ch.c as u32) >= 0x20 && ch.c != '"' && ch.c != '\\';
            if !raw_ok || ch.esc % 4 >= 2 || (ch.esc % 4 == 1 && short_escape(ch.c).is_some()) {
                f.escape = true;
            }
            if (ch.c as u32) > 0xffff {
                f.nonbmp = true;
                if ch.esc % 4 >= 2 {
                    f.surrogate_escape = true;
                }
            }
        }
    };
    match j {
        J::Num(l) => {
            if !is_plain_int(l) {
                f.nonint = true;
            } else if l.len() > 17 {
                f.bigint = true;
            }
        }
        J::Str(s) => chars(s, f),
        J::Arr(items) => {
            for it in items {
                features(it, depth + 1, f);
            }
        }
        J::Obj(ms) => {
            let mut seen = std::collections::HashSet::new();
            for (k, v) in ms {
                chars(k, f);
                if !seen.insert(k.iter().map(|c| c.c).collect::<String>()) {
                    f.dup = true;
                }
                features(v, depth + 1, f);
            }
        }
        _ => {}
    }
}

pub fn check(env: &mut Env, case: &Case) -> Verdict {
    let text = render(case);
    if text.contains('\0') {
        return Verdict::Discard("nul-char".into());
    }
    let expected = match reference(&text) {
        Ok(e) => e,
        Err(why) => return Verdict::Discard(format!("oracle-disagree:{}", why.chars().take(24).collect::<String>())),
    };
    let mut ft = Feat { depth: 0, escape: false, nonint: false, surrogate_escape: false, nonbmp: false, dup: false, bigint: false };
    features(&case.doc, 1, &mut ft);
    let is_mutation = case.edit.is_some() || {
        fn has_raw(j: &J) -> bool {
            match j {
                J::Raw(_) => true,
                J::Arr(a) => a.iter().any(has_raw),
                J::Obj(m) => m.iter().any(|(_, v)| has_raw(v)),
                _ => false,
            }
        }
        has_raw(&case.doc)
    };

    let Some(doc) = expected else {
        // invalid document: must be rejected
        let o = env.s.ask_once(&format!("vp_dec({}, Cs), c41_p(Cs, Rr)", T::Str(text.clone()).enc_text()), "Rr");
        if let Some(v) = problem(&o, &format!("parsing {}", short(&text))) {
            return v;
        }
        let r = match &o {
            Outcome::Sols(v) if v.len() == 1 => decode_res(&v[0]),
            _ => None,
        };
        let kind = match (&case.edit, is_mutation) {
            (Some((k, _)), _) => format!("edit{}", k % 6),
            _ => "raw".to_string(),
        };
        return match r {
            Some(Res::Failed) => {
                let k = format!("invalid:{kind}");
                Verdict::pass(true, &["invalid-rejected", k.as_str()])
            }
            Some(Res::Ex(b)) => {
                // rejected, though by an exception: accepted (the statement says "rejected")
                let f = match &b {
                    T::Cmp(n, a) if n == "error" && a.len() == 2 => match &a[0] {
                        T::Cmp(f, _) => f.clone(),
                        T::Atom(f) => f.clone(),
                        _ => "?".into(),
                    },
                    _ => "non-error-ball".into(),
                };
                let (k1, k2) = (format!("invalid-exception:{f}"), format!("invalid:{kind}"));
                Verdict::pass(true, &["invalid-rejected-by-exception", k1.as_str(), k2.as_str()])
            }
            Some(Res::Ok(t)) => Verdict::fail(format!("accepted-invalid:{kind}"), format!("invalid JSON {} was parsed as {}", short(&text), short(&t.text()))),
            _ => Verdict::Discard("harness:shape".into()),
        };
    };
    if is_mutation {
        // an edit that kept the document valid: nothing specific to learn beyond the valid stream
        return Verdict::Discard("mutation-still-valid".into());
    }

    let term = to_term(&doc);
    let has_float = {
        fn hf(t: &T) -> bool {
            match t {
                T::Float(_) => true,
                T::Cmp(_, a) => a.iter().any(hf),
                T::PList(i, t) => i.iter().any(hf) || hf(t),
                _ => false,
            }
        }
        hf(&term)
    };
    let o = env.s.ask_once(&format!("vp_dec({}, Cs), vp_dec({}, Tm), c41_run(Cs, Tm, Rr)", T::Str(text.clone()).enc_text(), term.enc_text()), "Rr-Tm");
    if let Some(v) = problem(&o, &format!("json_chars on {}", short(&text))) {
        return v;
    }
    let (rp, rg, rb) = match &o {
        Outcome::Sols(v) if v.len() == 1 => match &v[0] {
            T::Cmp(m, a) if m == "-" && a.len() == 2 => {
                if has_float && !a[1].eq_struct(&term.norm()) {
                    return Verdict::Discard("float-transport".into());
                }
                match &a[0] {
                    T::Cmp(r, x) if r == "r" && x.len() == 3 => match (decode_res(&x[0]), decode_res(&x[1]), decode_res(&x[2])) {
                        (Some(a), Some(b), Some(c)) => (a, b, c),
                        _ => return Verdict::Discard("harness:shape".into()),
                    },
                    _ => return Verdict::Discard("harness:shape".into()),
                }
            }
            _ => return Verdict::Discard("harness:shape".into()),
        },
        other => return Verdict::Discard(format!("harness:c41_run {}", other.short().chars().take(60).collect::<String>())),
    };

    let mut classes: Vec<String> = vec!["valid".into()];
    // 1. parse
    let surrogate_known = "surrogate-pair-escape:representation_error";
    let mut parse_ok = true;
    match &rp {
        Res::Ok(t) => {
            let mut st = Cmp::default();
            if let Err(why) = same(&doc, t, &mut st) {
                return Verdict::fail("wrong-parse", format!("{} parsed as {}: {why}", short(&text), short(&t.text())));
            }
            if let Some((l, g, u)) = st.inexact.clone().filter(|(l, _, _)| sig_digits(l) > 15) {
                // more digits than a double holds: "nearest double" is the harness's wish, not the docs'
                let _ = (l, g, u);
                classes.push("long-literal-not-nearest-double".into());
            }
            if let Some((l, g, u)) = st.inexact.filter(|(l, _, _)| sig_digits(l) <= 15) {
                let sig = "number-inexact:parse";
                if !tolerated(sig) {
                    return Verdict::fail(sig, format!("number {l} in {} parsed as {} which is {u} ulp(s) away from the nearest double {}", short(&text), term::write_float(g), term::write_float(l.parse().unwrap())));
                }
                classes.push("known:number-inexact-parse".into());
            }
        }
        Res::Ex(b) => {
            let is_repr = matches!(b, T::Cmp(n, a) if n == "error" && a.len() == 2 && matches!(&a[0], T::Cmp(f, x) if f == "representation_error" && x.len() == 1 && matches!(&x[0], T::Atom(w) if w == "character_code")));
            if is_repr && ft.surrogate_escape {
                if !tolerated(surrogate_known) {
                    return Verdict::fail(surrogate_known, format!("valid JSON {} (a \\uD8xx\\uDCxx surrogate pair) raised {}", short(&text), b.text()));
                }
                classes.push("known:surrogate-pair".into());
                parse_ok = false;
            } else {
                let f = match b {
                    T::Cmp(n, a) if n == "error" && a.len() == 2 => match &a[0] {
                        T::Cmp(f, _) => f.clone(),
                        T::Atom(f) => f.clone(),
                        _ => "?".into(),
                    },
                    _ => "ball".into(),
                };
                return Verdict::fail(format!("parse-error:{f}"), format!("valid JSON {} raised {}", short(&text), b.text()));
            }
        }
        Res::Failed => return Verdict::fail("rejected-valid", format!("valid JSON {} was rejected", short(&text))),
        Res::None => return Verdict::Discard("harness:shape".into()),
    }

    // 2. generate from the documented term
    match &rg {
        Res::Ok(cs) => {
            let Some(gen_text) = chars_of(cs) else { return Verdict::fail("generated-non-chars", format!("json_chars({}) described {}", short(&term.text()), short(&cs.text()))) };
            match reference(&gen_text) {
                Ok(Some(q)) => {
                    if let Err(why) = same_doc(&term.norm(), &q) {
                        return Verdict::fail("wrong-generated", format!("json_chars({}) generated {}: {why}", short(&term.text()), short(&gen_text)));
                    }
                }
                Ok(None) => return Verdict::fail("generated-invalid", format!("json_chars({}) generated {} which is not valid JSON", short(&term.text()), short(&gen_text))),
                Err(why) => return Verdict::Discard(format!("oracle-disagree-gen:{}", why.chars().take(24).collect::<String>())),
            }
            // 3. and back
            match &rb {
                Res::Ok(t2) => {
                    if !t2.eq_struct(&term.norm()) {
                        // classify: only float digits differ?
                        let mut st = Cmp::default();
                        let near = same(&doc, t2, &mut st).is_ok() && st.inexact.is_some();
                        if near {
                            let sig = "number-inexact:round-trip";
                            if !tolerated(sig) {
                                let (l, g, u) = st.inexact.unwrap();
                                return Verdict::fail(sig, format!("term {} generated {} which parsed back with {l} as {} ({u} ulp(s) off)", short(&term.text()), short(&gen_text), term::write_float(g)));
                            }
                            classes.push("known:number-inexact-round-trip".into());
                        } else {
                            return Verdict::fail("round-trip-differs", format!("term {} generated {} which parsed back as {}", short(&term.text()), short(&gen_text), short(&t2.text())));
                        }
                    }
                }
                Res::Failed => return Verdict::fail("round-trip-rejected", format!("term {} generated {} which json_chars//1 then rejected", short(&term.text()), short(&gen_text))),
                Res::Ex(b) => return Verdict::fail("round-trip-error", format!("term {} generated {} whose parse raised {}", short(&term.text()), short(&gen_text), b.text())),
                Res::None => return Verdict::Discard("harness:shape".into()),
            }
        }
        Res::Failed => return Verdict::fail("generate-failed", format!("json_chars({}) has no solution", short(&term.text()))),
        Res::Ex(b) => return Verdict::fail("generate-error", format!("json_chars({}) raised {}", short(&term.text()), b.text())),
        Res::None => return Verdict::Discard("harness:shape".into()),
    }

    // 4. every parse of the text is the expected one
    if case.all && parse_ok {
        let o = env.s.ask_once(&format!("vp_dec({}, Cs), c41_all(Cs, 3000000, Rr)", T::Str(text.clone()).enc_text()), "Rr");
        if let Some(v) = problem(&o, &format!("all parses of {}", short(&text))) {
            return v;
        }
        match &o {
            Outcome::Sols(v) if v.len() == 1 => match &v[0] {
                T::Atom(a) if a == "limit" => classes.push("all-parses-limit".into()),
                T::Cmp(n, a) if n == "ok" && a.len() == 1 => {
                    let sols = items_of(&a[0]).unwrap_or_default();
                    for t in &sols {
                        let mut st = Cmp::default();
                        if let Err(why) = same(&doc, t, &mut st) {
                            return Verdict::fail("wrong-parse:backtracking", format!("{} has {} parses, one is {}: {why}", short(&text), sols.len(), short(&t.text())));
                        }
                    }
                    classes.push(if sols.len() == 1 { "all-parses-1".into() } else { "all-parses-many".into() });
                }
                T::Cmp(n, a) if n == "ex" && a.len() == 1 => return Verdict::fail("parse-error:backtracking", format!("enumerating the parses of {} raised {}", short(&text), a[0].text())),
                _ => return Verdict::Discard("harness:shape".into()),
            },
            _ => return Verdict::Discard("harness:shape".into()),
        }
    }

    if ft.escape {
        classes.push("escape".into());
    }
    if ft.nonint {
        classes.push("non-integer-number".into());
    }
    if ft.bigint {
        classes.push("big-integer".into());
    }
    if ft.nonbmp {
        classes.push("non-bmp".into());
    }
    if ft.dup {
        classes.push("duplicate-keys".into());
    }
    if !case.ws.is_empty() {
        classes.push("whitespace".into());
    }
    classes.push(format!("depth-{}", ft.depth.min(5)));
    let cl: Vec<&str> = classes.iter().map(|s| s.as_str()).collect();
    Verdict::pass(ft.depth >= 2 && (ft.escape || ft.nonint), &cl)
}

pub struct C41;

impl Prop for C41 {
    fn id(&self) -> &'static str {
        "C41"
    }
    fn rule(&self) -> &'static str {
        "JSON values of depth <= 5 (objects with and without duplicate keys, arrays, strings over raw/short/\\uXXXX escapes incl. surrogate pairs, control and non-BMP characters, numbers with sign/fraction/exponent/leading-zero exponents/up to 30 digits, true/false/null) rendered with arbitrary inter-token whitespace; plus invalid documents (74 malformed value texts placed inside valid documents, and truncation / deletion / duplication / replacement / garbage edits that both reference parsers reject); parse, generate-from-term, parse-back and all-parses (30% of cases, inference-limited) compared with the harness's RFC 8259 parser (cross-checked against serde_json on every text); non-trivial = nesting >= 2 with an escape or a non-integer number, or an invalid document; distinct by case encoding"
    }
    fn assumptions(&self) -> Vec<String> {
        vec![
            "validity oracle = the harness's strict RFC 8259 parser and serde_json agreeing (disagreements are discarded and counted: only lone surrogates and out-of-range exponents could differ and neither is generated as a valid case)".into(),
            "numbers are compared by value, type not asserted (docs: 'we don't yet support the integer type'): an integer result must be the exact value of the literal, a float result the correctly rounded double; results 1..64 ulps off are reported under their own signature (number-inexact)".into(),
            "invalid documents count as rejected when phrase/2 fails or raises (the statement says 'rejected'); which of the two is recorded as a class".into(),
            "NUL characters and -0.0 in terms are not generated (atom/printer business of C15/C21)".into(),
            "terms and texts reach Prolog through vp_dec/2 (code lists); terms with floats are echoed back and compared bit-for-bit".into(),
        ]
    }
    fn run_shard(&self, cfg: &ShardCfg) -> ShardResult {
        let mut d = Driver::new(cfg, "C41");
        let n = cfg.share(cfg.tier.pick(10_000, 500_000));
        tolerate_on(true);
        d.run("doc", 0, n, 1000, case_strategy(), &mk_env, &check);
        tolerate_on(false);
        drain_tolerated(&mut d.res.excluded_known);
        d.finish()
    }
    fn replay(&self, _kind: &str, case: &Value) -> Verdict {
        replay_case::<Case, Env>(case, &mk_env, &check)
    }
}
