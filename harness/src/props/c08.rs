//! C08 — Static, dynamic and meta-called code give the same answers.
//!
//! Every generated program of the C07 space is materialised five ways under five predicate
//! prefixes on one machine:
//!   a  consulted as static code;
//!   b  consulted with the clauses of different predicates interleaved under `:- discontiguous`;
//!   c  added clause by clause with assertz/1 (dynamic);
//!   d  the dynamic copy c run by a vanilla meta-interpreter over clause/2 (cut-free programs only);
//!   e  consulted with every ordinary body goal wrapped as call(G) or call(G0, LastArg)
//!      (cuts, true, fail and the control constructs themselves are not wrapped, so the documented
//!      opacity of cut inside call/N is never involved).
//! Each query is run against all loadings; the answer sequences (prefix stripped) must be equal.
//! The reference interpreter supplies the expected sequence, so the failure signature names the
//! loadings that are wrong (`differs:<loadings>`). Queries for which the reference says Limit or
//! Unsupported are skipped (variable order / cyclic terms may legitimately differ between loadings).
use crate::engine::*;
use crate::props::c07::{compare, load, ref_limits, LoadErr};
use crate::session::{Outcome, Session};
use crate::shared::proggen::*;
use crate::shared::refint::{Clause, Interp, Pred, Program, RefOutcome};
use crate::term::{atom, cmp, list, T};
use serde_json::{json, Value};
use std::sync::atomic::{AtomicU64, Ordering};

const INTERP_PL: &str = include_str!("../../prolog/interp.pl");

static Q_COMPARED: AtomicU64 = AtomicU64::new(0);
static Q_SKIPPED: AtomicU64 = AtomicU64::new(0);
static MI_RUNS: AtomicU64 = AtomicU64::new(0);

pub struct Env {
    pub s: Session,
    pub n: u64,
}

pub fn mk_env() -> Env {
    let mut s = Session::new(&[]);
    assert!(s.consult(INTERP_PL, "vpi_interp"), "interp.pl failed to load");
    Env { s, n: 0 }
}

// ---------------------------------------------------------------------------------------------
// the five loadings

fn discontiguous_text(p: &Program) -> String {
    let mut s = String::new();
    for pr in &p.preds {
        s.push_str(&format!(":- discontiguous({}/{}).\n", crate::term::write_atom(&pr.name), pr.arity));
    }
    // round robin over the predicates, highest-numbered first; clause order within a predicate is kept
    let max = p.preds.iter().map(|pr| pr.clauses.len()).max().unwrap_or(0);
    for k in 0..max {
        for pr in p.preds.iter().rev() {
            if let Some(c) = pr.clauses.get(k) {
                s.push_str(&clause_text(c));
                s.push('\n');
            }
        }
    }
    s
}

fn is_wrappable(t: &T) -> bool {
    match t {
        T::Atom(a) => !matches!(a.as_str(), "!" | "true" | "fail" | "false"),
        T::Cmp(n, a) => !matches!((n.as_str(), a.len()), (",", 2) | (";", 2) | ("->", 2) | ("\\+", 1) | ("findall", 3) | ("catch", 3)) && n != "call",
        _ => false,
    }
}

/// wrap every ordinary goal as call(G) / call(G0, Last); `k` alternates the two forms
fn wrap_goal(t: &T, k: &mut u32) -> T {
    match t {
        T::Cmp(n, a) if matches!((n.as_str(), a.len()), (",", 2) | (";", 2) | ("->", 2)) => T::Cmp(n.clone(), a.iter().map(|x| wrap_goal(x, k)).collect()),
        T::Cmp(n, a) if n == "\\+" && a.len() == 1 => T::Cmp(n.clone(), vec![wrap_goal(&a[0], k)]),
        T::Cmp(n, a) if n == "call" && a.len() == 1 => T::Cmp(n.clone(), vec![wrap_goal(&a[0], k)]),
        T::Cmp(n, a) if n == "findall" && a.len() == 3 => T::Cmp(n.clone(), vec![a[0].clone(), wrap_goal(&a[1], k), a[2].clone()]),
        T::Cmp(n, a) if n == "catch" && a.len() == 3 => T::Cmp(n.clone(), vec![wrap_goal(&a[0], k), a[1].clone(), wrap_goal(&a[2], k)]),
        _ if is_wrappable(t) => {
            *k += 1;
            match t {
                T::Cmp(n, a) if *k % 2 == 0 && a.len() <= 8 => {
                    let g0 = if a.len() == 1 { atom(n) } else { T::Cmp(n.clone(), a[..a.len() - 1].to_vec()) };
                    T::Cmp("call".into(), vec![g0, a[a.len() - 1].clone()])
                }
                _ => cmp("call", vec![t.clone()]),
            }
        }
        _ => t.clone(),
    }
}

fn wrapped_program(p: &Program) -> Program {
    let mut k = 0;
    Program {
        preds: p.preds.iter().map(|pr| Pred { name: pr.name.clone(), arity: pr.arity, dynamic: false, clauses: pr.clauses.iter().map(|c| Clause { head: c.head.clone(), body: wrap_goal(&c.body, &mut k) }).collect() }).collect(),
    }
}

fn has_cut(t: &T) -> bool {
    match t {
        T::Atom(a) => a == "!",
        T::Cmp(_, a) => a.iter().any(has_cut),
        T::PList(i, tl) => i.iter().any(has_cut) || has_cut(tl),
        _ => false,
    }
}

fn strip_name(s: &str) -> Option<String> {
    // c<digits><a-e>_p<digits>  ->  p<digits>
    let rest = s.strip_prefix('c')?;
    let i = rest.find(|c: char| !c.is_ascii_digit())?;
    if i == 0 {
        return None;
    }
    let rest = &rest[i..];
    let mut cs = rest.chars();
    let l = cs.next()?;
    if !('a'..='e').contains(&l) {
        return None;
    }
    let rest = cs.as_str().strip_prefix('_')?;
    if rest.len() >= 2 && rest.starts_with('p') && rest[1..].chars().all(|c| c.is_ascii_digit()) {
        Some(rest.to_string())
    } else {
        None
    }
}

fn strip(t: &T) -> T {
    match t {
        T::Atom(a) => T::Atom(strip_name(a).unwrap_or_else(|| a.clone())),
        T::Cmp(n, a) => T::Cmp(strip_name(n).unwrap_or_else(|| n.clone()), a.iter().map(strip).collect()),
        T::PList(i, tl) => T::PList(i.iter().map(strip).collect(), Box::new(strip(tl))),
        other => other.clone(),
    }
}

fn strip_outcome(o: Outcome) -> Outcome {
    match o {
        Outcome::Sols(v) => Outcome::Sols(v.iter().map(strip).collect()),
        Outcome::Ex(b) => Outcome::Ex(strip(&b)),
        other => other,
    }
}

fn strip_ref(o: RefOutcome) -> RefOutcome {
    match o {
        RefOutcome::Sols(v) => RefOutcome::Sols(v.iter().map(strip).collect()),
        RefOutcome::Ex(b) => RefOutcome::Ex(strip(&b)),
        other => other,
    }
}

const NAMES: [&str; 5] = ["static", "discontiguous", "dynamic", "meta-interpreter", "call-wrapped"];

pub fn check(env: &mut Env, case: &GenCase) -> Verdict {
    let n = env.n;
    env.n += 1;
    let px = |l: char| format!("c{n}{l}_");
    let ca = rename_case(case, &px('a'));
    let cb = rename_case(case, &px('b'));
    let cc = rename_case(case, &px('c'));
    let ce_prog = rename_program(&wrapped_program(&case.prog), &px('e'));
    let ce = rename_case(case, &px('e'));
    let cut_free = !case.prog.preds.iter().any(|p| p.clauses.iter().any(|c| has_cut(&c.body)));

    let text_a = render_program(&ca.prog);
    let text_b = discontiguous_text(&cb.prog);
    let text_e = render_program(&ce_prog);
    for (tag, text) in [('a', &text_a), ('b', &text_b), ('e', &text_e)] {
        match load(&mut env.s, text, &format!("c{n}{tag}")) {
            Ok(()) => {}
            Err(LoadErr::Panic(m)) => return Verdict::fail(format!("panic:{}", m.split_whitespace().next().unwrap_or("?")), format!("consult panicked: {m}\n{text}")),
            Err(LoadErr::Rejected(m)) => return Verdict::fail(format!("load-rejected:{tag}"), format!("valid program text was not loaded ({m})\n{text}")),
        }
    }
    // c: assertz clause by clause
    for pr in &cc.prog.preds {
        for c in &pr.clauses {
            let ct = clause_text(c);
            let ct = &ct[..ct.len() - 1];
            let o = env.s.ask(&format!("assertz(({ct}))"), "[]");
            match o {
                Outcome::Sols(v) if v.len() == 1 => {}
                Outcome::Panic(m) => return Verdict::fail(format!("panic:{}", m.split_whitespace().next().unwrap_or("?")), format!("assertz(({ct})) panicked: {m}")),
                Outcome::Harness(m) => return Verdict::Discard(format!("harness:{}", m.chars().take(40).collect::<String>())),
                other => return Verdict::fail("assertz-failed:", format!("assertz(({ct})) gave {}", other.short())),
            }
        }
    }
    let preds_c = list(cc.prog.preds.iter().map(|p| cmp("/", vec![atom(&p.name), crate::term::int(p.arity as i64)])).collect()).text();

    let mut interp = Interp::new(&ca.prog);
    let lim = ref_limits();
    let mut compared = 0;
    for (qi, q) in case.queries.iter().enumerate() {
        let expected = strip_ref(interp.solve(&ca.queries[qi].goal, &q.template, &lim));
        if matches!(expected, RefOutcome::Limit | RefOutcome::Unsupported(_)) {
            Q_SKIPPED.fetch_add(1, Ordering::Relaxed);
            continue;
        }
        let tt = q.template.text();
        let mut outs: Vec<(usize, String, Outcome)> = vec![];
        for (vi, cv) in [&ca, &cb, &cc, &cc, &ce].iter().enumerate() {
            if vi == 3 && (!cut_free || has_cut(&q.goal)) {
                continue;
            }
            let g = goal_text(&cv.queries[qi].goal);
            let goal = if vi == 3 {
                MI_RUNS.fetch_add(1, Ordering::Relaxed);
                format!("vpi_mi(({g}), {preds_c})")
            } else {
                g.clone()
            };
            let o = env.s.ask(&goal, &tt);
            if let Outcome::Harness(m) = &o {
                return Verdict::Discard(format!("harness:{}", m.chars().take(40).collect::<String>()));
            }
            outs.push((vi, g, strip_outcome(o)));
        }
        compared += 1;
        Q_COMPARED.fetch_add(1, Ordering::Relaxed);
        let mut wrong: Vec<&str> = vec![];
        let mut detail = String::new();
        let mut panic_sig: Option<String> = None;
        for (vi, g, o) in &outs {
            if let Some((sig, d)) = compare(&expected, o) {
                if sig.starts_with("panic") && panic_sig.is_none() {
                    panic_sig = Some(sig.clone());
                }
                wrong.push(NAMES[*vi]);
                detail.push_str(&format!("{}: ?- {g}.  {d}\n    scryer: {}\n", NAMES[*vi], o.short()));
            }
        }
        if !wrong.is_empty() {
            let shapes: Vec<&str> = known_shapes(&case.prog).into_iter().collect();
            let mut sig = panic_sig.unwrap_or_else(|| format!("differs:{}", wrong.join("+")));
            if !shapes.is_empty() && !sig.starts_with("panic") {
                sig = format!("{sig}+shape:{}", shapes.join("+"));
            }
            return Verdict::fail(sig, format!("{detail}reference: {}\nprogram (static loading):\n{text_a}", expected.short()));
        }
    }
    if compared == 0 {
        return Verdict::Discard("no-decidable-query".into());
    }
    let f = features(&case.prog);
    let indexable = case.prog.preds.iter().any(|p| p.clauses.iter().filter(|c| matches!(&c.head, T::Cmp(_, a) if !matches!(a[0], T::Var(_)))).count() >= 2);
    let control = ["disjunction", "if-then-else", "if-then", "negation", "cut"].iter().any(|k| f.contains(k));
    let mut classes: Vec<&str> = f.into_iter().collect();
    if cut_free {
        classes.push("cut-free (meta-interpreter loading compared)");
    }
    if indexable {
        classes.push("indexable-first-argument");
    }
    Verdict::pass(indexable && control, &classes)
}

pub struct C08;

impl Prop for C08 {
    fn id(&self) -> &'static str {
        "C08"
    }
    fn rule(&self) -> &'static str {
        "programs and queries of the C07 generator, each loaded five ways on one machine (consulted static; consulted with clauses of different predicates interleaved under discontiguous/1; assertz/1 clause by clause; the dynamic copy run by a vanilla meta-interpreter over clause/2 when the program is cut-free; every ordinary body goal wrapped as call(G) or call(G0, LastArg)); the ordered answer lists / error Formals of all loadings must agree with each other and with the reference interpreter; non-trivial = some predicate has >= 2 clauses with a non-variable first argument and the program contains a control construct; distinct by case encoding"
    }
    fn assumptions(&self) -> Vec<String> {
        vec![
            "the reference interpreter shared/refint.rs names the wrong loading; all loadings run the same queries through the same transport".into(),
            "the meta-interpreter prolog/interp.pl (13 clauses) is correct for cut-free programs".into(),
        ]
    }
    fn run_shard(&self, cfg: &ShardCfg) -> ShardResult {
        let mut d = Driver::new(cfg, "C08");
        let n = cfg.share(cfg.tier.pick(3_000, 150_000));
        d.run("program", 0, n, 80, case_strategy(GenCfg::default()), &mk_env, &check);
        d.res.extra.insert("queries_compared".into(), json!(Q_COMPARED.load(Ordering::Relaxed)));
        d.res.extra.insert("queries_skipped_reference_limit_or_unsupported".into(), json!(Q_SKIPPED.load(Ordering::Relaxed)));
        d.res.extra.insert("meta_interpreter_runs".into(), json!(MI_RUNS.load(Ordering::Relaxed)));
        d.finish()
    }
    fn replay(&self, _kind: &str, case: &Value) -> Verdict {
        replay_case::<GenCase, Env>(case, &mk_env, &check)
    }
}
