//! C37 — Hashes and encodings are byte-exact (library(crypto), library(charsio)).
use crate::engine::*;
use crate::gen::*;
use crate::session::{Outcome, Session};
use crate::shared::refcrypto::*;
use crate::shared::txt::{bytes_of, chars_of, short};
use crate::term::{self, T};
use proptest::prelude::*;
use serde::{Deserialize, Serialize};
use serde_json::Value;

const C37_PL: &str = include_str!("../../prolog/c37.pl");

pub const ALGOS: &[&str] = &["sha256", "sha384", "sha512", "sha512_256", "sha3_224", "sha3_256", "sha3_384", "sha3_512", "blake2s256", "blake2b512", "ripemd160"];

#[derive(Clone, Debug, Serialize, Deserialize)]
pub enum Case {
    Hash {
        /// the data, as characters (char codes)
        data: Vec<u32>,
        algo: String,
        /// None = option omitted (default utf8), Some(true) = encoding(octet), Some(false) = encoding(utf8)
        octet: Option<bool>,
        hmac: Option<Vec<u8>>,
        /// 0: compute; 1: verify the right hash; 2: verify a corrupted hash (digit `pos` changed)
        verify: u8,
        pos: u16,
        /// give the algorithm as algorithm(A) option, or rely on the default (sha256 only)
        default_algo: bool,
    },
    Hex { bytes: Vec<u8>, upper: Vec<bool> },
    HexBad { text: String },
    B64 { data: Vec<u32>, padding: Option<bool>, url: Option<bool> },
    Utf8 { chars: Vec<u32> },
    Enc { plain: Vec<u32>, octet: Option<bool>, key: Vec<u8>, iv: Vec<u8>, aad: Option<Vec<u32>>, tamper: u8, pos: u16 },
}

fn chars_string(cs: &[u32]) -> Option<String> {
    cs.iter().map(|c| char::from_u32(*c)).collect()
}

fn bytes_term(b: &[u8]) -> T {
    term::list(b.iter().map(|x| term::int(*x)).collect())
}

// ---------------------------------------------------------------------------------------------
// Generators

fn len_strategy() -> BoxedStrategy<usize> {
    prop_oneof![
        6 => 0usize..=150,
        2 => 150usize..=300,
        // around the block sizes
        3 => (any::<u16>(), -2i32..=2).prop_map(|(k, d)| (pick(&[55, 56, 63, 64, 71, 72, 103, 104, 111, 112, 119, 127, 128, 135, 136, 143, 144], k) + d) as usize),
    ]
    .boxed()
}

/// characters <= 255 ("octets")
fn octet_chars() -> BoxedStrategy<Vec<u32>> {
    len_strategy()
        .prop_flat_map(|n| {
            prop_oneof![
                3 => proptest::collection::vec(0u32..=255, n),
                2 => proptest::collection::vec(prop_oneof![4 => 0x20u32..0x7f, 1 => Just(0u32), 1 => 0x80u32..=0xff], n),
                1 => proptest::collection::vec(0x61u32..=0x7a, n),
            ]
        })
        .boxed()
}

/// arbitrary characters (for the UTF-8 paths)
fn any_chars() -> BoxedStrategy<Vec<u32>> {
    len_strategy()
        .prop_flat_map(|n| {
            let ch = prop_oneof![
                5 => 0x20u32..0x7f,
                1 => Just(0u32),
                2 => 0x80u32..=0xff,
                2 => 0x100u32..=0x7ff,
                2 => prop_oneof![0x800u32..=0xd7ff, 0xe000u32..=0xffff],
                2 => 0x10000u32..=0x10ffff,
            ];
            prop_oneof![
                3 => proptest::collection::vec(ch, n),
                1 => proptest::collection::vec(0x20u32..0x7f, n),
            ]
        })
        .boxed()
}

fn key_bytes() -> BoxedStrategy<Vec<u8>> {
    prop_oneof![
        4 => proptest::collection::vec(any::<u8>(), 0..=200),
        2 => (any::<u16>(), -1i32..=1).prop_flat_map(|(k, d)| proptest::collection::vec(any::<u8>(), (pick(&[64, 128], k) + d) as usize)),
    ]
    .boxed()
}

pub fn case_strategy() -> BoxedStrategy<Case> {
    let enc_opt = prop_oneof![2 => Just(None), 3 => Just(Some(true)), 3 => Just(Some(false))];
    let hash = (any::<u16>(), enc_opt.clone(), proptest::option::weighted(0.35, key_bytes()), prop_oneof![5 => Just(0u8), 1 => Just(1u8), 1 => Just(2u8)], any::<u16>(), any::<bool>(), any::<bool>()).prop_flat_map(|(k, octet, hmac, verify, pos, default_algo, wide)| {
        let algo = pick(ALGOS, k).to_string();
        // octet encoding: mostly octets, sometimes (wide) a character beyond 255 -> error expected
        let data = if octet == Some(true) && !wide { octet_chars() } else if octet == Some(true) { any_chars() } else { prop_oneof![any_chars(), octet_chars()].boxed() };
        data.prop_map(move |data| Case::Hash { data, algo: algo.clone(), octet, hmac: hmac.clone(), verify, pos, default_algo: default_algo && algo == "sha256" })
    });
    let hex = proptest::collection::vec(any::<u8>(), 0..=80).prop_flat_map(|bytes| {
        let n = bytes.len() * 2;
        proptest::collection::vec(any::<bool>(), n).prop_map(move |upper| Case::Hex { bytes: bytes.clone(), upper })
    });
    let hex_bad = prop_oneof![
        proptest::collection::vec(any::<u16>(), 0..=10).prop_map(|ks| {
            let mut s: String = ks.iter().map(|k| pick(&"0123456789abcdefABCDEF".chars().collect::<Vec<_>>(), *k)).collect();
            if s.len() % 2 == 0 {
                s.push('a');
            }
            Case::HexBad { text: s }
        }),
        (proptest::collection::vec(any::<u16>(), 1..=10), any::<u16>(), any::<u16>()).prop_map(|(ks, p, b)| {
            let mut cs: Vec<char> = ks.iter().flat_map(|k| [pick(&"0123456789abcdefABCDEF".chars().collect::<Vec<_>>(), *k), '0']).collect();
            let i = (p as usize * cs.len()) >> 16;
            cs[i] = pick(&['g', 'G', 'x', ' ', '-', 'z', '\u{e9}', '/', ':', '@', '`'], b);
            Case::HexBad { text: cs.into_iter().collect() }
        }),
    ];
    let opt_bool = prop_oneof![Just(None), Just(Some(true)), Just(Some(false))];
    let b64 = (prop_oneof![8 => octet_chars(), 1 => any_chars()], opt_bool.clone(), opt_bool.clone()).prop_map(|(data, padding, url)| Case::B64 { data, padding, url });
    let utf8 = any_chars().prop_map(|chars| Case::Utf8 { chars });
    let enc = (enc_opt, any::<bool>(), proptest::collection::vec(any::<u8>(), 32), proptest::collection::vec(any::<u8>(), 12), proptest::option::weighted(0.5, any::<bool>()), 0u8..=5, any::<u16>()).prop_flat_map(|(octet, wide, key, iv, aad, tamper, pos)| {
        let mk = move || if octet == Some(true) && !wide { octet_chars() } else if octet == Some(true) { any_chars() } else { prop_oneof![any_chars(), octet_chars()].boxed() };
        let aad_s = match aad {
            None => Just(None).boxed(),
            Some(_) => mk().prop_map(|v| Some(v.into_iter().take(40).collect::<Vec<u32>>())).boxed(),
        };
        (mk(), aad_s).prop_map(move |(plain, aad)| Case::Enc { plain, octet, key: key.clone(), iv: iv.clone(), aad, tamper, pos })
    });
    prop_oneof![10 => hash, 2 => hex, 1 => hex_bad, 3 => b64, 2 => utf8, 4 => enc].boxed()
}

// ---------------------------------------------------------------------------------------------
// Check

pub struct Env {
    pub s: Session,
    pub py: Option<PyHash>,
}

pub fn mk_env() -> Env {
    self_test();
    let mut s = Session::new(&["crypto", "charsio", "lists"]);
    assert!(s.consult(C37_PL, "c37"), "c37.pl failed to load");
    Env { s, py: PyHash::spawn() }
}

enum Res {
    Ok(Vec<T>),
    Failed,
    Ex(T),
    None,
}

fn decode_res(t: &T) -> Option<Res> {
    match t {
        T::Atom(a) if a == "failed" => Some(Res::Failed),
        T::Atom(a) if a == "none" => Some(Res::None),
        T::Atom(a) if a == "ok" => Some(Res::Ok(vec![])),
        T::Cmp(n, a) if n == "ok" => Some(Res::Ok(a.clone())),
        T::Cmp(n, a) if n == "ex" && a.len() == 1 => Some(Res::Ex(a[0].clone())),
        _ => None,
    }
}

impl Res {
    fn show(&self) -> String {
        match self {
            Res::Ok(a) => format!("ok({})", short(&a.iter().map(|t| t.text()).collect::<Vec<_>>().join(","))),
            Res::Failed => "failure".into(),
            Res::Ex(b) => format!("exception {}", short(&b.text())),
            Res::None => "none".into(),
        }
    }
    fn is_error(&self) -> bool {
        matches!(self, Res::Ex(T::Cmp(n, a)) if n == "error" && a.len() == 2)
    }
}

fn problem(o: &Outcome, what: &str) -> Option<Verdict> {
    match o {
        Outcome::Panic(m) => Some(Verdict::fail(format!("panic:{}", m.split_whitespace().next().unwrap_or("?")), format!("{what}: {m}"))),
        Outcome::Harness(m) => Some(Verdict::Discard(format!("harness:{}", m.chars().take(40).collect::<String>()))),
        _ => None,
    }
}

/// run `goal` whose variable Rr is the reified result r(R1,...)/Rn or a single result
fn run(env: &mut Env, goal: &str, what: &str) -> Result<Vec<Res>, Verdict> {
    let o = env.s.ask_once(goal, "Rr");
    if let Some(v) = problem(&o, what) {
        return Err(v);
    }
    match &o {
        Outcome::Sols(v) if v.len() == 1 => match &v[0] {
            T::Cmp(n, a) if n == "r" => a.iter().map(decode_res).collect::<Option<Vec<_>>>().ok_or(Verdict::Discard("harness:shape".into())),
            t => decode_res(t).map(|r| vec![r]).ok_or(Verdict::Discard("harness:shape".into())),
        },
        other => Err(Verdict::Discard(format!("harness:{}", other.short().chars().take(60).collect::<String>()))),
    }
}

fn to_bytes(data: &[u32], octet: bool) -> Option<Vec<u8>> {
    if octet {
        data.iter().map(|c| u8::try_from(*c).ok()).collect()
    } else {
        chars_string(data).map(|s| s.into_bytes())
    }
}

fn len_class(n: usize) -> &'static str {
    match n {
        0 => "len-0",
        1..=55 => "len-1..55",
        56..=64 => "len-56..64",
        65..=111 => "len-65..111",
        112..=144 => "len-112..144",
        _ => "len-145+",
    }
}

pub fn check(env: &mut Env, case: &Case) -> Verdict {
    match case {
        Case::Hash { data, algo, octet, hmac, verify, pos, default_algo } => {
            let Some(text) = chars_string(data) else { return Verdict::Discard("bad-char-code".into()) };
            let is_octet = *octet == Some(true);
            let bytes = to_bytes(data, is_octet);
            let mut opts: Vec<T> = vec![];
            if !*default_algo || algo != "sha256" {
                opts.push(term::cmp("algorithm", vec![term::atom(algo)]));
            }
            if let Some(o) = octet {
                opts.push(term::cmp("encoding", vec![term::atom(if *o { "octet" } else { "utf8" })]));
            }
            if let Some(k) = hmac {
                opts.push(term::cmp("hmac", vec![bytes_term(k)]));
            }
            let show = format!("crypto_data_hash({}, H, {})", short(&text), short(&term::list(opts.clone()).text()));
            // expected digest
            let expected: Option<Vec<u8>> = match (&bytes, hmac) {
                (None, _) => None, // a character beyond 255 with encoding(octet): error expected
                (Some(b), None) => match sha2_digest(algo, b) {
                    Some(d) => Some(d),
                    None => match env.py.as_mut().and_then(|p| p.digest(algo, b)) {
                        Some(d) => Some(d),
                        None => return Verdict::Discard("no-python-reference".into()),
                    },
                },
                // docs: hmac/1 "is currently supported for algorithms sha256, sha384 and sha512"
                (Some(b), Some(k)) => if matches!(algo.as_str(), "sha256" | "sha384" | "sha512") { hmac_sha2(algo, k, b) } else { None },
            };
            let mut classes: Vec<String> = vec![format!("hash:{algo}"), len_class(bytes.as_ref().map(|b| b.len()).unwrap_or(0)).into()];
            if hmac.is_some() {
                classes.push("hmac".into());
            }
            if is_octet {
                classes.push("octet".into());
            }
            let nonascii = data.iter().any(|c| *c > 127);
            if nonascii {
                classes.push("non-ascii".into());
            }
            let nontrivial = bytes.as_ref().map(|b| b.len() >= block_size(algo)).unwrap_or(false) || nonascii || hmac.as_ref().map(|k| k.len() > block_size(algo)).unwrap_or(false);

            let enc = term::list(vec![T::Str(text.clone()), term::list(opts.clone())]).enc_text();
            // verification mode is documented for HMAC only (crypto_data_hash(+Data, -Hash, +Options))
            let verify = if hmac.is_some() { *verify } else { 0 };
            match (&expected, verify) {
                (None, _) => {
                    // must not produce a hash
                    let r = match run(env, &format!("vp_dec({enc}, [D, Os]), c37_hash(D, Os, Rr)"), &show) {
                        Ok(r) => r,
                        Err(v) => return v,
                    };
                    if bytes.is_none() {
                        classes.push("error:octet-char-beyond-255".into());
                        if !r[0].is_error() {
                            return Verdict::fail("no-error:octet-char-beyond-255", format!("{show} gave {} (a character > 255 has no byte value: an error is required)", r[0].show()));
                        }
                    } else {
                        classes.push("hmac-unsupported-algorithm".into());
                        if matches!(r[0], Res::Ok(_)) {
                            return Verdict::fail("hmac-unsupported-algorithm-succeeds", format!("{show} gave {} although HMAC is documented for sha256/sha384/sha512 only", r[0].show()));
                        }
                    }
                }
                (Some(d), 0) => {
                    let r = match run(env, &format!("vp_dec({enc}, [D, Os]), c37_hash(D, Os, Rr)"), &show) {
                        Ok(r) => r,
                        Err(v) => return v,
                    };
                    let want = hex_lower(d);
                    match &r[0] {
                        Res::Ok(a) if a.len() == 1 && chars_of(&a[0]).as_deref() == Some(want.as_str()) => {}
                        Res::Ok(a) if a.len() == 1 && chars_of(&a[0]).map(|g| g.to_lowercase() == want).unwrap_or(false) => return Verdict::fail(format!("hash-hex-case:{algo}"), format!("{show} gave {} expected lower-case {want}", r[0].show())),
                        other => return Verdict::fail(format!("wrong-hash:{algo}{}{}", if hmac.is_some() { ":hmac" } else { "" }, if is_octet { ":octet" } else { "" }), format!("{show} gave {} expected {want}", other.show())),
                    }
                }
                (Some(d), v) => {
                    let mut want: Vec<char> = hex_lower(d).chars().collect();
                    if v == 2 {
                        let i = (*pos as usize * want.len()) >> 16;
                        want[i] = if want[i] == '0' { '1' } else { '0' };
                        classes.push("verify-corrupted".into());
                    } else {
                        classes.push("verify-right".into());
                    }
                    let want: String = want.into_iter().collect();
                    let enc = term::list(vec![T::Str(text.clone()), T::Str(want.clone()), term::list(opts.clone())]).enc_text();
                    let r = match run(env, &format!("vp_dec({enc}, [D, H, Os]), c37_verify(D, H, Os, Rr)"), &show) {
                        Ok(r) => r,
                        Err(v) => return v,
                    };
                    match (&r[0], v) {
                        (Res::Ok(_), 1) | (Res::Failed, 2) => {}
                        (other, 1) => return Verdict::fail(format!("verify-rejects-right-hash:{algo}"), format!("{show} with H = {want} gave {}", other.show())),
                        (other, _) => return Verdict::fail(format!("verify-accepts-wrong-hash:{algo}"), format!("{show} with the corrupted H = {want} gave {}", other.show())),
                    }
                }
            }
            let cl: Vec<&str> = classes.iter().map(|s| s.as_str()).collect();
            Verdict::pass(nontrivial, &cl)
        }
        Case::Hex { bytes, upper } => {
            let lower = hex_lower(bytes);
            let mixed: String = lower.chars().enumerate().map(|(i, c)| if upper.get(i).copied().unwrap_or(false) { c.to_ascii_uppercase() } else { c }).collect();
            let enc = term::list(vec![bytes_term(bytes), T::Str(mixed.clone())]).enc_text();
            let r = match run(env, &format!("vp_dec({enc}, [Bs, Hx]), c37_hex(Bs, Hx, Rr)"), "hex_bytes/2") {
                Ok(r) => r,
                Err(v) => return v,
            };
            match &r[0] {
                Res::Ok(a) if a.len() == 1 && chars_of(&a[0]).as_deref() == Some(lower.as_str()) => {}
                Res::Ok(a) if a.len() == 1 && chars_of(&a[0]).map(|g| g.to_lowercase() == lower).unwrap_or(false) => return Verdict::fail("hex-case", format!("hex_bytes(H, {:?}) gave {} expected lower-case {lower}", bytes, r[0].show())),
                other => return Verdict::fail("wrong-hex:encode", format!("hex_bytes(H, {:?}) gave {} expected {lower}", bytes, other.show())),
            }
            match &r[1] {
                Res::Ok(a) if a.len() == 1 && bytes_of(&a[0]).as_deref() == Some(bytes.as_slice()) => {}
                other => return Verdict::fail("wrong-hex:decode", format!("hex_bytes({}, Bs) gave {} expected {:?}", short(&mixed), other.show(), bytes)),
            }
            Verdict::pass(bytes.len() >= 2, &["hex", if mixed != lower { "hex-upper-input" } else { "hex-lower-input" }])
        }
        Case::HexBad { text } => {
            let ok_hex = text.len() % 2 == 0 && text.chars().all(|c| c.is_ascii_hexdigit());
            if ok_hex {
                return Verdict::Discard("hex-valid".into());
            }
            let enc = term::list(vec![bytes_term(&[1]), T::Str(text.clone())]).enc_text();
            let r = match run(env, &format!("vp_dec({enc}, [Bs, Hx]), c37_hex(Bs, Hx, Rr)"), "hex_bytes/2") {
                Ok(r) => r,
                Err(v) => return v,
            };
            if matches!(r[1], Res::Ok(_)) {
                return Verdict::fail("hex-accepts-invalid", format!("hex_bytes({}, Bs) gave {} for a text that is not a hexadecimal sequence", short(text), r[1].show()));
            }
            Verdict::pass(true, &["hex-invalid", if r[1].is_error() { "hex-invalid-error" } else { "hex-invalid-fails" }])
        }
        Case::B64 { data, padding, url } => {
            let Some(text) = chars_string(data) else { return Verdict::Discard("bad-char-code".into()) };
            let bytes = to_bytes(data, true);
            let mut opts = vec![];
            if let Some(p) = padding {
                opts.push(term::cmp("padding", vec![term::atom(if *p { "true" } else { "false" })]));
            }
            if let Some(u) = url {
                opts.push(term::cmp("charset", vec![term::atom(if *u { "url" } else { "standard" })]));
            }
            let (pad, u) = (padding.unwrap_or(true), url.unwrap_or(false));
            let reference = base64(bytes.as_deref().unwrap_or(&[1, 2, 3]), pad, u);
            let enc = term::list(vec![T::Str(text.clone()), T::Str(reference.clone()), term::list(opts.clone())]).enc_text();
            let show = format!("chars_base64({}, B, {})", short(&text), term::list(opts.clone()).text());
            let r = match run(env, &format!("vp_dec({enc}, [Cs, B64, Os]), c37_b64(Cs, B64, Os, Rr)"), &show) {
                Ok(r) => r,
                Err(v) => return v,
            };
            let sub = format!("{}{}", if u { "url" } else { "standard" }, if pad { "" } else { "-nopad" });
            match &bytes {
                None => {
                    if !r[0].is_error() {
                        return Verdict::fail("no-error:base64-char-beyond-255", format!("{show} gave {} (a character > 255 is not an octet: an error is required)", r[0].show()));
                    }
                    return Verdict::pass(true, &["base64", "error:base64-char-beyond-255"]);
                }
                Some(b) => {
                    match &r[0] {
                        Res::Ok(a) if a.len() == 1 && chars_of(&a[0]).as_deref() == Some(reference.as_str()) => {}
                        other => return Verdict::fail(format!("wrong-base64:encode:{sub}"), format!("{show} gave {} expected {}", other.show(), short(&reference))),
                    }
                    match &r[1] {
                        Res::Ok(a) if a.len() == 1 && bytes_of(&a[0]).as_deref() == Some(b.as_slice()) => {}
                        other => return Verdict::fail(format!("wrong-base64:decode:{sub}"), format!("chars_base64(Cs, {}, {}) gave {} expected the bytes {:?}", short(&reference), term::list(opts).text(), other.show(), &b[..b.len().min(40)])),
                    }
                    let special = reference.contains(['+', '/', '-', '_']);
                    let c1 = format!("base64:{sub}");
                    let mut cl = vec!["base64", c1.as_str(), match b.len() % 3 {
                        0 => "base64-rem0",
                        1 => "base64-rem1",
                        _ => "base64-rem2",
                    }];
                    if special {
                        cl.push("base64-62-63");
                    }
                    Verdict::pass(b.len() >= 3 || b.iter().any(|x| *x > 127), &cl)
                }
            }
        }
        Case::Utf8 { chars } => {
            let Some(text) = chars_string(chars) else { return Verdict::Discard("bad-char-code".into()) };
            let bytes = text.as_bytes().to_vec();
            let enc = term::list(vec![T::Str(text.clone()), bytes_term(&bytes)]).enc_text();
            let r = match run(env, &format!("vp_dec({enc}, [Cs, Bs]), c37_utf8(Cs, Bs, Rr)"), "chars_utf8bytes/2") {
                Ok(r) => r,
                Err(v) => return v,
            };
            match &r[0] {
                Res::Ok(a) if a.len() == 1 && bytes_of(&a[0]).as_deref() == Some(bytes.as_slice()) => {}
                other => return Verdict::fail("wrong-utf8:encode", format!("chars_utf8bytes({}, Bs) gave {} expected {:?}", short(&text), other.show(), &bytes[..bytes.len().min(40)])),
            }
            match &r[1] {
                Res::Ok(a) if a.len() == 1 && chars_of(&a[0]).as_deref() == Some(text.as_str()) => {}
                other => return Verdict::fail("wrong-utf8:decode", format!("chars_utf8bytes(Cs, {:?}) gave {} expected {}", &bytes[..bytes.len().min(40)], other.show(), short(&text))),
            }
            let widths: Vec<&str> = [(0x80u32, 0x7ffu32, "utf8-2byte"), (0x800, 0xffff, "utf8-3byte"), (0x10000, 0x10ffff, "utf8-4byte")].iter().filter(|(lo, hi, _)| chars.iter().any(|c| c >= lo && c <= hi)).map(|x| x.2).collect();
            let mut cl = vec!["utf8"];
            cl.extend(widths);
            Verdict::pass(chars.iter().any(|c| *c > 127), &cl)
        }
        Case::Enc { plain, octet, key, iv, aad, tamper, pos } => {
            let Some(text) = chars_string(plain) else { return Verdict::Discard("bad-char-code".into()) };
            if key.len() != 32 || iv.len() != 12 {
                return Verdict::Discard("key-iv-length".into());
            }
            let is_octet = *octet == Some(true);
            let pbytes = to_bytes(plain, is_octet);
            let aad_text = match aad {
                Some(a) => match chars_string(a) {
                    Some(s) => Some(s),
                    None => return Verdict::Discard("bad-char-code".into()),
                },
                None => None,
            };
            let abytes = match aad {
                Some(a) => to_bytes(a, is_octet),
                None => Some(vec![]),
            };
            let mut opts = vec![];
            if let Some(o) = octet {
                opts.push(term::cmp("encoding", vec![term::atom(if *o { "octet" } else { "utf8" })]));
            }
            if let Some(a) = &aad_text {
                opts.push(term::cmp("aad", vec![T::Str(a.clone())]));
            }
            let what = ["ct", "tag", "key", "iv", "aad", "ct"][*tamper as usize % 6];
            let enc = term::list(vec![T::Str(text.clone()), bytes_term(key), bytes_term(iv), term::list(opts.clone())]).enc_text();
            let show = format!("crypto_data_encrypt({}, 'chacha20-poly1305', Key, IV, CT, [tag(Tag)|{}])", short(&text), short(&term::list(opts.clone()).text()));
            let r = match run(env, &format!("vp_dec({enc}, [P, K, I, Os]), c37_enc(P, K, I, Os, t({what}, {pos}), Rr)"), &show) {
                Ok(r) => r,
                Err(v) => return v,
            };
            let (Some(pb), Some(ab)) = (&pbytes, &abytes) else {
                if !r[0].is_error() {
                    return Verdict::fail("no-error:encrypt-octet-char-beyond-255", format!("{show} gave {} (a character > 255 with encoding(octet): an error is required)", r[0].show()));
                }
                return Verdict::pass(true, &["encrypt", "error:encrypt-octet-char-beyond-255"]);
            };
            let k: [u8; 32] = key.as_slice().try_into().unwrap();
            let n: [u8; 12] = iv.as_slice().try_into().unwrap();
            let (ct_ref, tag_ref) = chacha20poly1305_seal(&k, &n, ab, pb);
            match &r[0] {
                Res::Ok(a) if a.len() == 2 => {
                    let (ct, tag) = (bytes_of(&a[0]), bytes_of(&a[1]));
                    if ct.as_deref() != Some(ct_ref.as_slice()) {
                        return Verdict::fail(format!("wrong-ciphertext{}", if is_octet { ":octet" } else { "" }), format!("{show} with key {:?} iv {:?}: ciphertext {} expected (RFC 8439) {:?}", key, iv, short(&a[0].text()), &ct_ref[..ct_ref.len().min(40)]));
                    }
                    if tag.as_deref() != Some(&tag_ref[..]) {
                        return Verdict::fail(format!("wrong-tag{}", if aad.is_some() { ":aad" } else { "" }), format!("{show} with key {:?} iv {:?}: tag {} expected (RFC 8439) {:?}", key, iv, short(&a[1].text()), tag_ref));
                    }
                }
                other => return Verdict::fail("encrypt-failed", format!("{show} gave {}", other.show())),
            }
            // decryption gives the plaintext back: as characters of the requested encoding
            let want_plain: String = if is_octet { pb.iter().map(|b| *b as char).collect() } else { text.clone() };
            match &r[1] {
                Res::Ok(a) if a.len() == 1 && chars_of(&a[0]).as_deref() == Some(want_plain.as_str()) => {}
                other => return Verdict::fail(format!("wrong-decrypt{}", if is_octet { ":octet" } else { "" }), format!("decrypting the result of {show} gave {} expected {}", other.show(), short(&want_plain))),
            }
            let mut cl = vec!["encrypt".to_string(), len_class(pb.len()).to_string()];
            match &r[2] {
                Res::None => cl.push("tamper-skipped-empty".into()),
                Res::Ok(a) => return Verdict::fail(format!("tampered-accepted:{what}"), format!("after {show}, decryption with a modified {what} succeeded with {}", short(&a.iter().map(|t| t.text()).collect::<Vec<_>>().join(",")))),
                Res::Failed => cl.push(format!("tamper-{what}-fails")),
                Res::Ex(_) => cl.push(format!("tamper-{what}-raises")),
            }
            if is_octet {
                cl.push("octet".into());
            }
            if aad.is_some() {
                cl.push("aad".into());
            }
            let nonascii = plain.iter().any(|c| *c > 127);
            if nonascii {
                cl.push("non-ascii".into());
            }
            let c: Vec<&str> = cl.iter().map(|s| s.as_str()).collect();
            Verdict::pass(pb.len() >= 64 || nonascii, &c)
        }
    }
}

pub struct C37;

impl Prop for C37 {
    fn id(&self) -> &'static str {
        "C37"
    }
    fn rule(&self) -> &'static str {
        "character/byte sequences of length 0-300 (lengths 0-150 and the block boundaries 55/56/63/64/71/72/103/104/111/112/127/128/135/136/143/144 +-2 emphasised; bytes >= 128, NUL, characters > 255 for the UTF-8 paths) through crypto_data_hash/3 for all 11 algorithms with encoding(utf8|octet|default), hmac(Key) (keys 0-200 bytes, around 64/128) incl. verification mode with the right and a corrupted hash; hex_bytes/2 both directions (mixed-case input, malformed input); chars_base64/3 both directions with padding(Bool) x charset(standard|url); chars_utf8bytes/2 both directions; crypto_data_encrypt/6 -> crypto_data_decrypt/6 with random 32-byte keys, 12-byte nonces, optional AAD, plus decryption of a tampered ciphertext/tag/key/nonce/AAD; non-trivial = data of at least one block of the algorithm, or non-ASCII data, or an HMAC key longer than the block (encodings: >= 3 bytes or a byte > 127); distinct by case encoding"
    }
    fn assumptions(&self) -> Vec<String> {
        let py = PyHash::spawn().is_some();
        vec![
            "SHA-256/384/512/512-256 and HMAC: RustCrypto sha2 crate + RFC 2104 written out in the harness (scryer uses ring); self-tested on RFC 4231 case 2".into(),
            if py { "SHA-3, BLAKE2, RIPEMD-160: CPython hashlib through one python3 child per environment (scryer uses the RustCrypto crates)".into() } else { "python3/hashlib NOT available: SHA-3, BLAKE2 and RIPEMD-160 cases are discarded (no independent reference)".into() },
            "ChaCha20-Poly1305: RFC 8439 written out in the harness (self-tested on the RFC's section 2.8.2 vector), so ciphertext and tag are compared byte for byte, beyond the round trip the statement asks for".into(),
            "hex and base64 by the harness's own encoders (RFC 4648); hash and hex_bytes output is expected in lower case as in the documentation's examples".into(),
            "HMAC with an algorithm outside sha256/sha384/sha512 only must not succeed; malformed hex only must not succeed; decoding is only exercised on well-formed base64 / UTF-8".into(),
        ]
    }
    fn run_shard(&self, cfg: &ShardCfg) -> ShardResult {
        let mut d = Driver::new(cfg, "C37");
        let n = cfg.share(cfg.tier.pick(6_000, 300_000));
        d.run("crypto", 0, n, 1500, case_strategy(), &mk_env, &check);
        d.finish()
    }
    /// a fresh environment loads library(crypto) (and with it clpz): shrinking a failure costs up
    /// to 400 of those, so the watchdog is generous (it only matters when something fails)
    fn watchdog_s(&self, tier: Tier) -> u64 {
        tier.pick(3600, 14400)
    }
    fn replay(&self, _kind: &str, case: &Value) -> Verdict {
        replay_case::<Case, Env>(case, &mk_env, &check)
    }
}
