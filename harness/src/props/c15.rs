//! C15 — Printed terms read back as the same term.
use crate::engine::*;
use crate::shared::pgen::*;
use crate::shared::printer::*;
use crate::term::T;
use proptest::prelude::*;
use serde::{Deserialize, Serialize};
use serde_json::{json, Value};

#[derive(Clone, Debug, Serialize, Deserialize)]
pub struct Case {
    /// op/3 declarations installed before the terms are written (empty = default table)
    pub ops: Vec<OpDecl>,
    /// build strings / character-list prefixes as packed strings (true) or list cells (false)
    pub pstr: bool,
    pub terms: Vec<T>,
}

/// stream writers: (tag, writer spec for vpp_stream_write/2, numbervars(true)?)
const STREAM_WRITERS: &[(&str, &str, bool)] = &[
    ("writeq", "writeq", true),
    ("write_canonical", "write_canonical", false),
    ("write_term-q", "wt([quoted(true)])", false),
    ("write_term-q-ignore_ops", "wt([quoted(true),ignore_ops(true)])", false),
    ("write_term-q-dq", "wt([quoted(true),double_quotes(true)])", false),
    ("write_term-q-nv-md0", "wt([max_depth(0),numbervars(true),quoted(true)])", true),
];

/// write_term_to_chars/3 option lists
const CHARS_WRITERS: &[(&str, &str, bool)] = &[
    ("chars-q", "[quoted(true)]", false),
    ("chars-q-ignore_ops-dq", "[quoted(true),ignore_ops(true),double_quotes(true),max_depth(0)]", false),
    ("chars-q-nv", "[quoted(true),numbervars(true)]", true),
];

/// '$VAR'(N) with a non-negative integer N: written as a letter under numbervars(true), which
/// by definition does not read back
fn has_numbervar(t: &T) -> bool {
    any_sub(t, &|s| matches!(s, T::Cmp(n, a) if n == "$VAR" && a.len() == 1 && matches!(&a[0], T::Int(i) if !crate::num::is_neg(i))))
}

fn keep_name(env: &PEnv, n: &str) -> bool {
    env.is_op(n) || matches!(n, "[]" | "{}" | "!" | ";" | "," | "|" | "''" | "'" | "" | "$VAR" | "." | "-" | "+")
}

#[derive(Default)]
struct Feat {
    op_operand: bool,
    neg_operand: bool,
    quoted_atom: bool,
    user_op: bool,
    op_app: bool,
    op_atom: bool,
    curly: bool,
    string: bool,
    partial_list: bool,
    var: bool,
    float: bool,
    bigint: bool,
    numbervar: bool,
}

fn is_op_app(env: &PEnv, t: &T) -> bool {
    match t {
        T::Cmp(n, a) => {
            let (pre, inf, post) = env.op_kinds(n);
            (a.len() == 1 && (pre || post)) || (a.len() == 2 && inf)
        }
        _ => false,
    }
}

fn feats(env: &PEnv, user: &[OpDecl], t: &T, f: &mut Feat) {
    match t {
        T::Var(_) => f.var = true,
        T::Atom(a) => {
            if !is_plain_ident(a) && a != "[]" {
                f.quoted_atom = true;
            }
            if env.is_op(a) {
                f.op_atom = true;
            }
            if user.iter().any(|u| &u.name == a) && env.is_op(a) {
                f.user_op = true;
            }
        }
        T::Int(i) => {
            if crate::num::bit_len(i) > 55 {
                f.bigint = true
            }
        }
        T::Float(_) => f.float = true,
        T::Str(_) => f.string = true,
        T::Rat(..) => {}
        T::PList(items, tail) => {
            if !tail.is_nil() {
                f.partial_list = true;
            }
            for i in items {
                feats(env, user, i, f);
            }
            feats(env, user, tail, f);
        }
        T::Cmp(n, args) => {
            if !is_plain_ident(n) {
                f.quoted_atom = true;
            }
            if n == "{}" && args.len() == 1 {
                f.curly = true;
            }
            if is_op_app(env, t) {
                f.op_app = true;
                if user.iter().any(|u| &u.name == n) {
                    f.user_op = true;
                }
                for a in args {
                    match a {
                        T::Atom(x) if env.is_op(x) => f.op_operand = true,
                        T::Int(i) if crate::num::is_neg(i) => f.neg_operand = true,
                        T::Float(x) if x.is_sign_negative() => f.neg_operand = true,
                        c @ T::Cmp(..) if is_op_app(env, c) => f.op_operand = true,
                        _ => {}
                    }
                }
            }
            for a in args {
                feats(env, user, a, f);
            }
        }
    }
}

fn perr(tag: &str, e: PErr, t: &T) -> Verdict {
    match e {
        PErr::Panic(m) => Verdict::fail(format!("panic:{}", m.split_whitespace().next().unwrap_or("?")), format!("{tag}: term {} : {m}", t.text())),
        PErr::Harness(m) => Verdict::Discard(format!("harness:{}", m.chars().take(60).collect::<String>())),
    }
}

thread_local! {
    /// the text of the last writer result that `judge` rejected (for repair-based attribution)
    static LAST_BAD_TEXT: std::cell::RefCell<Option<String>> = const { std::cell::RefCell::new(None) };
}

/// one writer result -> None (fine) or a failure
fn judge(env: &PEnv, tag: &str, t: &T, text: &str, rd: &Read1) -> Option<Verdict> {
    let keep = |n: &str| keep_name(env, n);
    if !matches!(rd, Read1::Ok(t2) if same_term(t, t2)) {
        LAST_BAD_TEXT.with(|l| *l.borrow_mut() = Some(text.to_string()));
    }
    match rd {
        Read1::Ok(t2) => {
            if same_term(t, t2) {
                None
            } else {
                Some(Verdict::fail(format!("rt-mismatch:{tag}:{}", shape(t, &keep)), format!("{tag} wrote {} as {:?} which reads back as {}", t.text(), text, t2.text())))
            }
        }
        Read1::Ex(ball) => {
            let what = match ball {
                T::Cmp(n, a) if n == "error" && a.len() == 2 => match &a[0] {
                    T::Cmp(k, _) => k.clone(),
                    T::Atom(k) => k.clone(),
                    _ => "error".into(),
                },
                _ => "ball".into(),
            };
            Some(Verdict::fail(format!("rt-{what}:{tag}:{}", shape(t, &keep)), format!("{tag} wrote {} as {:?} which does not read back: {}", t.text(), text, ball.text())))
        }
    }
}

/// Known defect families: (signature, neutralise). `neutralise` returns the term with the
/// family's trigger replaced by something benign when the trigger occurs in it. A failure
/// is attributed to a family only if the neutralised term passes every writer.
type Family = (&'static str, fn(&PEnv, &T) -> Option<T>);

fn rename_symbol(t: &T, from: &str, to: &str) -> Option<T> {
    let mut syms = vec![];
    symbols(t, &mut syms);
    if !syms.iter().any(|(n, _)| n == from) {
        return None;
    }
    Some(map_term(t, &|s| match s {
        T::Atom(a) if a == from => Some(T::Atom(to.into())),
        T::Cmp(n, args) if n == from => Some(T::Cmp(to.into(), args.iter().map(|a| rename_symbol(a, from, to).unwrap_or_else(|| a.clone())).collect())),
        _ => None,
    }))
}

const FAMILIES: &[Family] = &[
    // the atom whose text is two apostrophes is written as '' (the empty atom)
    ("apos2:atom-of-two-apostrophes-written-as-empty-atom", |_, t| rename_symbol(t, "''", "'")),
    // reader: an fy or xfy operator of priority exactly 999 cannot be reduced in an argument
    // position (affirm_fy/affirm_xfy use `<` against the context priority 999)
    ("reader-999:fy-or-xfy-operator-of-priority-999-not-accepted-as-argument", |env, t| {
        let is999 = |s: &T| match s {
            T::Cmp(n, a) => env.ops.iter().any(|o| &o.name == n && o.p == 999 && ((a.len() == 1 && o.spec == "fy") || (a.len() == 2 && o.spec == "xfy"))),
            _ => false,
        };
        if any_sub(t, &is999) {
            Some(map_term(t, &|s| if is999(s) { Some(T::Atom("x".into())) } else { None }))
        } else {
            None
        }
    }),
    // writer (ignore_ops): [V,"ab"||V] with a packed string whose tail is the variable that is
    // the head of the enclosing list cell: tail and rest of the enclosing list are swapped
    ("pstr-shared-tail:ignore_ops-writer-swaps-the-variable-tail-of-a-packed-string-with-the-rest-of-the-enclosing-list", |_, t| fresh_pstr_tails(t)),
    // writer: the right operand of an infix `|` operator that is a list loses its bracket
    // (the "[a|[b]] is [a,b]" rewrite fires on the bar of the operator)
    ("bar-op-list:list-as-right-operand-of-infix-bar-operator-written-as-comma-sequence", |env, t| {
        if !env.op_kinds("|").1 {
            return None;
        }
        let hit = |s: &T| matches!(s, T::Cmp(n, a) if n == "|" && a.len() == 2 && matches!(a[1].norm(), T::PList(..)));
        if any_sub(t, &hit) {
            Some(map_term(t, &|s| match s {
                T::Cmp(n, a) if hit(s) => Some(T::Cmp(n.clone(), vec![a[0].clone(), T::Atom("x".into())])),
                _ => None,
            }))
        } else {
            None
        }
    }),
];

/// Repair family: a space is missing between a prefix operator and the '(' of its bracketed
/// operand, so the text reads as functional notation. Candidates: the text with a space
/// inserted before 1..=3 of the '(' that directly follow a non-layout, non-bracket character.
fn paren_space_repairs(text: &str) -> Vec<String> {
    let cs: Vec<char> = text.chars().collect();
    let pos: Vec<usize> = (1..cs.len()).filter(|&i| cs[i] == '(' && !matches!(cs[i - 1], ' ' | '(' | ',' | '[' | '{' | '|')).take(10).collect();
    let build = |sel: &[usize]| -> String {
        let mut s = String::new();
        for (i, c) in cs.iter().enumerate() {
            if sel.contains(&i) {
                s.push(' ');
            }
            s.push(*c);
        }
        s
    };
    let mut out = vec![];
    for (a, &i) in pos.iter().enumerate() {
        out.push(build(&[i]));
        for (b, &j) in pos.iter().enumerate().skip(a + 1) {
            out.push(build(&[i, j]));
            for &k in pos.iter().skip(b + 1) {
                out.push(build(&[i, j, k]));
            }
        }
    }
    out
}

const PAREN_FAMILY: &str = "prefix-op-paren:no-space-between-prefix-operator-and-open-paren-of-leftmost-bracketed-operator-atom";

/// How `t` fares: Some(false) = passes every writer, Some(true) = fails, but the rejected
/// text reads back as `t` after the paren-space repair, None = fails otherwise.
fn passes_modulo_repair(env: &mut PEnv, t: &T, pstr: bool) -> Option<bool> {
    LAST_BAD_TEXT.with(|l| *l.borrow_mut() = None);
    match check_term_raw(env, t, pstr) {
        Ok(()) => Some(false),
        Err(Verdict::Fail { signature, .. }) if !signature.starts_with("panic") => {
            let text = LAST_BAD_TEXT.with(|l| l.borrow_mut().take())?;
            let cands = paren_space_repairs(&text);
            if cands.is_empty() {
                return None;
            }
            let rds = env.readback(&cands).ok()?;
            if rds.iter().any(|r| matches!(r, Read1::Ok(t2) if same_term(t, t2))) {
                Some(true)
            } else {
                None
            }
        }
        Err(_) => None,
    }
}

/// check one term; a failure is attributed to a known defect family where possible
fn check_term(env: &mut PEnv, t: &T, pstr: bool) -> Result<(), Verdict> {
    LAST_BAD_TEXT.with(|l| *l.borrow_mut() = None);
    match check_term_raw(env, t, pstr) {
        Err(Verdict::Fail { signature, detail }) if !signature.starts_with("panic") => {
            // repair-based attribution: the rejected text with spaces inserted reads back as the term
            if passes_modulo_repair(env, t, pstr) == Some(true) {
                return Err(Verdict::fail(PAREN_FAMILY, detail));
            }
            // substitution-based attribution: one family's trigger neutralised
            for (fam, neutralise) in FAMILIES {
                if let Some(t2) = neutralise(env, t) {
                    if passes_modulo_repair(env, &t2, pstr) == Some(false) {
                        return Err(Verdict::fail(*fam, detail));
                    }
                }
            }
            // several known families at once: all triggers neutralised (attributed to the first)
            let mut cur = t.clone();
            let mut first: Option<&'static str> = None;
            for (fam, neutralise) in FAMILIES {
                if let Some(t2) = neutralise(env, &cur) {
                    cur = t2;
                    first.get_or_insert(*fam);
                }
            }
            if let Some(fam) = first {
                if passes_modulo_repair(env, &cur, pstr).is_some() {
                    return Err(Verdict::fail(fam, detail));
                }
            }
            Err(Verdict::Fail { signature, detail })
        }
        other => other,
    }
}

/// Ok(()) or the first failure / discard
fn check_term_raw(env: &mut PEnv, t: &T, pstr: bool) -> Result<(), Verdict> {
    let nv = has_numbervar(t);
    // in-memory writer, read back in the same query; also returns the term as constructed
    let cw: Vec<&(&str, &str, bool)> = CHARS_WRITERS.iter().filter(|w| !(w.2 && nv)).collect();
    let optss: Vec<&str> = cw.iter().map(|w| w.1).collect();
    let (orig, rs) = env.chars_rt(pstr, t, &optss).map_err(|e| perr("write_term_to_chars", e, t))?;
    if !orig.norm().canon_vars().eq_struct(&t.norm().canon_vars()) {
        if let Ok(path) = std::env::var("VERIF_C15_SURVEY") {
            use std::io::Write;
            if let Ok(mut fh) = std::fs::OpenOptions::new().create(true).append(true).open(path) {
                let _ = writeln!(fh, "construction\t{} => {}", t.text(), orig.text());
            }
        }
        return Err(Verdict::Discard("construction".into()));
    }
    for (w, r) in cw.iter().zip(rs.iter()) {
        match r {
            Ok((text, rd)) => {
                if let Some(v) = judge(env, w.0, t, text, rd) {
                    return Err(v);
                }
            }
            Err(ball) => {
                let keep = |n: &str| keep_name(env, n);
                return Err(Verdict::fail(format!("write-error:{}:{}", w.0, shape(t, &keep)), format!("{} raised {} for {}", w.0, ball.text(), t.text())));
            }
        }
    }
    // the stream writers
    let sw: Vec<&(&str, &str, bool)> = STREAM_WRITERS.iter().filter(|w| !(w.2 && nv)).collect();
    let specs: Vec<&str> = sw.iter().map(|w| w.1).collect();
    let texts = env.emit(pstr, t, &specs).map_err(|e| perr("stream writers", e, t))?;
    for (w, text) in sw.iter().zip(texts.iter()) {
        if text.starts_with('\u{2}') {
            let keep = |n: &str| keep_name(env, n);
            return Err(Verdict::fail(format!("write-error:{}:{}", w.0, shape(t, &keep)), format!("{} raised {} for {}", w.0, &text[1..], t.text())));
        }
    }
    let rds = env.readback(&texts).map_err(|e| perr("read back", e, t))?;
    for ((w, text), rd) in sw.iter().zip(texts.iter()).zip(rds.iter()) {
        if let Some(v) = judge(env, w.0, t, text, rd) {
            return Err(v);
        }
    }
    Ok(())
}

pub fn check(env: &mut PEnv, c: &Case) -> Verdict {
    if !c.ops.is_empty() {
        if let Err(e) = env.install_ops(&c.ops) {
            return perr("op/3", e, &T::Atom("ops".into()));
        }
    }
    let mut f = Feat::default();
    let mut tolerated = false;
    for t in &c.terms {
        if let Err(v) = check_term(env, t, c.pstr) {
            // name the user operators that occur in the term
            let v = match v {
                Verdict::Fail { signature, detail } if !c.ops.is_empty() => {
                    let mut syms = vec![];
                    symbols(t, &mut syms);
                    let used: Vec<String> = env.ops.iter().filter(|o| c.ops.iter().any(|u| u.name == o.name) && syms.iter().any(|(n, _)| n == &o.name)).map(|o| format!("op({},{},{})", o.p, o.spec, crate::term::write_atom(&o.name))).collect();
                    Verdict::Fail { signature, detail: format!("{detail} [operators in effect for the symbols of the term: {}]", used.join(" ")) }
                }
                other => other,
            };
            // a known open finding does not end the case: count it and go on with the next term
            if let Verdict::Fail { signature, .. } = &v {
                if is_known_open(signature) {
                    note_tolerated(signature);
                    tolerated = true;
                    continue;
                }
            }
            // development aid: VERIF_C15_SURVEY=<file> logs failures instead of stopping at them
            if let (Ok(path), Verdict::Fail { signature, detail }) = (std::env::var("VERIF_C15_SURVEY"), &v) {
                use std::io::Write;
                if let Ok(mut fh) = std::fs::OpenOptions::new().create(true).append(true).open(path) {
                    let _ = fh.write_all(format!("{signature}\t{detail}\n").as_bytes());
                }
                if signature.starts_with("panic") {
                    return v;
                }
                continue;
            }
            return v;
        }
        feats(env, &c.ops, t, &mut f);
        if has_numbervar(t) {
            f.numbervar = true;
        }
    }
    let mut classes: Vec<&str> = vec![];
    for (b, n) in [
        (f.op_app, "operator-application"),
        (f.op_operand, "operator-as-operand"),
        (f.neg_operand, "negative-number-operand"),
        (f.quoted_atom, "non-identifier-atom"),
        (f.op_atom, "operator-as-atom"),
        (f.user_op, "user-operator"),
        (f.curly, "curly"),
        (f.string, "string"),
        (f.partial_list, "partial-list"),
        (f.var, "variable"),
        (f.float, "float"),
        (f.bigint, "bigint"),
        (f.numbervar, "numbervar-term(writeq-excluded)"),
        (c.pstr, "packed-strings"),
        (!c.ops.is_empty(), "user-table"),
        (tolerated, "has-term-hitting-known-finding"),
    ] {
        if b {
            classes.push(n);
        }
    }
    Verdict::pass(f.op_operand || f.neg_operand || f.quoted_atom || f.user_op, &classes)
}

/// -0.0 cannot be constructed on the machine (the float table interns it as 0.0; `X is -(0.0)`
/// gives 0.0), so the generator does not produce it
fn no_neg_zero(t: T) -> T {
    map_term(&t, &|s| match s {
        T::Float(f) if f.to_bits() == (-0.0f64).to_bits() => Some(T::Float(0.0)),
        _ => None,
    })
}

fn default_case() -> BoxedStrategy<Case> {
    (any::<bool>(), pterm(&[], 5, 40)).prop_map(|(pstr, t)| Case { ops: vec![], pstr, terms: vec![no_neg_zero(t)] }).boxed()
}

fn table_case(nterms: usize) -> BoxedStrategy<Case> {
    op_table()
        .prop_flat_map(move |ops| {
            let names: Vec<String> = ops.iter().map(|o| o.name.clone()).collect();
            (Just(ops), any::<bool>(), proptest::collection::vec(pterm(&names, 4, 24), nterms..=nterms))
        })
        .prop_map(|(ops, pstr, terms)| Case { ops, pstr, terms: terms.into_iter().map(no_neg_zero).collect() })
        .boxed()
}

pub struct C15;

impl Prop for C15 {
    fn id(&self) -> &'static str {
        "C15"
    }
    fn rule(&self) -> &'static str {
        "terms (<=40 nodes, depth<=5) over default-operator names, reader/printer-special atoms, tricky and random atom texts used as atoms, functors, prefix/infix/postfix operators and operands, small/negative/big integers, all finite floats, {}/1, '$VAR'/1, lists, partial lists, strings (as list cells and as packed strings), variables; each built through atom_codes/=.. (never the reader), written by writeq/1, write_canonical/1, write_term/2 (quoted(true) x ignore_ops/double_quotes/numbervars/max_depth(0)) to a captured user_output and by write_term_to_chars/3, read back with read_term_from_chars/3 and compared (variant, floats bitwise, -0.0 may come back as 0.0); kind `table`: the same on a fresh machine after 0-6 random op/3 declarations; non-trivial = an operator application with an operator or negative-number operand, or an atom that is not a plain identifier, or a user operator; distinct by case encoding"
    }
    fn assumptions(&self) -> Vec<String> {
        vec![
            "print/1 is not defined in this codebase (existence_error) and is therefore not exercised".into(),
            "rationals are excluded: there is no rational literal syntax, `1 rdiv 3` denotes a compound term".into(),
            "writeq/1 and numbervars(true) writers are skipped for terms containing '$VAR'(N), N>=0 (not re-readable by definition)".into(),
            "the reader parses the harness's own canonical query text (functional notation, integer code lists, shortest round-trip float literals); the decoded input term is compared with the case before use".into(),
        ]
    }
    fn run_shard(&self, cfg: &ShardCfg) -> ShardResult {
        let mut d = Driver::new(cfg, "C15");
        let n = cfg.share(cfg.tier.pick(40_000, 2_000_000));
        d.run("default", 0, n, 2000, default_case(), &mk_penv, &check);
        let nt = cfg.share(cfg.tier.pick(200, 10_000));
        d.run("table", 1, nt, 1, table_case(cfg.tier.pick(100, 100)), &mk_penv, &check);
        d.res.extra.insert("tables".into(), json!(nt));
        drain_tolerated(&mut d.res);
        d.finish()
    }
    fn replay(&self, _kind: &str, case: &Value) -> Verdict {
        replay_case::<Case, PEnv>(case, &mk_penv, &check)
    }
}
