//! C03 — Arithmetic does not depend on how the expression reaches is/2.
//!
//! Differential: one expression, many evaluation contexts (tree walker, compiled clause via
//! assertz and via consult, compiled clause with run-time bound sub-expressions, findall,
//! call/1, arithmetic comparison literal vs. called). All must give the same number or an
//! error with the same Formal.
use crate::engine::*;
use crate::gen::*;
use crate::num::*;
use crate::props::c02;
use crate::session::{Outcome, Session};
use crate::shared::aexpr::A;
use crate::shared::numx::{ConvMode, V};
use crate::term::T;
use dashu::integer::IBig;
use proptest::prelude::*;
use serde::{Deserialize, Serialize};
use serde_json::Value;

const HELPER_PL: &str = include_str!("../../prolog/c03.pl");

pub const UN_OPS: &[&str] = &["abs", "-", "+", "cos", "sin", "tan", "log", "exp", "sqrt", "acos", "asin", "atan", "float", "truncate", "round", "ceiling", "floor", "float_integer_part", "float_fractional_part", "sign", "\\"];
pub const BIN_OPS: &[&str] = &["+", "-", "/", "//", "max", "min", "div", "rdiv", "*", "**", "^", ">>", "<<", "/\\", "\\/", "xor", "mod", "rem", "gcd", "atan2"];
pub const CONSTS: &[&str] = &["e", "pi", "epsilon"];
/// operators that cannot raise on small numeric operands (used around a deliberately bad leaf
/// so that the bad leaf is the only possible error of the expression)
pub const SAFE_UN: &[&str] = &["abs", "-", "+", "sign"];
pub const SAFE_BIN: &[&str] = &["+", "-", "*", "max", "min"];
pub const CMP_OPS: &[&str] = &["=:=", "<", "=\\=", ">", "=<", ">="];

#[derive(Clone, Debug, Serialize, Deserialize)]
pub enum Bind {
    /// the variable stays unbound
    Unbound,
    /// bound at run time to this term (a number or a sub-expression, possibly non-evaluable)
    Is(A),
}

#[derive(Clone, Debug, Serialize, Deserialize)]
pub struct Case {
    /// left expression; may contain A::Var(k), k < binds.len()
    pub e: A,
    /// right-hand side of the comparison contexts (no variables)
    pub e2: A,
    /// index into CMP_OPS
    pub cmp: u8,
    pub binds: Vec<Bind>,
}

fn subst(e: &A, binds: &[Bind]) -> A {
    match e {
        A::Var(k) => match binds.get(*k as usize) {
            Some(Bind::Is(t)) => t.clone(),
            _ => A::Var(*k),
        },
        A::Op(n, args) => A::Op(n.clone(), args.iter().map(|a| subst(a, binds)).collect()),
        other => other.clone(),
    }
}

// -------------------------------------------------------------------------------------------
// generators

fn num_leaf() -> BoxedStrategy<A> {
    prop_oneof![
        5 => (-20i64..=20).prop_map(|v| A::I(IBig::from(v))),
        4 => int_strategy().prop_map(A::I),
        2 => (-40i64..=40).prop_map(|v| A::Cloth(IBig::from(v))),
        1 => int_strategy().prop_map(A::Cloth),
        3 => ((-50i64..=50), (1i64..=12)).prop_map(|(n, d)| A::R(IBig::from(n), IBig::from(d))),
        1 => (int_strategy(), int_strategy()).prop_map(|(n, d)| A::R(n, iabs(&d) + IBig::ONE)),
        4 => (-1000i32..=1000, 0u8..=6).prop_map(|(n, s)| A::F((n as f64) / (1u32 << s) as f64)),
        3 => float_strategy().prop_map(A::F),
        1 => any::<u16>().prop_map(|k| A::Op(pick(CONSTS, k).to_string(), vec![])),
    ]
    .boxed()
}

fn small_count() -> BoxedStrategy<A> {
    prop_oneof![(-3i64..=70).prop_map(|v| A::I(IBig::from(v))), (0i64..=12).prop_map(|v| A::Cloth(IBig::from(v))), Just(A::Var(0)), Just(A::Var(1))].boxed()
}

fn leaf_or_var() -> BoxedStrategy<A> {
    prop_oneof![10 => num_leaf(), 3 => (0u8..3).prop_map(A::Var)].boxed()
}

/// any expression over every evaluable functor
fn any_expr() -> BoxedStrategy<A> {
    leaf_or_var()
        .prop_recursive(4, 14, 2, |inner| {
            prop_oneof![
                4 => (any::<u16>(), inner.clone()).prop_map(|(k, a)| A::un(pick(UN_OPS, k), a)),
                8 => (any::<u16>(), inner.clone(), inner.clone()).prop_map(|(k, a, b)| {
                    // sizes explode under ^ and << : those get tame right operands below
                    let ops: Vec<&str> = BIN_OPS.iter().cloned().filter(|o| !matches!(*o, "^" | "<<" | "**")).collect();
                    A::bin(pick(&ops, k), a, b)
                }),
                2 => (any::<u16>(), inner.clone(), small_count()).prop_map(|(k, a, b)| A::bin(pick(&["^", "<<", ">>", "**"], k), a, b)),
                1 => (any::<u16>(), num_leaf(), num_leaf()).prop_map(|(k, a, b)| A::bin(pick(&["**", "^"], k), a, b)),
            ]
        })
        .boxed()
}

const INT_UN: &[&str] = &["abs", "-", "+", "sign", "\\", "truncate", "round", "ceiling", "floor"];
const INT_BIN: &[&str] = &["+", "-", "*", "//", "div", "mod", "rem", "gcd", "min", "max", "/\\", "\\/", "xor", "+", "-", "*"];
const FLT_UN: &[&str] = &["abs", "-", "+", "cos", "sin", "tan", "log", "exp", "sqrt", "acos", "asin", "atan", "float", "truncate", "round", "ceiling", "floor", "float_integer_part", "float_fractional_part", "sign"];
const FLT_BIN: &[&str] = &["+", "-", "/", "max", "min", "*", "**", "^", "atan2", "rdiv"];

fn int_leaf() -> BoxedStrategy<A> {
    prop_oneof![
        4 => (-20i64..=20).prop_map(|v| A::I(IBig::from(v))),
        4 => int_strategy().prop_map(A::I),
        2 => (-40i64..=40).prop_map(|v| A::Cloth(IBig::from(v))),
        1 => int_strategy().prop_map(A::Cloth),
        2 => (0u8..3).prop_map(A::Var),
    ]
    .boxed()
}

/// integer-typed trees: every integer operator on operands that are integers, so that values
/// (not type errors) are what the contexts have to agree on
fn int_expr() -> BoxedStrategy<A> {
    int_leaf()
        .prop_recursive(4, 14, 2, |inner| {
            prop_oneof![
                2 => (any::<u16>(), inner.clone()).prop_map(|(k, a)| A::un(pick(INT_UN, k), a)),
                6 => (any::<u16>(), inner.clone(), inner.clone()).prop_map(|(k, a, b)| A::bin(pick(INT_BIN, k), a, b)),
                2 => (any::<u16>(), inner.clone(), small_count()).prop_map(|(k, a, b)| A::bin(pick(&["^", "<<", ">>"], k), a, b)),
            ]
        })
        .boxed()
}

fn flt_leaf() -> BoxedStrategy<A> {
    prop_oneof![
        5 => (-1000i32..=1000, 0u8..=6).prop_map(|(n, s)| A::F((n as f64) / (1u32 << s) as f64)),
        3 => float_strategy().prop_map(A::F),
        3 => (-20i64..=20).prop_map(|v| A::I(IBig::from(v))),
        1 => int_strategy().prop_map(A::I),
        2 => ((-50i64..=50), (1i64..=12)).prop_map(|(n, d)| A::R(IBig::from(n), IBig::from(d))),
        1 => any::<u16>().prop_map(|k| A::Op(pick(CONSTS, k).to_string(), vec![])),
        2 => (0u8..3).prop_map(A::Var),
    ]
    .boxed()
}

/// trees over the operators that accept floats and rationals
fn flt_expr() -> BoxedStrategy<A> {
    flt_leaf()
        .prop_recursive(4, 14, 2, |inner| {
            prop_oneof![
                3 => (any::<u16>(), inner.clone()).prop_map(|(k, a)| A::un(pick(FLT_UN, k), a)),
                6 => (any::<u16>(), inner.clone(), inner.clone()).prop_map(|(k, a, b)| A::bin(pick(FLT_BIN, k), a, b)),
            ]
        })
        .boxed()
}

/// a single operator applied to leaves: every arm of the two dispatch tables gets many hits
fn single_op() -> BoxedStrategy<A> {
    prop_oneof![
        4 => (any::<u16>(), leaf_or_var()).prop_map(|(k, a)| A::un(pick(UN_OPS, k), a)),
        8 => (any::<u16>(), leaf_or_var(), leaf_or_var()).prop_map(|(k, a, b)| A::bin(pick(BIN_OPS, k), a, b)),
        2 => (any::<u16>(), leaf_or_var(), small_count()).prop_map(|(k, a, b)| A::bin(pick(&["^", "<<", ">>", "**"], k), a, b)),
    ]
    .boxed()
}

fn bad_leaf() -> BoxedStrategy<A> {
    any::<u16>()
        .prop_map(|k| {
            let one = || A::I(IBig::ONE);
            let bads: Vec<A> = vec![
                A::Op("foo".into(), vec![]),
                A::Op("foo".into(), vec![one()]),
                A::Op("foo".into(), vec![one(), one(), one()]),
                A::Raw("[1]".into()),
                A::Raw("[]".into()),
                A::Raw("\"a\"".into()),
                A::Raw("\"\"".into()),
                A::Raw("[1,2]".into()),
                A::Raw("'1'".into()),
                A::Raw("{}".into()),
                A::Raw("'{}'(1)".into()),
                A::Op("sin".into(), vec![one(), one()]),
                A::Op("max".into(), vec![one()]),
                A::Op("pi".into(), vec![one()]),
                A::Op("+".into(), vec![one(), one(), one()]),
                A::Op("is".into(), vec![one(), one()]),
                A::Op("e".into(), vec![one()]),
                A::Op("random".into(), vec![]),
                A::Op("cot".into(), vec![one()]),
                A::Op("truncate".into(), vec![one(), one()]),
            ];
            // the list-like leaves (a known finding) are kept to about one case in ten
            let listy = [3usize, 5, 6, 7];
            let others: Vec<A> = bads.iter().enumerate().filter(|(i, _)| !listy.contains(i)).map(|(_, b)| b.clone()).collect();
            if k % 10 == 0 {
                bads[listy[(k as usize / 10) % listy.len()]].clone()
            } else {
                pick(&others, k)
            }
        })
        .boxed()
}

fn safe_num() -> BoxedStrategy<A> {
    prop_oneof![
        (-20i64..=20).prop_map(|v| A::I(IBig::from(v))),
        (-40i64..=40).prop_map(|v| A::Cloth(IBig::from(v))),
        (-100i32..=100).prop_map(|n| A::F(n as f64 / 4.0)),
        ((-50i64..=50), (1i64..=12)).prop_map(|(n, d)| A::R(IBig::from(n), IBig::from(d))),
        // big, but far from the double range even after three multiplications
        int_strategy().prop_filter("<=130 bits", |v| bit_len(v) <= 130).prop_map(A::I),
    ]
    .boxed()
}

/// an expression whose only possible error is the one bad spot (a non-evaluable leaf, an
/// unbound variable, or a variable bound at run time to a non-evaluable term): the rest uses
/// operators that cannot raise. `spot` is the bad leaf as it appears in the expression.
fn around_bad(spot: BoxedStrategy<A>) -> BoxedStrategy<A> {
    (spot, proptest::collection::vec((any::<u16>(), any::<bool>(), safe_num()), 0..=3))
        .prop_map(|(bad, wraps)| {
            let mut e = bad;
            for (k, left, other) in wraps {
                if k % 4 == 0 {
                    e = A::un(pick(SAFE_UN, k), e);
                } else if left {
                    e = A::bin(pick(SAFE_BIN, k), e, other);
                } else {
                    e = A::bin(pick(SAFE_BIN, k), other, e);
                }
            }
            e
        })
        .boxed()
}

fn binds_numeric() -> BoxedStrategy<Vec<Bind>> {
    let b = prop_oneof![
        5 => num_leaf().prop_map(Bind::Is),
        3 => single_op().prop_map(|e| Bind::Is(strip_vars(&e))),
        1 => any_expr().prop_map(|e| Bind::Is(strip_vars(&e))),
        2 => int_expr().prop_map(|e| Bind::Is(strip_vars(&e))),
        2 => flt_expr().prop_map(|e| Bind::Is(strip_vars(&e))),
        2 => int_strategy().prop_map(|v| Bind::Is(A::I(v))),
    ];
    proptest::collection::vec(b, 3..=3).boxed()
}

/// replace variables by the integer 1 (bindings must themselves be variable free)
fn strip_vars(e: &A) -> A {
    match e {
        A::Var(_) => A::I(IBig::ONE),
        A::Op(n, args) => A::Op(n.clone(), args.iter().map(strip_vars).collect()),
        o => o.clone(),
    }
}

pub fn case_strategy() -> BoxedStrategy<Case> {
    let rhs = prop_oneof![3 => num_leaf(), 1 => single_op().prop_map(|e| strip_vars(&e))];
    // 1. error-free shaped expressions (value-dependent errors only)
    let plain = (prop_oneof![2 => single_op(), 2 => any_expr(), 3 => int_expr(), 3 => flt_expr()], rhs.clone(), any::<u16>(), binds_numeric()).prop_map(|(e, e2, c, binds)| Case { e, e2, cmp: (c % 6) as u8, binds });
    // 2. a literal non-evaluable leaf
    let bad_lit = (around_bad(bad_leaf()), num_leaf(), any::<u16>(), binds_numeric()).prop_map(|(e, e2, c, binds)| Case { e, e2, cmp: (c % 6) as u8, binds });
    // 3. an unbound variable
    let unbound = (around_bad(Just(A::Var(0)).boxed()), num_leaf(), any::<u16>()).prop_map(|(e, e2, c)| Case { e, e2, cmp: (c % 6) as u8, binds: vec![Bind::Unbound] });
    // 4. a variable bound at run time to a non-evaluable term
    let bad_bound = (around_bad(Just(A::Var(0)).boxed()), bad_leaf(), num_leaf(), any::<u16>()).prop_map(|(e, bad, e2, c)| Case { e, e2, cmp: (c % 6) as u8, binds: vec![Bind::Is(bad)] });
    prop_oneof![14 => plain, 3 => bad_lit, 1 => unbound, 2 => bad_bound].boxed()
}

// -------------------------------------------------------------------------------------------
// size guard (there is no value model here: a static upper bound keeps bignums affordable)

const MAX_BITS: u64 = 150_000;
const FLOAT_BITS: u64 = 1100;

/// (upper bound on the bit length of the result were it an integer, result is certainly a float or an error)
fn est(e: &A) -> (u64, bool) {
    match e {
        A::I(v) | A::Cloth(v) => (bit_len(v) as u64 + 1, false),
        A::R(n, d) => (bit_len(n).max(bit_len(d)) as u64 + 1, false),
        A::F(_) => (FLOAT_BITS, true),
        A::Raw(_) | A::Var(_) => (1, false),
        A::Op(_, args) if args.is_empty() => (FLOAT_BITS, true),
        A::Op(op, args) if args.len() == 1 => {
            let (b, f) = est(&args[0]);
            match op.as_str() {
                "cos" | "sin" | "tan" | "log" | "exp" | "sqrt" | "acos" | "asin" | "atan" | "float" | "float_integer_part" | "float_fractional_part" => (FLOAT_BITS, true),
                "truncate" | "round" | "ceiling" | "floor" => (b.max(FLOAT_BITS).saturating_add(1), false),
                _ => (b.saturating_add(1), f),
            }
        }
        A::Op(op, args) if args.len() == 2 => {
            let (a, fa) = est(&args[0]);
            let (b, fb) = est(&args[1]);
            let any_float = fa || fb;
            match op.as_str() {
                "/" | "atan2" => (FLOAT_BITS, true),
                "+" | "-" => (if any_float { FLOAT_BITS } else { a.max(b).saturating_add(1) }, any_float),
                "*" | "rdiv" => (if any_float && op == "*" { FLOAT_BITS } else { a.saturating_add(b) }, any_float && op == "*"),
                "**" => (FLOAT_BITS, true),
                "^" => {
                    if any_float {
                        (FLOAT_BITS, true)
                    } else if b <= 8 {
                        (a.saturating_mul(1u64 << b), false)
                    } else if a <= 2 {
                        // base 0, 1 or -1 (a bit length of at most 1): the power cannot grow
                        (2, false)
                    } else {
                        (u64::MAX, false)
                    }
                }
                "<<" | ">>" => {
                    if b <= 17 {
                        (a.saturating_add(1u64 << b), false)
                    } else if a <= 1 {
                        (1, false)
                    } else {
                        (u64::MAX, false)
                    }
                }
                _ => (a.max(b).saturating_add(1), fa && fb && matches!(op.as_str(), "max" | "min")),
            }
        }
        A::Op(_, args) => (args.iter().map(|a| est(a).0).max().unwrap_or(1), false),
    }
}

fn too_big(e: &A) -> bool {
    fn walk(e: &A) -> bool {
        if est(e).0 > MAX_BITS {
            return true;
        }
        match e {
            A::Op(_, args) => args.iter().any(walk),
            _ => false,
        }
    }
    walk(e)
}

// -------------------------------------------------------------------------------------------
// outcomes

#[derive(Clone, Debug)]
pub enum Res {
    Val(T),
    Failed,
    /// the Formal of error(Formal, _) (or the whole ball when it is not an error/2 term)
    Err(T),
    /// something the transport cannot show (e.g. an integral rational): compared as text
    Opaque(String),
}

#[derive(Clone, Debug)]
pub struct Obs {
    pub ctx: &'static str,
    pub res: Res,
    /// the compiled clause was seen to contain an arithmetic instruction
    pub compiled: bool,
    /// the error surfaced when the clause was added, not when it ran
    pub at_assert: bool,
}

fn same_num(a: &T, b: &T) -> bool {
    match (a, b) {
        (T::Int(x), T::Int(y)) => x == y,
        (T::Float(x), T::Float(y)) => x.to_bits() == y.to_bits(),
        (T::Rat(a, b), T::Rat(c, d)) => a == c && b == d,
        _ => a.eq_struct(b) && !matches!(a, T::Float(_)),
    }
}

fn same_term(a: &T, b: &T) -> bool {
    match (a, b) {
        (T::Cmp(n, xs), T::Cmp(m, ys)) => n == m && xs.len() == ys.len() && xs.iter().zip(ys.iter()).all(|(x, y)| same_term(x, y)),
        (T::Int(_) | T::Float(_) | T::Rat(..), _) => same_num(a, b),
        _ => a.eq_struct(b),
    }
}

fn same_res(a: &Res, b: &Res) -> bool {
    match (a, b) {
        (Res::Val(x), Res::Val(y)) => same_num(x, y),
        (Res::Failed, Res::Failed) => true,
        (Res::Err(x), Res::Err(y)) => same_term(x, y),
        (Res::Opaque(x), Res::Opaque(y)) => x == y,
        _ => false,
    }
}

fn show_res(r: &Res) -> String {
    match r {
        Res::Val(T::Float(f)) => format!("{} [bits {:016x}]", T::Float(*f).text(), f.to_bits()),
        Res::Val(t) => t.text(),
        Res::Failed => "failed".into(),
        Res::Err(t) => format!("error({})", t.text()),
        Res::Opaque(m) => format!("<{m}>"),
    }
}

/// shape of a Formal for signatures: numbers are abstracted to their type
fn shape(t: &T) -> String {
    match t {
        T::Int(_) => "int".into(),
        T::Float(_) => "float".into(),
        T::Rat(..) => "rat".into(),
        T::Var(_) => "_".into(),
        T::Cmp(n, args) if n == "/" && args.len() == 2 => format!("{}/{}", args[0].text(), args[1].text()),
        T::Cmp(n, args) => format!("{}({})", n, args.iter().map(shape).collect::<Vec<_>>().join(",")),
        other => other.text(),
    }
}

fn formal_of(ball: &T) -> T {
    match ball {
        T::Cmp(n, args) if n == "error" && args.len() == 2 => args[0].clone(),
        other => other.clone(),
    }
}

fn opaque_msg(m: &str) -> String {
    if m.contains("unknown tag i/1") {
        "integral rational (passes integer/1, not transportable)".into()
    } else {
        m.chars().take(80).collect()
    }
}

/// decode the reified result of c03_run / c03_goal
fn decode_obs(ctx: &'static str, o: &Outcome) -> Result<Obs, Verdict> {
    match o {
        Outcome::Panic(m) => Err(Verdict::fail(format!("panic:{}", m.split_whitespace().next().unwrap_or("?")), format!("context {ctx}: {m}"))),
        Outcome::Limit => Err(Verdict::Discard("limit".into())),
        Outcome::Harness(m) => Ok(Obs { ctx, res: Res::Opaque(opaque_msg(m)), compiled: false, at_assert: false }),
        Outcome::Ex(b) => Ok(Obs { ctx, res: Res::Err(formal_of(b)), compiled: false, at_assert: false }),
        Outcome::Sols(v) => {
            if v.len() != 1 {
                return Ok(Obs { ctx, res: Res::Failed, compiled: false, at_assert: false });
            }
            match &v[0] {
                T::Cmp(n, a) if n == "asserterr" && a.len() == 1 => Ok(Obs { ctx, res: Res::Err(formal_of(&a[0])), compiled: false, at_assert: true }),
                T::Cmp(n, a) if n == "val" && a.len() == 2 => Ok(Obs { ctx, res: Res::Val(a[1].clone()), compiled: a[0] == T::Atom("yes".into()), at_assert: false }),
                T::Cmp(n, a) if n == "failed" && a.len() == 1 => Ok(Obs { ctx, res: Res::Failed, compiled: a[0] == T::Atom("yes".into()), at_assert: false }),
                T::Cmp(n, a) if n == "runerr" && a.len() == 2 => Ok(Obs { ctx, res: Res::Err(formal_of(&a[1])), compiled: a[0] == T::Atom("yes".into()), at_assert: false }),
                other => Err(Verdict::Discard(format!("harness:unexpected-reply {}", other.text().chars().take(40).collect::<String>()))),
            }
        }
    }
}

pub struct Env {
    pub s: Session,
    pub n: u64,
}

pub fn mk_env() -> Env {
    let mut s = Session::new(&["diag"]);
    s.machine.consult_module_string("user", HELPER_PL);
    let o = s.ask("c03_loaded", "[]");
    assert!(matches!(o, Outcome::Sols(ref v) if v.len() == 1), "c03.pl failed to load: {}", o.short());
    // the float table keeps the first zero it sees (see C02): make it +0.0 everywhere
    let _ = s.ask("X = 0.0", "X");
    Env { s, n: 0 }
}

fn bind_text(b: &Bind) -> String {
    match b {
        Bind::Unbound => "_".into(),
        Bind::Is(t) => t.text(),
    }
}

/// Does the model (C02's, extended) explain every observation once the two zeros are made
/// indistinguishable? Then the disagreement is the known loss of the sign of zero.
fn zero_sign_explains(full: &A, obs: &[Obs]) -> bool {
    let mut models: Vec<c02::Acc> = vec![];
    for zm in [c02::ZeroMode::Ieee, c02::ZeroMode::Pos, c02::ZeroMode::Neg] {
        // conversions as the machine does them (all contexts share them)
        for conv in [ConvMode { dashu_rat: true, dashu_int: true }, ConvMode::default()] {
            let mut fl = c02::Flags { zero_mode: zm, conv, no_alternatives: true, ..c02::Flags::default() };
            if let Ok(acc) = c02::eval(full, &mut fl) {
                models.push(acc);
            }
        }
    }
    if models.is_empty() {
        return false;
    }
    obs.iter().all(|o| match &o.res {
        Res::Val(t) => models.iter().any(|m| m.vals.iter().any(|v: &V| v.matches(t, true))),
        Res::Err(f) => models.iter().any(|m| m.errs.iter().any(|e| e.eq_struct(f))),
        _ => false,
    })
}

/// Errors of the minimal erroring sub-expressions of `e` (evaluated one by one by is/2 on a
/// run-time term): the order in which operands are evaluated is not fixed by the standard, so
/// when an expression has several of these, any of them is a legitimate outcome.
fn minimal_errors(s: &mut Session, e: &A, out: &mut Vec<T>, budget: &mut u32) {
    let before = out.len();
    if let A::Op(_, args) = e {
        for a in args {
            minimal_errors(s, a, out, budget);
        }
    }
    if out.len() > before || *budget == 0 {
        return;
    }
    *budget -= 1;
    let o = s.ask(&format!("E = {}, c03_goal(X is E, X, R)", e.text()), "R");
    if let Ok(Obs { res: Res::Err(f), .. }) = decode_obs("sub", &o) {
        if !out.iter().any(|g| same_term(g, &f)) {
            out.push(f);
        }
    }
}

/// true when every observation is an error and each is the error of some minimal erroring
/// sub-expression, of which there are at least two
fn order_freedom_explains(s: &mut Session, exprs: &[&A], obs: &[Obs]) -> bool {
    if !obs.iter().all(|o| matches!(o.res, Res::Err(_))) {
        return false;
    }
    let mut set = vec![];
    let mut budget = 60;
    for e in exprs {
        minimal_errors(s, e, &mut set, &mut budget);
    }
    set.len() >= 2 && obs.iter().all(|o| matches!(&o.res, Res::Err(f) if set.iter().any(|g| same_term(g, f))))
}

pub fn check(env: &mut Env, c: &Case) -> Verdict {
    env.n += 1;
    let n = env.n;
    let mut vars = vec![];
    c.e.vars(&mut vars);
    if vars.iter().any(|k| *k as usize >= c.binds.len()) {
        return Verdict::Discard("variable-without-binding".into());
    }
    let has_vars = !vars.is_empty();
    let full = subst(&c.e, &c.binds);
    if too_big(&full) || too_big(&c.e2) {
        return Verdict::Discard("size-guard".into());
    }
    let txt_vars = c.e.text();
    let txt = full.text();
    let nb = c.binds.len();
    let var_list: Vec<String> = (0..nb).map(|k| format!("V{k}")).collect();
    let bind_goals: String = c.binds.iter().enumerate().filter_map(|(k, b)| if let Bind::Is(t) = b { Some(format!("V{k} = {}, ", t.text())) } else { None }).collect();
    let call_args: Vec<String> = c.binds.iter().map(bind_text).collect();

    let mut obs: Vec<Obs> = vec![];
    macro_rules! run {
        ($ctx:expr, $goal:expr) => {{
            let o = env.s.ask(&$goal, "R");
            match decode_obs($ctx, &o) {
                Ok(ob) => obs.push(ob),
                Err(v) => return v,
            }
        }};
    }
    // M: the tree walker: the whole expression is a run-time term
    run!("metacall", format!("{bind_goals}E = {txt_vars}, c03_goal(X is E, X, R)"));
    // C: literal in a clause compiled by assertz
    run!("assertz-literal", format!("retractall(c03a(_)), c03_run((c03a(X) :- X is {txt}), c03a/1, c03a(Y), Y, R)"));
    let assert_ok = !obs.last().unwrap().at_assert;
    // V: compiled clause whose variables are bound at call time (number or sub-expression)
    if has_vars {
        let head_vars = var_list.join(",");
        run!("assertz-with-runtime-operands", format!("abolish(c03b/{}), c03_run((c03b(X,{head_vars}) :- X is {txt_vars}), c03b/{}, c03b(Y,{}), Y, R)", nb + 1, nb + 1, call_args.join(",")));
    }
    // F: inside findall/3 in a compiled clause
    run!("findall", format!("retractall(c03f(_)), c03_run((c03f(L) :- findall(X, X is {txt}, L)), c03f/1, c03f(Ys), Ys, R)"));
    if let Some(o) = obs.last_mut() {
        // unwrap the one-element list
        if let Res::Val(T::PList(items, tail)) = &o.res {
            if items.len() == 1 && tail.is_nil() {
                o.res = Res::Val(items[0].clone());
            }
        }
    }
    // G: call/1 of a goal term that contains the expression
    run!("call/1", format!("G = (X is {txt}), c03_goal(call(G), X, R)"));
    // K: literal in a consulted clause (only when assertz accepted the clause: a load-time
    // error would define nothing and upset the following query)
    if assert_ok {
        let pred = format!("c03k_{n}");
        if !env.s.consult(&format!("{pred}(X) :- X is {txt}."), &format!("k{n}")) {
            return Verdict::Discard("consult-rejected".into());
        }
        run!("consulted-literal", format!("c03_compiled({pred}/1, Fl), catch(({pred}(Y) -> R0 = val(Fl, Y) ; R0 = failed(Fl)), B, R0 = runerr(Fl, B)), c03_fix(R0, R)"));
    }

    // ---- all `is` contexts must agree
    let first = obs[0].clone();
    let mut order_free = false;
    let mut disagree: Vec<&Obs> = obs.iter().filter(|o| !same_res(&o.res, &first.res)).collect();
    if !disagree.is_empty() && order_freedom_explains(&mut env.s, &[&full], &obs) {
        order_free = true;
        disagree.clear();
    }
    if !disagree.is_empty() {
        let listing = obs.iter().map(|o| format!("{}{} -> {}", o.ctx, if o.at_assert { " (when the clause was added)" } else { "" }, show_res(&o.res))).collect::<Vec<_>>().join(" ; ");
        let detail = format!("X is {txt_vars} with {} : {listing}", if has_vars { format!("[{}]", c.binds.iter().enumerate().map(|(k, b)| format!("V{k} = {}", bind_text(b))).collect::<Vec<_>>().join(", ")) } else { "no variables".into() });
        if zero_sign_explains(&full, &obs) {
            return Verdict::fail("zero-sign:contexts-disagree", format!("{detail} ; every outcome is what IEEE gives once +0.0 and -0.0 are not told apart at some store"));
        }
        let other = disagree[0];
        let sig = match (&first.res, &other.res) {
            (Res::Err(a), Res::Err(b)) => {
                let mut sh = [shape(a), shape(b)];
                sh.sort();
                format!("error-formal-differs:{}|{}", sh[0], sh[1])
            }
            (Res::Val(_), Res::Val(_)) => format!("value-differs:{}", full.root()),
            (Res::Val(_), Res::Err(f)) | (Res::Err(f), Res::Val(_)) => format!("value-vs-error:{}:{}", full.root(), shape(f)),
            _ => format!("outcome-differs:{}", full.root()),
        };
        return Verdict::fail(sig, detail);
    }

    // ---- comparison contexts: literal in a compiled clause vs. called vs. run-time terms
    let op = CMP_OPS[(c.cmp as usize) % CMP_OPS.len()];
    let qop = crate::term::quote_atom(op);
    let txt2 = c.e2.text();
    let mut cobs: Vec<Obs> = vec![];
    macro_rules! runc {
        ($ctx:expr, $goal:expr) => {{
            let o = env.s.ask(&$goal, "R");
            match decode_obs($ctx, &o) {
                Ok(ob) => cobs.push(ob),
                Err(v) => return v,
            }
        }};
    }
    runc!("cmp-assertz-literal", format!("retractall(c03c), c03_run((c03c :- {qop}({txt},{txt2})), c03c/0, c03c, true, R)"));
    runc!("cmp-call/1", format!("G = {qop}({txt},{txt2}), c03_goal(call(G), true, R)"));
    runc!("cmp-runtime-terms", format!("{bind_goals}E1 = {txt_vars}, E2 = {txt2}, c03_goal({qop}(E1,E2), true, R)"));
    let cfirst = cobs[0].clone();
    let cdis = cobs.iter().any(|o| !same_res(&o.res, &cfirst.res));
    let c_order_free = cdis && order_freedom_explains(&mut env.s, &[&full, &c.e2], &cobs);
    if c_order_free {
        order_free = true;
    }
    if let Some(other) = cobs.iter().find(|o| !c_order_free && !same_res(&o.res, &cfirst.res)) {
        let listing = cobs.iter().map(|o| format!("{}{} -> {}", o.ctx, if o.at_assert { " (when the clause was added)" } else { "" }, show_res(&o.res))).collect::<Vec<_>>().join(" ; ");
        let detail = format!("{txt} {op} {txt2} : {listing}");
        let sig = match (&cfirst.res, &other.res) {
            (Res::Err(a), Res::Err(b)) => {
                let mut sh = [shape(a), shape(b)];
                sh.sort();
                format!("error-formal-differs:{}|{}", sh[0], sh[1])
            }
            _ => format!("comparison-differs:{op}"),
        };
        return Verdict::fail(sig, detail);
    }
    // an error of the left expression must also be the error of the comparison, unless the
    // right expression has one of its own
    if let (Res::Err(f), Res::Err(g)) = (&first.res, &cfirst.res) {
        if !same_term(f, g) && !order_free && !order_freedom_explains(&mut env.s, &[&full, &c.e2], &[first.clone(), cfirst.clone()]) {
            let o2 = env.s.ask(&format!("E = {txt2}, c03_goal(X is E, X, R)"), "R");
            let right_err = matches!(decode_obs("rhs", &o2), Ok(Obs { res: Res::Err(_), .. }));
            if !right_err {
                let mut sh = [shape(f), shape(g)];
                sh.sort();
                return Verdict::fail(format!("error-formal-differs:{}|{}", sh[0], sh[1]), format!("X is {txt} raises {} but {txt} {op} {txt2} raises {}", f.text(), g.text()));
            }
        }
    }
    if let (Res::Err(f), Res::Val(_) | Res::Failed) = (&first.res, &cfirst.res) {
        return Verdict::fail(format!("comparison-swallows-error:{op}"), format!("X is {txt} raises {} but {txt} {op} {txt2} gives {}", f.text(), show_res(&cfirst.res)));
    }

    // ---- accounting
    let compiled_confirmed = obs.iter().any(|o| o.compiled);
    let mut classes: Vec<String> = vec![];
    classes.push(format!("root:{}", full.root()));
    match &first.res {
        Res::Val(T::Int(_)) => classes.push("result:integer".into()),
        Res::Val(T::Float(_)) => classes.push("result:float".into()),
        Res::Val(T::Rat(..)) => classes.push("result:rational".into()),
        Res::Val(_) => classes.push("result:other".into()),
        Res::Failed => classes.push("result:failed".into()),
        Res::Err(f) => classes.push(format!("error:{}", shape(f).split('(').next().unwrap_or("?"))),
        Res::Opaque(_) => classes.push("result:opaque-integral-rational".into()),
    }
    if obs.iter().any(|o| o.at_assert) {
        classes.push("error-at-clause-creation".into());
    }
    if has_vars {
        classes.push("runtime-bound-operands".into());
        if c.binds.iter().any(|b| matches!(b, Bind::Is(A::Op(_, args)) if !args.is_empty())) && vars.iter().any(|k| matches!(c.binds[*k as usize], Bind::Is(A::Op(_, ref args)) if !args.is_empty())) {
            classes.push("compiled-falls-back-to-tree-walker".into());
        }
        if c.binds.iter().any(|b| matches!(b, Bind::Unbound)) {
            classes.push("unbound-variable".into());
        }
    }
    if compiled_confirmed {
        classes.push("compiled-path-confirmed".into());
    }
    if obs.iter().any(|o| o.ctx == "consulted-literal") {
        classes.push("consulted".into());
    }
    classes.push(format!("cmp:{op}"));
    if order_free {
        classes.push("several-errors-any-order".into());
    }
    let nontrivial = full.ops() >= 1 && (compiled_confirmed || obs.iter().any(|o| o.at_assert));
    let cls: Vec<&str> = classes.iter().map(|s| s.as_str()).collect();
    Verdict::pass(nontrivial, &cls)
}

pub struct C03;

impl Prop for C03 {
    fn id(&self) -> &'static str {
        "C03"
    }
    fn rule(&self) -> &'static str {
        "expression trees over every arm of get_unary_instr/get_binary_instr plus e/pi/epsilon (half a single operator, else depth<=4) with leaves fixnum / bignum / small value in bignum clothing / rational / float / variables bound at run time to a number or a sub-expression; plus expressions whose single possible error is a non-evaluable leaf (atoms, compounds, lists, strings, evaluable names at a wrong arity), an unbound variable, or a variable bound at run time to a non-evaluable term. Each is evaluated by: is/2 on a run-time term; a literal in a clause compiled by assertz; the same clause with operands bound at call time; findall/3 in a compiled clause; call/1 of the goal; a consulted clause; and as the left side of an arithmetic comparison (literal in a compiled clause, call/1, run-time terms). All contexts must give the same number (type and value, floats bit-equal) or the same error Formal. non-trivial = at least one operator and wam_instructions/2 shows an arithmetic instruction in the compiled clause (or the compiler rejected the clause with the error); distinct by case encoding"
    }
    fn assumptions(&self) -> Vec<String> {
        vec!["assertz/1, consult, call/N, findall/3 and catch/3 transport terms faithfully (their own properties check that)".into(), "library(diag) wam_instructions/2 lists the instructions of the clause actually run".into()]
    }
    fn run_shard(&self, cfg: &ShardCfg) -> ShardResult {
        let mut d = Driver::new(cfg, "C03");
        let n = cfg.share(cfg.tier.pick(30_000, 1_000_000));
        d.run("case", 0, n, 1000, case_strategy(), &mk_env, &check);
        d.finish()
    }
    fn replay(&self, _kind: &str, case: &Value) -> Verdict {
        replay_case::<Case, Env>(case, &mk_env, &check)
    }
}
