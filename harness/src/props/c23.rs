//! C23 — Term construction and inspection builtins match a term model.
use crate::engine::*;
use crate::gen::*;
use crate::props::c10;
use crate::session::{Outcome, Session};
use crate::shared::tb::{self, canon_zero, rat_as_cmp};
use crate::term::{self, T};
use dashu::integer::IBig;
use proptest::prelude::*;
use serde::{Deserialize, Serialize};
use serde_json::Value;
use std::collections::HashMap;

const C23_PL: &str = include_str!("../../prolog/c23.pl");
const MAX_ARITY: i64 = 255;
const FRESH: u32 = 1000;

#[derive(Clone, Debug, Serialize, Deserialize)]
pub struct Case {
    /// functor | arg | univ | copy | tvars | ground | subsumes
    pub op: String,
    /// argument terms in the order of c23_goal/3 (shared variable namespace)
    pub ts: Vec<T>,
    pub text: bool,
    pub seed: u64,
    /// call the builtin twice under \+ \+ and compare the outcomes (c23_twice/3)
    pub twice: bool,
}

// ---------------------------------------------------------------------------------------------
// model

#[derive(Debug)]
pub enum Exp {
    /// succeeds; the argument terms afterwards
    Yes(Vec<T>),
    No,
    /// one of these error Formals
    Err(Vec<T>),
    /// the harness declines the case
    Skip(&'static str),
}

fn inst() -> T {
    term::atom("instantiation_error")
}
fn type_error(kind: &str, culprit: &T) -> T {
    term::cmp("type_error", vec![term::atom(kind), culprit.clone()])
}
fn dom_nlz(c: &T) -> T {
    term::cmp("domain_error", vec![term::atom("not_less_than_zero"), c.clone()])
}
fn rep_max_arity() -> T {
    term::cmp("representation_error", vec![term::atom("max_arity")])
}

fn is_var(t: &T) -> bool {
    matches!(t, T::Var(_))
}
fn is_atomic(t: &T) -> bool {
    matches!(t, T::Atom(_) | T::Int(_) | T::Rat(..) | T::Float(_))
}
fn is_compound(t: &T) -> bool {
    matches!(t, T::PList(..) | T::Cmp(..))
}

/// (name, args) of a normalised compound
fn decompose(t: &T) -> Option<(T, Vec<T>)> {
    match t {
        T::Cmp(n, args) => Some((T::Atom(n.clone()), args.clone())),
        T::PList(items, tail) => {
            let rest = if items.len() == 1 { (**tail).clone() } else { T::PList(items[1..].to_vec(), tail.clone()) };
            Some((T::Atom(".".into()), vec![items[0].clone(), rest]))
        }
        _ => None,
    }
}

fn build(name: &str, args: Vec<T>) -> T {
    T::Cmp(name.to_string(), args).norm()
}

/// unify the pairs (finite terms, no occurs check); Err = a cyclic term would be created
fn unify_pairs(pairs: &[(T, T)]) -> Result<Option<term::Subst>, ()> {
    let mut s = term::Subst::new();
    for (a, b) in pairs {
        if !term::unify(a, b, &mut s, false)? {
            return Ok(None);
        }
    }
    Ok(Some(s))
}

fn after(ts: &[T], s: &term::Subst) -> Vec<T> {
    ts.iter().map(|t| term::resolve(t, s)).collect()
}

fn yes_if(ts: &[T], pairs: &[(T, T)]) -> Exp {
    match unify_pairs(pairs) {
        Err(()) => Exp::Skip("cyclic"),
        Ok(None) => Exp::No,
        Ok(Some(s)) => Exp::Yes(after(ts, &s)),
    }
}

fn rename(t: &T, base: u32) -> T {
    let mut vs = vec![];
    t.vars(&mut vs);
    let m: HashMap<u32, T> = vs.iter().enumerate().map(|(i, v)| (*v, T::Var(base + i as u32))).collect();
    tb::subst1(t, &m)
}

pub fn model(op: &str, ts0: &[T]) -> Exp {
    let ts: Vec<T> = ts0.iter().map(|t| t.norm()).collect();
    match (op, ts.as_slice()) {
        ("functor", [t, n, a]) => {
            if !is_var(t) {
                let (name, arity) = match decompose(t) {
                    Some((nm, args)) => (nm, args.len()),
                    None => (t.clone(), 0),
                };
                return yes_if(&ts, &[(n.clone(), name), (a.clone(), term::int(arity as i64))]);
            }
            let mut errs = vec![];
            if is_var(n) || is_var(a) {
                errs.push(inst());
            }
            let mut arity: Option<i64> = None;
            match a {
                T::Var(_) => {}
                T::Int(i) => {
                    if *i > IBig::from(MAX_ARITY) {
                        errs.push(rep_max_arity());
                    } else if *i < IBig::ZERO {
                        errs.push(dom_nlz(a));
                    } else {
                        arity = Some(i64::try_from(i).unwrap());
                    }
                }
                _ => errs.push(type_error("integer", a)),
            }
            match n {
                T::Var(_) => {}
                x if is_compound(x) => errs.push(type_error("atomic", n)),
                T::Atom(_) => {}
                _ => {
                    // a number as name is fine only with arity 0
                    if arity.map(|k| k > 0).unwrap_or(false) {
                        errs.push(type_error("atom", n));
                        errs.push(type_error("atomic", n));
                    }
                }
            }
            if !errs.is_empty() {
                return Exp::Err(errs);
            }
            let k = arity.unwrap();
            let built = if k == 0 {
                n.clone()
            } else {
                let T::Atom(name) = n else { unreachable!() };
                build(name, (0..k as u32).map(|i| T::Var(FRESH + i)).collect())
            };
            yes_if(&ts, &[(t.clone(), built)])
        }
        ("arg", [n, t, a]) => {
            let mut errs = vec![];
            let mut idx: Option<IBig> = None;
            match n {
                T::Var(_) => errs.push(inst()),
                T::Int(i) => {
                    if *i < IBig::ZERO {
                        errs.push(dom_nlz(n));
                    } else {
                        idx = Some(i.clone());
                    }
                }
                _ => errs.push(type_error("integer", n)),
            }
            if is_var(t) {
                errs.push(inst());
            } else if is_atomic(t) {
                errs.push(type_error("compound", t));
            }
            if !errs.is_empty() {
                return Exp::Err(errs);
            }
            let (_, args) = decompose(t).unwrap();
            let i = idx.unwrap();
            if i >= IBig::ONE && i <= IBig::from(args.len()) {
                let k = usize::try_from(&i).unwrap();
                yes_if(&ts, &[(a.clone(), args[k - 1].clone())])
            } else {
                Exp::No
            }
        }
        ("univ", [t, l]) => {
            if !is_var(t) {
                // the generator only produces a variable or a (partial) list here; ISO 8.5.3.3 d)
                // applies whatever Term is: a proper list of >= 2 elements whose head is neither
                // a variable nor an atom
                if let T::PList(items, tail) = l {
                    if tail.is_nil() && items.len() >= 2 && !is_var(&items[0]) && !matches!(items[0], T::Atom(_)) {
                        return Exp::Err(vec![type_error("atom", &items[0]), type_error("atomic", &items[0])]);
                    }
                }
                let want = match decompose(t) {
                    Some((nm, args)) => {
                        let mut v = vec![nm];
                        v.extend(args);
                        term::list(v)
                    }
                    None => term::list(vec![t.clone()]),
                };
                return yes_if(&ts, &[(l.clone(), want)]);
            }
            // construction
            let (items, tail): (Vec<T>, T) = match l {
                T::PList(items, tail) => (items.clone(), (**tail).clone()),
                other => (vec![], other.clone()),
            };
            if is_var(&tail) {
                return Exp::Err(vec![inst()]);
            }
            if !tail.is_nil() {
                return Exp::Err(vec![type_error("list", l)]);
            }
            if items.is_empty() {
                return Exp::Err(vec![term::cmp("domain_error", vec![term::atom("non_empty_list"), term::nil()])]);
            }
            let h = &items[0];
            let args = &items[1..];
            if is_var(h) {
                return Exp::Err(vec![inst()]);
            }
            if args.is_empty() {
                if is_compound(h) {
                    return Exp::Err(vec![type_error("atomic", h)]);
                }
                return yes_if(&ts, &[(t.clone(), h.clone())]);
            }
            match h {
                T::Atom(name) => {
                    if args.len() as i64 > MAX_ARITY {
                        return Exp::Err(vec![rep_max_arity()]);
                    }
                    yes_if(&ts, &[(t.clone(), build(name, args.to_vec()))])
                }
                _ => Exp::Err(vec![type_error("atom", h), type_error("atomic", h)]),
            }
        }
        ("copy", [t, c]) => {
            let copy = rename(t, FRESH);
            yes_if(&ts, &[(c.clone(), copy)])
        }
        ("tvars", [t, vs]) => {
            // Vars must be a partial list or a list
            let tail_ok = match vs {
                T::Var(_) => true,
                T::PList(_, tail) => is_var(tail) || tail.is_nil(),
                x => x.is_nil(),
            };
            if !tail_ok {
                return Exp::Err(vec![type_error("list", vs)]);
            }
            let mut v = vec![];
            t.vars(&mut v);
            yes_if(&ts, &[(vs.clone(), term::list(v.into_iter().map(T::Var).collect()))])
        }
        ("ground", [t]) => {
            if t.is_ground() {
                Exp::Yes(ts.clone())
            } else {
                Exp::No
            }
        }
        ("subsumes", [g, s]) => {
            // skolemise the variables of Specific
            let mut sv = vec![];
            s.vars(&mut sv);
            let m: HashMap<u32, T> = sv.iter().map(|v| (*v, T::Atom(format!("$sk{v}")))).collect();
            let (g1, s1) = (tb::subst1(g, &m), tb::subst1(s, &m));
            let mut sub = term::Subst::new();
            match term::unify(&g1, &s1, &mut sub, true) {
                Ok(true) => Exp::Yes(ts.clone()),
                _ => Exp::No,
            }
        }
        _ => Exp::Skip("bad-op"),
    }
}

// ---------------------------------------------------------------------------------------------
// generators

fn any_cfg(tricky: bool) -> TermCfg {
    TermCfg { depth: 3, size: 14, nvars: 4, tricky_atoms: tricky, floats: true, bigints: true, strings: true, rationals: true, partial_lists: true }
}

fn any_term() -> BoxedStrategy<T> {
    prop_oneof![
        5 => any::<bool>().prop_flat_map(|tr| term_strategy(any_cfg(tr))),
        2 => (c10::string_text(), any::<u8>(), any::<u16>(), 0u32..4).prop_map(|(s, k, p, v)| c10::string_variant(&s, k, p, v)),
        2 => (atom_text_strategy(), proptest::collection::vec(term_strategy(any_cfg(false)), 1..=4)).prop_map(|(n, a)| T::Cmp(n, a)),
    ]
    .boxed()
}

fn name_of(t: &T) -> (T, usize) {
    let t = t.norm();
    match decompose(&t) {
        Some((n, a)) => (n, a.len()),
        None => (t, 0),
    }
}

fn functor_case() -> BoxedStrategy<(String, Vec<T>)> {
    let dec = (any_term(), any::<u8>(), any::<u8>()).prop_map(|(t, ns, as_)| {
        let (name, arity) = name_of(&t);
        let n = match ns % 6 {
            0 | 1 => T::Var(50),
            2 | 3 => name,
            4 => T::Atom("zz".into()),
            _ => T::Var(0),
        };
        let a = match as_ % 6 {
            0 | 1 => T::Var(51),
            2 | 3 => term::int(arity as i64),
            4 => term::int(arity as i64 + 1),
            _ => T::Var(50),
        };
        ("functor".to_string(), vec![t, n, a])
    });
    let names = prop_oneof![
        5 => atom_text_strategy().prop_map(T::Atom),
        1 => Just(T::Atom(".".into())),
        1 => int_strategy().prop_map(T::Int),
        1 => float_strategy().prop_map(T::Float),
        1 => Just(term::cmp("f", vec![term::atom("x")])),
        1 => Just(T::Str("ab".into())),
        1 => Just(T::Var(1)),
        1 => Just(T::Rat(IBig::from(1), IBig::from(3))),
    ];
    let arities = prop_oneof![
        8 => (0i64..=6).prop_map(|k| term::int(k)),
        1 => Just(term::int(255)),
        1 => Just(term::int(256)),
        1 => Just(term::int(-1)),
        1 => int_strategy().prop_map(T::Int),
        1 => Just(T::Float(2.0)),
        1 => Just(term::atom("two")),
        1 => Just(T::Var(2)),
        1 => Just(T::Rat(IBig::from(5), IBig::from(2))),
        1 => Just(term::cmp("g", vec![term::int(1)])),
    ];
    let con = (names, arities, any::<bool>()).prop_map(|(n, a, same)| ("functor".to_string(), vec![if same { T::Var(2) } else { T::Var(0) }, n, a]));
    prop_oneof![dec, con].boxed()
}

fn arg_case() -> BoxedStrategy<(String, Vec<T>)> {
    (any_term(), any::<u8>(), any::<u8>(), any::<u8>(), term_strategy(c10::small_cfg(false)), int_strategy())
        .prop_map(|(t, nsel, k, asel, other, big)| {
            let (_, arity) = name_of(&t);
            let args = decompose(&t.norm()).map(|x| x.1).unwrap_or_default();
            let pos = (k as usize) % (arity + 2); // 0..=arity+1
            let n = match nsel % 12 {
                0..=6 => term::int(pos as i64),
                7 => term::int(-1 - (k as i64 % 3)),
                8 => T::Int(big),
                9 => T::Float(pos as f64),
                10 => T::Var(52),
                _ => term::atom("one"),
            };
            let a = match asel % 6 {
                0 | 1 => T::Var(53),
                2 | 3 if pos >= 1 && pos <= arity => args[pos - 1].clone(),
                4 => T::Var(0),
                _ => other,
            };
            ("arg".to_string(), vec![n, t, a])
        })
        .boxed()
}

fn univ_case() -> BoxedStrategy<(String, Vec<T>)> {
    let dec = (any_term(), any::<u8>(), any::<u16>(), term_strategy(c10::small_cfg(false))).prop_map(|(t, sel, pos, other)| {
        let tn = t.norm();
        let mut items = match decompose(&tn) {
            Some((n, a)) => {
                let mut v = vec![n];
                v.extend(a);
                v
            }
            None => vec![tn.clone()],
        };
        let k = (pos as usize * items.len()) >> 16;
        let l = match sel % 7 {
            0 | 1 => T::Var(54),
            2 => term::list(items),
            3 => {
                items[k] = T::Var(55);
                term::list(items)
            }
            4 => {
                // a different argument (never the head: keep the list well-formed for every reading)
                if k > 0 {
                    items[k] = other;
                }
                term::list(items)
            }
            5 => T::PList(items[..=k].to_vec(), Box::new(T::Var(56))),
            _ => {
                items.push(T::Var(57));
                term::list(items)
            }
        };
        ("univ".to_string(), vec![t, l])
    });
    let heads = prop_oneof![
        6 => atom_text_strategy().prop_map(T::Atom),
        1 => Just(T::Atom(".".into())),
        1 => int_strategy().prop_map(T::Int),
        1 => float_strategy().prop_map(T::Float),
        1 => Just(term::cmp("f", vec![term::atom("x")])),
        1 => Just(T::Str("ab".into())),
        1 => Just(T::Var(1)),
    ];
    let con = (heads, proptest::collection::vec(term_strategy(c10::small_cfg(false)), 0..=4), any::<u8>()).prop_map(|(h, args, sel)| {
        let mut items = vec![h];
        items.extend(args);
        let l = match sel % 10 {
            0..=5 => term::list(items),
            6 => T::PList(items, Box::new(T::Var(3))),
            7 => T::PList(items, Box::new(term::atom("b"))),
            8 => term::nil(),
            _ => term::atom("foo"),
        };
        ("univ".to_string(), vec![T::Var(9), l])
    });
    prop_oneof![dec, con].boxed()
}

fn copy_case() -> BoxedStrategy<(String, Vec<T>)> {
    (any_term(), any::<u8>(), any::<u16>(), term_strategy(c10::small_cfg(false)))
        .prop_map(|(t, sel, pos, other)| {
            let c = match sel % 8 {
                0..=4 => T::Var(60),
                5 => T::Var(0),
                6 => {
                    let n = c10::node_count(&t);
                    let mut k = (pos as usize * n) >> 16;
                    c10::replace_nth(&t, &mut k, &T::Var(61))
                }
                _ => other,
            };
            ("copy".to_string(), vec![t, c])
        })
        .boxed()
}

fn tvars_case() -> BoxedStrategy<(String, Vec<T>)> {
    (any_term(), any::<u8>(), 0usize..5)
        .prop_map(|(t, sel, k)| {
            let vs = match sel % 8 {
                0..=4 => T::Var(62),
                5 => term::list((0..k as u32).map(|i| T::Var(70 + i)).collect()),
                6 => T::PList(vec![T::Var(70)], Box::new(T::Var(71))),
                _ => term::atom("foo"),
            };
            ("tvars".to_string(), vec![t, vs])
        })
        .boxed()
}

fn ground_case() -> BoxedStrategy<(String, Vec<T>)> {
    (any_term(), any::<bool>())
        .prop_map(|(t, close)| {
            let t = if close {
                let mut vs = vec![];
                t.vars(&mut vs);
                let m: HashMap<u32, T> = vs.iter().map(|v| (*v, term::int(*v as i64))).collect();
                tb::subst1(&t, &m)
            } else {
                t
            };
            ("ground".to_string(), vec![t])
        })
        .boxed()
}

fn subsumes_case() -> BoxedStrategy<(String, Vec<T>)> {
    let inst = (any_term(), proptest::collection::vec((0u32..4, term_strategy(c10::small_cfg(false))), 0..=3), any::<bool>()).prop_map(|(g, sub, swap)| {
        let m: HashMap<u32, T> = sub.into_iter().collect();
        let s = tb::subst1(&g, &m);
        if swap {
            (s, g)
        } else {
            (g, s)
        }
    });
    prop_oneof![3 => inst, 2 => c10::skeleton_pair(), 1 => c10::mutation_pair(), 1 => c10::string_pair()].prop_map(|(g, s)| ("subsumes".to_string(), vec![g, s])).boxed()
}

pub fn case_strategy() -> BoxedStrategy<Case> {
    let ops = prop_oneof![
        3 => functor_case(),
        3 => arg_case(),
        3 => univ_case(),
        4 => copy_case(),
        2 => tvars_case(),
        1 => ground_case(),
        2 => subsumes_case(),
    ];
    (ops, prop::bool::weighted(0.2), prop_oneof![1 => Just(0u64), 5 => any::<u64>()], prop::bool::weighted(0.15))
        .prop_map(|((op, ts), text, seed, twice)| {
            let text = text && !twice && !ts.iter().any(c10::has_rat);
            Case { op, ts, text, seed: if text { 0 } else { seed }, twice }
        })
        .boxed()
}

// ---------------------------------------------------------------------------------------------
// check

pub struct Env {
    pub s: Session,
}

pub fn mk_env() -> Env {
    Env { s: tb::session_with(&[], &[C23_PL]) }
}

fn query(c: &Case) -> (String, Vec<&'static str>) {
    if c.text {
        let text = format!("{} .", term::list(c.ts.clone()).text());
        let codes: Vec<String> = text.chars().map(|ch| (ch as u32).to_string()).collect();
        (format!("c23_run_text({}, [{}], Res)", c.op, codes.join(",")), vec![])
    } else {
        let mut bl = tb::Builder::new(c.seed);
        let refs: Vec<&T> = c.ts.iter().collect();
        let specs = bl.specs(&refs);
        let pred = if c.twice { "c23_twice" } else { "c23_run" };
        (format!("{pred}({}, {specs}, Res)", c.op), bl.ctors.into_iter().collect())
    }
}

fn r_kind(r: &T) -> (&'static str, Option<T>) {
    match r {
        T::Atom(a) if a == "yes" => ("yes", None),
        T::Atom(a) if a == "no" => ("no", None),
        T::Cmp(n, b) if n == "ex" && b.len() == 1 => match &b[0] {
            T::Cmp(e, ea) if e == "error" && ea.len() == 2 => ("error", Some(ea[0].clone())),
            other => ("throw", Some(other.clone())),
        },
        _ => ("?", None),
    }
}

fn list_items(t: &T, n: usize) -> Option<Vec<T>> {
    // the argument list has exactly n elements; take them one cell at a time so that an argument
    // that is itself a list is not merged into the spine
    let mut out = vec![];
    let mut cur = t.norm();
    for _ in 0..n {
        match cur {
            T::PList(items, tail) => {
                out.push(items[0].clone());
                cur = if items.len() == 1 { *tail } else { T::PList(items[1..].to_vec(), tail) };
            }
            _ => return None,
        }
    }
    if cur.is_nil() {
        Some(out)
    } else {
        None
    }
}

fn shared_var_depths(t: &T, d: u32, out: &mut HashMap<u32, Vec<u32>>) {
    match t {
        T::Var(v) => out.entry(*v).or_default().push(d),
        T::PList(items, tail) => {
            for (i, it) in items.iter().enumerate() {
                shared_var_depths(it, d + 1 + i as u32, out);
            }
            shared_var_depths(tail, d + items.len() as u32, out);
        }
        T::Cmp(_, args) => {
            for a in args {
                shared_var_depths(a, d + 1, out)
            }
        }
        _ => {}
    }
}

pub fn check(env: &mut Env, c: &Case) -> Verdict {
    let exp = model(&c.op, &c.ts);
    if let Exp::Skip(why) = exp {
        return Verdict::Discard(format!("model:{why}"));
    }
    let (q, ctors) = query(c);
    if std::env::var("VERIF_DEBUG_QUERY").is_ok() {
        eprintln!("QUERY: {q}");
    }
    let o = env.s.ask_once(&q, "Res");
    let desc = format!("{}{}({})", if c.text { "[text] " } else { "" }, c.op, c.ts.iter().map(|t| t.text()).collect::<Vec<_>>().join(", "));
    let res = match &o {
        Outcome::Sols(v) if v.len() == 1 => v[0].clone(),
        Outcome::Panic(m) => return Verdict::fail(format!("panic:{}", m.split_whitespace().next().unwrap_or("?")), format!("{desc}: {m}")),
        Outcome::Harness(m) => return Verdict::Discard(format!("harness:{}", m.chars().take(40).collect::<String>())),
        other => return Verdict::fail(format!("wrapper:{}", c.op), format!("{desc}: construction or wrapper did not succeed once: {}", other.short())),
    };
    let n = c.ts.len();
    let (r1, r2, ts_after) = match &res {
        T::Cmp(r, a) if r == "r" && a.len() == 2 && !c.twice => (a[0].clone(), None, a[1].clone()),
        T::Cmp(r, a) if r == "r" && a.len() == 3 && c.twice => (a[0].clone(), Some(a[1].clone()), a[2].clone()),
        _ => return Verdict::Discard("harness:bad-res".into()),
    };
    let Some(items) = list_items(&ts_after, n) else {
        return Verdict::Discard("harness:bad-ts".into());
    };
    let got_ts = canon_zero(&T::Cmp("ts".into(), items));
    let inputs = canon_zero(&rat_as_cmp(&T::Cmp("ts".into(), c.ts.iter().map(|t| t.norm()).collect())));
    let (kind, formal) = r_kind(&r1);
    let sig = |class: &str| format!("{class}:{}", c.op);
    let exp_name = match &exp {
        Exp::Yes(_) => "yes",
        Exp::No => "no",
        Exp::Err(_) => "error",
        Exp::Skip(_) => unreachable!(),
    };
    if let Some(r2) = &r2 {
        // under \+ \+ nothing may be bound and both calls must agree
        let (k2, f2) = r_kind(r2);
        let same_formal = match (&f2, &formal) {
            (Some(x), Some(y)) => canon_zero(x).variant(&canon_zero(y)),
            (None, None) => true,
            _ => false,
        };
        if k2 != kind || !same_formal {
            return Verdict::fail(sig("not-repeatable"), format!("{desc}: first call {} second call {}", r1.text(), r2.text()));
        }
        if !got_ts.variant(&inputs) {
            return Verdict::fail(sig("changed-under-negation"), format!("{desc}: arguments after two \\+ \\+ calls: {} originally {}", got_ts.text(), inputs.text()));
        }
    }
    match (&exp, kind) {
        (Exp::Yes(after), "yes") => {
            if r2.is_none() {
                let want = canon_zero(&rat_as_cmp(&T::Cmp("ts".into(), after.clone())));
                if !got_ts.variant(&want) {
                    return Verdict::fail(sig("wrong-result"), format!("{desc}: arguments afterwards {} expected {}", got_ts.text(), want.text()));
                }
            }
        }
        (Exp::No, "no") => {}
        (Exp::Err(accept), "error") => {
            let f = canon_zero(&formal.clone().unwrap());
            // the ball is a copy (7.8.9): the culprit's variables are fresh, compare up to renaming
            let ok = accept.iter().any(|a| f.variant(&canon_zero(&rat_as_cmp(a))));
            if !ok {
                return Verdict::fail(
                    sig("wrong-error"),
                    format!("{desc}: raised {} expected one of {:?}", f.text(), accept.iter().map(|a| a.text()).collect::<Vec<_>>()),
                );
            }
        }
        _ => {
            // arg/3 with an index that does not fit a machine word fails before looking at Term
            let huge_index = c.op == "arg" && matches!(&c.ts[0].norm(), T::Int(i) if *i >= (IBig::ONE << 64));
            if huge_index && kind == "no" && exp_name == "error" {
                return Verdict::fail("arg-huge-index:fails-before-term-check", format!("{desc}: fails, expected {}", match &exp {
                    Exp::Err(a) => a.iter().map(|x| x.text()).collect::<Vec<_>>().join(" | "),
                    _ => String::new(),
                }));
            }
            return Verdict::fail(sig(&format!("wrong-outcome-{kind}-for-{exp_name}")), format!("{desc}: outcome {} expected {exp_name} {}", r1.text(), match &exp {
                Exp::Err(a) => a.iter().map(|x| x.text()).collect::<Vec<_>>().join(" | "),
                Exp::Yes(a) => a.iter().map(|x| x.text()).collect::<Vec<_>>().join(", "),
                _ => String::new(),
            }));
        }
    }
    if kind != "yes" && r2.is_none() && !got_ts.variant(&inputs) {
        return Verdict::fail(sig("changed-after-failure"), format!("{desc}: after {} the arguments are {} originally {}", r1.text(), got_ts.text(), inputs.text()));
    }

    let mut depths = HashMap::new();
    shared_var_depths(&c.ts[if c.op == "arg" { 1 } else { 0 }].norm(), 0, &mut depths);
    let shared = depths.values().any(|d| d.len() >= 2 && d.iter().any(|x| *x != d[0]));
    let stringy = c.ts.iter().any(c10::has_string);
    let mut classes: Vec<String> = vec![format!("op:{}", c.op), format!("op:{}:{exp_name}", c.op)];
    if shared {
        classes.push("shared-var-different-depths".into());
    }
    if stringy {
        classes.push("has-string".into());
    }
    if c.text {
        classes.push("build:text".into());
    } else if c.seed == 0 {
        classes.push("build:plain".into());
    }
    if c.twice {
        classes.push("twice".into());
    }
    for k in &ctors {
        classes.push(format!("ctor:{k}"));
    }
    let cl: Vec<&str> = classes.iter().map(|s| s.as_str()).collect();
    Verdict::pass(shared || stringy, &cl)
}

pub struct C23;

impl Prop for C23 {
    fn id(&self) -> &'static str {
        "C23"
    }
    fn rule(&self) -> &'static str {
        "one call of functor/3 (decomposition and construction modes), arg/3, =../2 (both directions), copy_term/2, term_variables/2, ground/1 or subsumes_term/2 on generated arguments (terms <= ~15 nodes with shared variables, tricky atoms, big integers, rationals, floats, strings and partial strings in seed-chosen heap representations, '.'/2; argument modes unbound / correct value / wrong value / variable shared with the term / partial list; ill-typed arguments per ISO 8.5: unbound, negative, non-integer, bignum, > max_arity, compound or numeric names, non-lists, empty list), executed on a real machine and compared with a term model: outcome (success / failure / which error Formal), the complete argument terms afterwards up to variable renaming (which shows the constructed term, fresh distinct variables, the copy being a variant sharing no variable with an unchanged original and preserving internal sharing, first-occurrence depth-first left-to-right order without duplicates for term_variables/2), arguments unchanged after failure or error; 15% of the cases call the builtin twice under \\+ \\+ and require equal outcomes and unchanged arguments; non-trivial = the inspected term has a variable occurring at two different depths or contains a string / partial string; distinct by case encoding"
    }
    fn assumptions(&self) -> Vec<String> {
        vec![
            "error precedence is not asserted: when several ISO error conditions hold at once any of them is accepted; a number as functor name with arity > 0 may raise type_error(atom,_) or type_error(atomic,_)".into(),
            "attributed variables (copy_term/3 goals) and numbervars/3 (not provided by this system) are not covered".into(),
            "the harness's unfolding helper rt_unfold/3 (var/atomic/functor/arg based) is itself built on functor/3 and arg/3 in their basic modes".into(),
        ]
    }
    fn run_shard(&self, cfg: &ShardCfg) -> ShardResult {
        let mut d = Driver::new(cfg, "C23");
        let n = cfg.share(cfg.tier.pick(50_000, 2_500_000));
        d.run("call", 0, n, 2000, case_strategy(), &mk_env, &check);
        d.finish()
    }
    fn replay(&self, _kind: &str, case: &Value) -> Verdict {
        replay_case::<Case, Env>(case, &mk_env, &check)
    }
}
