//! C47 — Parsing a file lazily (library(pio) phrase_from_file/2,3) equals parsing its contents
//! (phrase/2 on the full character list).
//!
//! The file content is produced by the harness (std::fs), the reference character list is the same
//! content handed to phrase/2 as a string literal, i.e. without going through any stream. The two
//! solution sequences (bindings of the grammar's output variables, up to a bound) are compared
//! with ==/2 inside Prolog, only a small verdict leaves the machine. After the call the file must
//! be unchanged and no stream on it may be left open (also when the solutions are cut off).
use crate::engine::*;
use crate::gen::*;
use crate::session::{Outcome, Session};
use crate::shared::scratch::Scratch;
use crate::term::T;
use proptest::prelude::*;
use serde::{Deserialize, Serialize};
use serde_json::Value;

pub const C47_PL: &str = include_str!("../../prolog/c47.pl");

#[derive(Clone, Debug, Serialize, Deserialize)]
pub struct Seg {
    pub unit: String,
    pub reps: u32,
}

#[derive(Clone, Debug, Serialize, Deserialize)]
pub enum G {
    /// seq(Xs)
    All,
    /// count the characters
    Len,
    /// split into lines
    Lines,
    /// count the characters above a code
    CountAbove(u32),
    /// seq(A), Needle, seq(B) with the needle cut out of the content at a relative position
    Split { pos: u16, len: u8, max: u8 },
    /// ..., Needle, ...
    Find { pos: u16, len: u8 },
    /// N characters, then the rest is left alone (never forced)
    TakeDrop(u16),
    /// N characters and the rest
    TakeRest(u16),
    /// fails on the first character
    FailEarly,
    /// a greedy run of the first character followed by something absent, else everything
    StarBack,
    /// search for an absent needle through the whole text, else everything
    LookFar,
    /// first K prefixes on backtracking, the rest never forced
    PrefixEnum(u8),
    /// N characters then failure, else M characters and drop
    TakeBackTake(u16, u16),
}

#[derive(Clone, Debug, Serialize, Deserialize)]
pub struct Case {
    pub segs: Vec<Seg>,
    pub g: G,
    /// 0 phrase_from_file/2, 1 options [], 2 [type(text)], 3 [type(binary)]
    pub opts: u8,
    pub file_as_atom: bool,
}

const UNITS: &[&str] = &["a", "ab\n", "é", "日", "😀", "aé", "x\n", "b", "λx", " ", "\n", "日本", "a😀b", "\u{7ff}", "\u{800}", "\u{ffff}"];

fn seg_small() -> BoxedStrategy<Seg> {
    (any::<u16>(), 0u32..=12).prop_map(|(k, reps)| Seg { unit: pick(UNITS, k).to_string(), reps }).boxed()
}

/// a segment whose end lands within 3 chars/bytes of a buffer boundary
fn seg_boundary() -> BoxedStrategy<Seg> {
    (any::<u16>(), any::<u16>(), any::<bool>(), -3i64..=3).prop_map(|(k, t, in_bytes, d)| {
        let unit = pick(UNITS, k).to_string();
        let targets = [4096i64, 8192, 12288, 16384, 4096, 8192];
        let target = pick(&targets, t) + d;
        let per = if in_bytes { unit.len() as i64 } else { unit.chars().count() as i64 };
        let reps = (target / per).max(0) as u32;
        Seg { unit, reps }
    })
    .boxed()
}

fn content() -> BoxedStrategy<Vec<Seg>> {
    let small = proptest::collection::vec(seg_small(), 0..=5);
    let big = (seg_boundary(), proptest::collection::vec(seg_small(), 0..=3), prop_oneof![2 => Just(None), 1 => seg_boundary().prop_map(Some)], proptest::collection::vec(seg_small(), 0..=2)).prop_map(|(a, mid, b, tail)| {
        let mut v = vec![a];
        v.extend(mid);
        if let Some(b) = b {
            v.push(b);
        }
        v.extend(tail);
        v
    });
    // a few ASCII characters in front shift every later boundary
    let shifted = (0u32..=5, seg_boundary(), proptest::collection::vec(seg_small(), 0..=3)).prop_map(|(n, a, tail)| {
        let mut v = vec![Seg { unit: "z".into(), reps: n }, a];
        v.extend(tail);
        v
    });
    prop_oneof![2 => small, 5 => big, 2 => shifted].boxed()
}

fn grammar() -> BoxedStrategy<G> {
    prop_oneof![
        3 => Just(G::All),
        1 => Just(G::Len),
        2 => Just(G::Lines),
        1 => prop_oneof![Just(127u32), Just(255), Just(0xffff)].prop_map(G::CountAbove),
        4 => (any::<u16>(), 1u8..=5, 1u8..=4).prop_map(|(pos, len, max)| G::Split { pos, len, max }),
        2 => (any::<u16>(), 1u8..=5).prop_map(|(pos, len)| G::Find { pos, len }),
        3 => any::<u16>().prop_map(G::TakeDrop),
        2 => any::<u16>().prop_map(G::TakeRest),
        1 => Just(G::FailEarly),
        2 => Just(G::StarBack),
        2 => Just(G::LookFar),
        2 => (1u8..=6).prop_map(G::PrefixEnum),
        2 => (any::<u16>(), any::<u16>()).prop_map(|(a, b)| G::TakeBackTake(a, b)),
    ]
    .boxed()
}

pub fn case_strategy() -> BoxedStrategy<Case> {
    (content(), grammar(), prop_oneof![3 => Just(0u8), 2 => Just(1u8), 2 => Just(2u8), 1 => Just(3u8)], prop_oneof![4 => Just(false), 1 => Just(true)]).prop_map(|(segs, g, opts, file_as_atom)| Case { segs, g, opts, file_as_atom }).boxed()
}

pub fn expand(segs: &[Seg]) -> String {
    let mut s = String::new();
    for sg in segs {
        for _ in 0..sg.reps {
            s.push_str(&sg.unit);
        }
        if s.len() > 90_000 {
            break;
        }
    }
    s
}

pub struct Env {
    pub s: Session,
}

pub fn mk_env() -> Env {
    let mut s = Session::new(&["dcgs", "lists", "pio"]);
    if !s.consult(C47_PL, "c47") {
        panic!("c47.pl rejected");
    }
    Env { s }
}

/// scale a 16-bit selector to 0..=n
fn scale(sel: u16, n: usize) -> usize {
    ((sel as usize) * (n + 1)) >> 16
}

/// positions worth hitting: around the multiples of the read buffer (4096 chars)
fn near_boundary(sel: u16, n: usize) -> usize {
    // half of the selectors choose a spot next to a multiple of 4096, the others anywhere
    if sel & 1 == 0 || n < 4096 {
        return scale(sel, n);
    }
    let k = 1 + ((sel >> 1) as usize % (n / 4096));
    let d = ((sel >> 8) as usize % 9) as i64 - 4;
    ((k * 4096) as i64 + d).clamp(0, n as i64) as usize
}

pub fn check(env: &mut Env, c: &Case) -> Verdict {
    let content = expand(&c.segs);
    let bytes = content.as_bytes().to_vec();
    let binary = c.opts % 4 == 3;
    // the reference character list
    let ref_chars: Vec<char> = if binary { bytes.iter().map(|b| *b as char).collect() } else { content.chars().collect() };
    let n = ref_chars.len();
    let sub = |from: usize, len: usize| -> String { ref_chars[from.min(n)..(from + len).min(n)].iter().collect() };
    let first = ref_chars.first().cloned();
    // grammar body text, output template, solution bound, label, and whether the case is non-trivial
    let (body, out, max, label, deep): (String, String, u32, &str, bool) = match &c.g {
        G::All => ("seq(Xs)".into(), "Xs".into(), 2, "all", false),
        G::Len => ("c47_len(0, N)".into(), "N".into(), 2, "len", false),
        G::Lines => ("c47_lines(Ls)".into(), "Ls".into(), 2, "lines", false),
        G::CountAbove(l) => (format!("c47_count_above({l}, 0, N)"), "N".into(), 2, "count-above", false),
        G::Split { pos, len, max } => {
            let p = near_boundary(*pos, n.saturating_sub(1));
            let needle = sub(p, *len as usize);
            if needle.is_empty() {
                ("(seq(A), \"q\", seq(B))".into(), "A-B".into(), *max as u32, "split", false)
            } else {
                (format!("(seq(A), {}, seq(B))", T::Str(needle).text()), "A-B".into(), *max as u32, "split", p >= 4096 || *max > 1)
            }
        }
        G::Find { pos, len } => {
            let p = near_boundary(*pos, n.saturating_sub(1));
            let needle = sub(p, *len as usize);
            if needle.is_empty() {
                ("(..., \"q\", ...)".into(), "found".into(), 1, "find", false)
            } else {
                (format!("(..., {}, ...)", T::Str(needle).text()), "found".into(), 1, "find", p >= 4096)
            }
        }
        G::TakeDrop(k) => {
            let k = near_boundary(*k, n + 2);
            (format!("(c47_take({k}, P), c47_drop)"), "P".into(), 2, "take-drop", true)
        }
        G::TakeRest(k) => {
            let k = near_boundary(*k, n + 2);
            (format!("(c47_take({k}, P), seq(R))"), "P-R".into(), 2, "take-rest", false)
        }
        G::FailEarly => ("(\"\\x1\\\", seq(_))".into(), "x".into(), 2, "fail-early", true),
        G::StarBack => match first {
            Some(ch) => {
                let run = ref_chars.iter().take_while(|x| **x == ch).count();
                (format!("( c47_star({}), \"\\x1\\\", seq(_) ; seq(X) )", T::Atom(ch.to_string()).text()), "X".into(), 2, "star-back", run > 4096)
            }
            None => ("( c47_star(a), \"\\x1\\\", seq(_) ; seq(X) )".into(), "X".into(), 2, "star-back", false),
        },
        G::LookFar => ("( seq(_), \"\\x1\\\\x1\\\", seq(_) ; seq(X) )".into(), "X".into(), 2, "look-far", true),
        G::PrefixEnum(k) => ("(seq(A), c47_drop)".into(), "A".into(), *k as u32, "prefix-enum", *k > 1),
        G::TakeBackTake(a, b) => {
            let a = near_boundary(*a, n);
            let b = near_boundary(*b, n);
            (format!("( c47_take({a}, _), {{ fail }} ; c47_take({b}, P), c47_drop )"), "P".into(), 2, "take-back-take", a > 4096)
        }
    };
    let sc = Scratch::new("c47");
    let fname = if c.file_as_atom { "in file.txt" } else { "in.txt" };
    let path = sc.path_str(fname);
    if std::fs::write(&path, &bytes).is_err() {
        return Verdict::Discard("cannot-write-scratch".into());
    }
    let file_chars = T::Str(path.clone()).text();
    let file_arg = if c.file_as_atom { T::Atom(path.clone()).text() } else { file_chars.clone() };
    let opts = match c.opts % 4 {
        0 => "none",
        1 => "[]",
        2 => "[type(text)]",
        _ => "[type(binary)]",
    };
    let ref_text: String = ref_chars.iter().collect();
    let goal = format!("c47_run({file_chars}, {file_arg}, {opts}, {}, {body}, {out}, {max}, V)", T::Str(ref_text).text());
    let o = env.s.ask_once(&goal, "V");
    let what = format!("phrase_from_file({body}, File{}) on {} chars / {} bytes ({})", if opts == "none" { String::new() } else { format!(", {opts}") }, n, bytes.len(), summary(&c.segs));
    let v = match &o {
        Outcome::Panic(p) => return Verdict::fail(format!("panic:{}", p.split_whitespace().next().unwrap_or("?")), format!("{what} panicked: {p}")),
        Outcome::Sols(v) if v.len() == 1 => v[0].clone(),
        other => return Verdict::fail(format!("escaped:{label}"), format!("{what}: {}", other.short())),
    };
    if std::fs::read(&path).ok().as_deref() != Some(&bytes[..]) {
        return Verdict::fail("file-changed", format!("{what}: the file was modified"));
    }
    let mut classes: Vec<String> = vec![format!("g:{label}"), format!("opts:{opts}")];
    let size_class = match n {
        0 => "size:0",
        1..=4095 => "size:<4096",
        4096..=8191 => "size:4096..8191",
        8192..=16383 => "size:8192..16383",
        _ => "size:>=16384",
    };
    classes.push(size_class.into());
    if bytes.len() != n {
        classes.push("multibyte".into());
    }
    match &v {
        T::Cmp(f, args) if f == "same" && args.len() == 3 => {
            if !matches!(&args[2], T::Int(i) if *i == dashu::integer::IBig::ZERO) {
                return Verdict::fail(format!("stream-leak:{label}"), format!("{what}: {} stream(s) on the file are still open afterwards", args[2].text()));
            }
            match &args[1] {
                T::Atom(a) if a == "ok" => classes.push(format!("sols:{}", args[0].text())),
                other => classes.push(format!("both-error:{}", other.text().chars().take(30).collect::<String>())),
            }
        }
        T::Cmp(f, args) if f == "skip" => {
            return Verdict::Discard(format!("limit:{label} {}", args[0].text().chars().take(30).collect::<String>()));
        }
        T::Cmp(f, _) if f == "differ" => {
            return Verdict::fail(format!("differ:{label}:{}", if binary { "binary" } else { "text" }), format!("{what}: file vs list: {}", v.text()));
        }
        other => return Verdict::Discard(format!("harness:verdict-shape {}", other.text().chars().take(30).collect::<String>())),
    }
    let nontrivial = n > 4096 && deep;
    if nontrivial {
        classes.push("backtracks-or-stops-early-beyond-4096".into());
    }
    let cl: Vec<&str> = classes.iter().map(|s| s.as_str()).collect();
    Verdict::pass(nontrivial, &cl)
}

fn summary(segs: &[Seg]) -> String {
    segs.iter().map(|s| format!("{:?}x{}", s.unit, s.reps)).collect::<Vec<_>>().join(" ")
}

pub struct C47;

impl Prop for C47 {
    fn id(&self) -> &'static str {
        "C47"
    }
    fn rule(&self) -> &'static str {
        "file contents of 0-20 000 characters built from repeated units (1-4 byte UTF-8 incl. boundary code points, newlines) with segment ends placed within 3 characters/bytes of the multiples of 4096 and 8192, optionally shifted by a few ASCII characters; grammars: consume everything (seq//1, counting, line splitting), split at a needle cut from the content near a buffer boundary with up to 4 solutions on backtracking, ...//0 search, take N then leave the rest unforced, take N and the rest, fail on the first character, greedy run then backtrack, search for an absent needle then backtrack to the start, enumerate prefixes, read N then fail then read M; phrase_from_file/2 and /3 with [], [type(text)], [type(binary)], file name as chars or atom; compared with phrase/2 on the content as a string literal: same solutions in the same order (==), same error Formal; afterwards the file is unchanged and no stream on it is open; non-trivial = more than 4096 characters and the grammar backtracks over / stops before a buffer boundary; distinct by case encoding"
    }
    fn assumptions(&self) -> Vec<String> {
        vec!["the reader turns a double-quoted literal into the list of its characters (reference input of phrase/2)".into(), "==/2 and findall/3 on lists of characters (C13/C12)".into(), "std::fs writes the scratch file".into()]
    }
    fn run_shard(&self, cfg: &ShardCfg) -> ShardResult {
        let mut d = Driver::new(cfg, "C47");
        let n = cfg.share(cfg.tier.pick(4_000, 160_000));
        d.run("file", 0, n, 40, case_strategy(), &mk_env, &check);
        d.finish()
    }
    fn replay(&self, _kind: &str, case: &Value) -> Verdict {
        replay_case::<Case, Env>(case, &mk_env, &check)
    }
}
