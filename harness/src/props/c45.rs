//! C45 — read_term/2 reports variables, names and singletons exactly.
use crate::engine::*;
use crate::gen::pick;
use crate::shared::printer::*;
use crate::term::{self, T};
use dashu::integer::IBig;
use proptest::prelude::*;
use serde::{Deserialize, Serialize};
use serde_json::Value;

/// variable names of the pool; `T::Var(i)` in a case denotes an occurrence of POOL[i]
pub const POOL: &[&str] = &["X", "Y1", "_", "_X", "_1", "__", "Ünicode", "A_b", "Z", "_G12", "Xs", "_x"];

#[derive(Clone, Debug, Serialize, Deserialize)]
pub struct Case {
    /// the term; Var(i) is an occurrence of the variable named POOL[i] (`_` = anonymous)
    pub t: T,
    /// layout / comment style selector per token gap
    pub style: Vec<u8>,
    /// order and selection of the options: characters of "vns"
    pub opts: String,
    /// 0 chars, 1 read_term/3 on a file stream, 2 read_term/2 after set_input/1
    pub src: u8,
    /// 0 none, 1 variables(list of the right length), 2 variables(list one too long),
    /// 3 variable_names with the right names, 4 variable_names with one wrong name
    pub pre: u8,
    /// text after the end token (must not be read)
    pub suffix: u8,
}

const ANON_FAMILY: &str = "anon-variables:variables-option-omits-anonymous-variables";

const INFIX: &[&str] = &["=", "+", "-", "*", ":-", "-->", ",", ";", "->", "is", "==", ":", "=.."];
const PREFIX: &[&str] = &["-", "\\+", ":-", "?-"];

// ---------------------------------------------------------------------------------------------
// the harness's own writer of the clause text (token list + layout between tokens)

fn atom_text(a: &str) -> String {
    if a == "[]" || a == "{}" || a == "!" || a == ";" {
        return a.to_string();
    }
    let plain = a.chars().next().map(|c| c.is_ascii_lowercase()).unwrap_or(false) && a.chars().all(|c| c.is_ascii_alphanumeric() || c == '_');
    let graphic = !a.is_empty() && a.chars().all(|c| "#$&*+-./:<=>?@^~\\".contains(c)) && a != "." && !a.starts_with("/*");
    if plain || graphic {
        a.to_string()
    } else {
        term::quote_atom(a)
    }
}

/// tokens; `glue` = no layout may be inserted before this token (the `(` of functional notation)
fn tokens(t: &T, out: &mut Vec<(String, bool)>) {
    match t {
        T::Var(i) => out.push((POOL[*i as usize % POOL.len()].to_string(), false)),
        T::Atom(a) => {
            let infix_or_prefix = INFIX.contains(&a.as_str()) || PREFIX.contains(&a.as_str());
            if infix_or_prefix {
                // an operator as an atom: bracketed
                out.push(("(".into(), false));
                out.push((atom_text(a), false));
                out.push((")".into(), false));
            } else {
                out.push((atom_text(a), false))
            }
        }
        T::Int(i) => out.push((i.to_string(), false)),
        T::Float(f) => out.push((term::write_float(*f), false)),
        T::Rat(..) => out.push(("0".into(), false)),
        T::Str(s) => out.push((term::quote_string(s), false)),
        T::PList(items, tail) => {
            out.push(("[".into(), false));
            for (i, it) in items.iter().enumerate() {
                if i > 0 {
                    out.push((",".into(), false));
                }
                arg_tokens(it, out);
            }
            if !tail.is_nil() {
                out.push(("|".into(), false));
                arg_tokens(tail, out);
            }
            out.push(("]".into(), false));
        }
        T::Cmp(n, args) if n == "{}" && args.len() == 1 => {
            out.push(("{".into(), false));
            tokens(&args[0], out);
            out.push(("}".into(), false));
        }
        T::Cmp(n, args) if n == "$op" && args.len() == 3 => {
            // operator notation, always bracketed: ( A op B )
            if let T::Atom(op) = &args[0] {
                out.push(("(".into(), false));
                tokens(&args[1], out);
                out.push((op.clone(), false));
                tokens(&args[2], out);
                out.push((")".into(), false));
            }
        }
        T::Cmp(n, args) if n == "$pre" && args.len() == 2 => {
            if let T::Atom(op) = &args[0] {
                out.push(("(".into(), false));
                out.push((op.clone(), false));
                out.push(("(".into(), false)); // with layout before it: a bracketed operand
                tokens(&args[1], out);
                out.push((")".into(), false));
                out.push((")".into(), false));
            }
        }
        T::Cmp(n, args) => {
            out.push((atom_text(n), false));
            out.push(("(".into(), true));
            for (i, a) in args.iter().enumerate() {
                if i > 0 {
                    out.push((",".into(), false));
                }
                arg_tokens(a, out);
            }
            out.push((")".into(), false));
        }
    }
}

fn arg_tokens(t: &T, out: &mut Vec<(String, bool)>) {
    tokens(t, out)
}

const GAPS: &[&str] = &[" ", " ", " ", "", "\n", "\t", "  ", " /* X _Y */ ", " % Z _ W\n", "\n\n"];

pub fn render(c: &Case) -> String {
    let mut toks = vec![];
    tokens(&c.t, &mut toks);
    let mut s = String::new();
    for (i, (tok, glue)) in toks.iter().enumerate() {
        if i > 0 && !*glue {
            let mut gap = pick_gap(&c.style, i);
            if gap.is_empty() {
                // an empty gap only where no two tokens can fuse: next to punctuation
                let prev = &toks[i - 1].0;
                let punct = |t: &str| matches!(t, "(" | ")" | "[" | "]" | "{" | "}" | "," | "|");
                if !(punct(prev) || punct(tok)) || tok == "(" {
                    gap = " ";
                }
            }
            s.push_str(gap);
        }
        s.push_str(tok);
    }
    s.push_str(match c.suffix % 4 {
        0 => " .",
        1 => ".\n",
        2 => " . next(Clause, Other, _) .\n",
        _ => ".% Trailing Comment\nmore(X,Y).",
    });
    s
}

fn pick_gap(style: &[u8], i: usize) -> &'static str {
    if style.is_empty() {
        return " ";
    }
    GAPS[style[i % style.len()] as usize % GAPS.len()]
}

// ---------------------------------------------------------------------------------------------
// the oracle: scan of the generated structure in text order

pub struct Expected {
    pub term: T,
    pub nvars: u32,
    /// (name, variable number) of the named variables in first-occurrence order
    pub names: Vec<(String, u32)>,
    /// occurrence counts of the named variables
    pub counts: Vec<usize>,
    pub anon: usize,
}

pub fn expected(t: &T) -> Expected {
    fn go(t: &T, e: &mut Expected) -> T {
        match t {
            T::Var(i) => {
                let name = POOL[*i as usize % POOL.len()];
                if name == "_" {
                    e.anon += 1;
                    e.nvars += 1;
                    T::Var(e.nvars - 1)
                } else if let Some(k) = e.names.iter().position(|(n, _)| n == name) {
                    e.counts[k] += 1;
                    T::Var(e.names[k].1)
                } else {
                    e.nvars += 1;
                    e.names.push((name.to_string(), e.nvars - 1));
                    e.counts.push(1);
                    T::Var(e.nvars - 1)
                }
            }
            T::PList(items, tail) => {
                let its: Vec<T> = items.iter().map(|i| go(i, e)).collect();
                let tl = go(tail, e);
                T::PList(its, Box::new(tl))
            }
            T::Cmp(n, args) if n == "$op" && args.len() == 3 => {
                let a = go(&args[1], e);
                let b = go(&args[2], e);
                match &args[0] {
                    T::Atom(op) => T::Cmp(op.clone(), vec![a, b]),
                    _ => unreachable!(),
                }
            }
            T::Cmp(n, args) if n == "$pre" && args.len() == 2 => {
                let a = go(&args[1], e);
                match &args[0] {
                    T::Atom(op) => T::Cmp(op.clone(), vec![a]),
                    _ => unreachable!(),
                }
            }
            T::Cmp(n, args) => T::Cmp(n.clone(), args.iter().map(|a| go(a, e)).collect()),
            T::Rat(..) => T::Int(IBig::ZERO),
            other => other.clone(),
        }
    }
    let mut e = Expected { term: term::nil(), nvars: 0, names: vec![], counts: vec![], anon: 0 };
    let tt = go(t, &mut e);
    e.term = tt.norm();
    e
}

fn codes_text(s: &str) -> String {
    let v: Vec<String> = s.chars().map(|c| (c as u32).to_string()).collect();
    format!("[{}]", v.join(","))
}

thread_local! {
    static FILE_SEQ: std::cell::Cell<u64> = const { std::cell::Cell::new(0) };
}

fn name_pairs(t: &T) -> Option<Vec<(String, T)>> {
    let items: Vec<T> = match t {
        T::Atom(a) if a == "[]" => vec![],
        T::PList(items, tail) if tail.is_nil() => items.clone(),
        _ => return None,
    };
    let mut out = vec![];
    for it in items {
        match it {
            T::Cmp(eq, a) if eq == "=" && a.len() == 2 => match &a[0] {
                T::Atom(n) => out.push((n.clone(), a[1].clone())),
                _ => return None,
            },
            _ => return None,
        }
    }
    Some(out)
}

pub fn check(env: &mut PEnv, c: &Case) -> Verdict {
    let v = check_inner(env, c);
    if let (Ok(path), Verdict::Fail { signature, detail }) = (std::env::var("VERIF_C45_SURVEY"), &v) {
        use std::io::Write;
        if let Ok(mut fh) = std::fs::OpenOptions::new().create(true).append(true).open(path) {
            let _ = fh.write_all(format!("{signature}\t{detail}\n").as_bytes());
        }
        if !signature.starts_with("panic") {
            return Verdict::pass(false, &["survey-failure"]);
        }
    }
    tolerate(v)
}

fn check_inner(env: &mut PEnv, c: &Case) -> Verdict {
    let text = render(c);
    let e = expected(&c.t);
    let spec: Vec<String> = c.opts.chars().filter(|ch| "vns".contains(*ch)).map(|ch| ch.to_string()).collect();
    let (has_v, has_n, has_s) = (c.opts.contains('v'), c.opts.contains('n'), c.opts.contains('s'));
    // pre-bound option arguments
    let mut expect_failure = false;
    let pre = match c.pre % 5 {
        1 if has_v => format!("vars({})", e.nvars),
        2 if has_v => {
            expect_failure = true;
            format!("vars({})", e.nvars + 1)
        }
        3 if has_n => format!("names([{}])", e.names.iter().map(|(n, _)| codes_text(n)).collect::<Vec<_>>().join(",")),
        4 if has_n && !e.names.is_empty() => {
            expect_failure = true;
            let mut ns: Vec<String> = e.names.iter().map(|(n, _)| n.clone()).collect();
            let last = ns.len() - 1;
            ns[last] = format!("{}q", ns[last]);
            format!("names([{}])", ns.iter().map(|n| codes_text(n)).collect::<Vec<_>>().join(","))
        }
        _ => "none".to_string(),
    };
    let mut file: Option<std::path::PathBuf> = None;
    let src = match c.src % 3 {
        0 => "chars".to_string(),
        k => {
            let dir = std::path::Path::new(&verif_dir()).join("scratch");
            let _ = std::fs::create_dir_all(&dir);
            let n = FILE_SEQ.with(|s| {
                s.set(s.get() + 1);
                s.get()
            });
            let p = dir.join(format!("c45-{}-{}.pl", std::process::id(), n % 4));
            if std::fs::write(&p, text.as_bytes()).is_err() {
                return Verdict::Discard("harness:cannot-write-file".into());
            }
            let q = format!("{}({})", if k == 1 { "file3" } else { "file2" }, term::quote_atom(p.to_str().unwrap()));
            file = Some(p);
            q
        }
    };
    let goal = format!("vpr_read({src}, {}, [{}], {pre}, R)", codes_text(&text), spec.join(","));
    let o = env.s.ask(&goal, "R");
    if let Some(p) = file {
        let _ = std::fs::remove_file(p);
    }
    let r = match o {
        crate::session::Outcome::Sols(mut v) if v.len() == 1 => v.pop().unwrap(),
        crate::session::Outcome::Panic(m) => return Verdict::fail(format!("panic:{}", m.split_whitespace().next().unwrap_or("?")), format!("text {:?}: {m}", text)),
        other => return Verdict::Discard(format!("harness:{}", other.short().chars().take(60).collect::<String>())),
    };
    let via = ["read_term_from_chars/3", "read_term/3", "read_term/2"][(c.src % 3) as usize];
    let ctx = format!("{via} on {:?} with options [{}] (pre-bound: {pre})", text, c.opts);
    let res = match &r {
        T::Cmp(n, a) if n == "ok" && a.len() == 1 => match &a[0] {
            T::Cmp(_, f) if f.len() == 4 => Some(f.clone()),
            _ => return Verdict::Discard("harness:bad-result".into()),
        },
        T::Atom(a) if a == "failed" => None,
        T::Cmp(n, a) if n == "ex" && a.len() == 1 => {
            return Verdict::fail("exception:", format!("{ctx}: raised {}", a[0].text()));
        }
        _ => return Verdict::Discard("harness:bad-outcome".into()),
    };
    let Some(f) = res else {
        if expect_failure {
            return Verdict::pass(true, &["prebound-mismatch-fails"]);
        }
        if c.pre % 5 == 1 && has_v && e.anon >= 1 {
            // the variables list of the right length cannot unify when anonymous variables are dropped
            return Verdict::fail(ANON_FAMILY, format!("{ctx}: failed"));
        }
        return Verdict::fail("failed:", format!("{ctx}: failed"));
    };
    if expect_failure {
        return Verdict::fail("prebound-mismatch-succeeded:", format!("{ctx}: succeeded although the pre-bound option argument cannot unify; result {}", r.text()));
    }
    // 1. the term (variables are numbered by first occurrence on both sides)
    if !f[0].eq_struct(&e.term) {
        return Verdict::fail("term:", format!("{ctx}: term read as {} ; expected {}", f[0].text(), e.term.text()));
    }
    // 2. variables/1: all variables in first-occurrence order
    let mut known: Option<Verdict> = None;
    if has_v {
        let want = term::list((0..e.nvars).map(T::Var).collect());
        if !f[1].eq_struct(&want) {
            // known defect family: the list is the expected one minus some anonymous variables
            let named: Vec<u32> = e.names.iter().map(|(_, v)| *v).collect();
            let got: Option<Vec<u32>> = match &f[1] {
                T::Atom(a) if a == "[]" => Some(vec![]),
                T::PList(items, tail) if tail.is_nil() => items.iter().map(|i| if let T::Var(v) = i { Some(*v) } else { None }).collect(),
                _ => None,
            };
            if let Some(got) = got {
                let increasing = got.windows(2).all(|w| w[0] < w[1]);
                let in_range = got.iter().all(|v| *v < e.nvars);
                let all_named_present = named.iter().all(|v| got.contains(v));
                if increasing && in_range && all_named_present && e.anon >= 1 {
                    known = Some(Verdict::fail(ANON_FAMILY, format!("{ctx}: variables = {} ; expected {} (term {})", f[1].text(), want.text(), f[0].text())));
                }
            }
            if known.is_none() {
            return Verdict::fail("variables:", format!("{ctx}: variables = {} ; expected {} (numbering = first occurrence in the term {})", f[1].text(), want.text(), f[0].text()));
            }
        }
    }
    // 3. variable_names/1: Name=Var of the named variables in first-occurrence order
    if has_n {
        let want: Vec<(String, T)> = e.names.iter().map(|(n, v)| (n.clone(), T::Var(*v))).collect();
        match name_pairs(&f[2]) {
            Some(got) if got.len() == want.len() && got.iter().zip(&want).all(|(a, b)| a.0 == b.0 && a.1.eq_struct(&b.1)) => {}
            _ => {
                return Verdict::fail("variable_names:", format!("{ctx}: variable_names = {} ; expected {:?} (term {})", f[2].text(), want, f[0].text()));
            }
        }
    }
    // 4. singletons/1: exactly the named variables with one occurrence (order not prescribed)
    if has_s {
        let mut want: Vec<(String, T)> = e.names.iter().zip(&e.counts).filter(|(_, c)| **c == 1).map(|((n, v), _)| (n.clone(), T::Var(*v))).collect();
        match name_pairs(&f[3]) {
            Some(mut got) => {
                got.sort_by(|a, b| a.0.cmp(&b.0));
                want.sort_by(|a, b| a.0.cmp(&b.0));
                if !(got.len() == want.len() && got.iter().zip(&want).all(|(a, b)| a.0 == b.0 && a.1.eq_struct(&b.1))) {
                    return Verdict::fail("singletons:", format!("{ctx}: singletons = {} ; expected {:?} (term {})", f[3].text(), want, f[0].text()));
                }
            }
            None => return Verdict::fail("singletons:", format!("{ctx}: singletons = {} is not a list of Name=Var", f[3].text())),
        }
    }
    if let Some(v) = known {
        return v;
    }
    let repeated = e.counts.iter().any(|c| *c >= 2);
    let us_named = e.names.iter().any(|(n, _)| n.starts_with('_'));
    let mut classes = vec![via];
    if repeated {
        classes.push("repeated-named-variable");
    }
    if e.anon > 0 {
        classes.push("anonymous-variable");
    }
    if e.anon > 1 {
        classes.push("several-anonymous-variables");
    }
    if us_named {
        classes.push("underscore-prefixed-name");
    }
    if e.names.iter().zip(&e.counts).any(|((n, _), c)| n.starts_with('_') && *c == 1) {
        classes.push("underscore-prefixed-singleton");
    }
    if e.nvars == 0 {
        classes.push("ground");
    }
    if c.pre % 5 != 0 && pre != "none" {
        classes.push("prebound-option-argument");
    }
    if text.contains("/*") || text.contains('%') {
        classes.push("comment-with-variable-like-text");
    }
    classes.push(match c.opts.len() {
        0 => "no-options",
        1 => "one-option",
        2 => "two-options",
        _ => "three-options",
    });
    Verdict::pass(repeated && e.anon > 0 && us_named, &classes)
}

// ---------------------------------------------------------------------------------------------
// generator

fn leaf() -> BoxedStrategy<T> {
    let var = prop_oneof![
        // a small sub-pool is favoured so that names repeat
        6 => (0u32..4).prop_map(T::Var),
        3 => (0u32..POOL.len() as u32).prop_map(T::Var),
    ];
    let atom = any::<u16>().prop_map(|k| T::Atom(pick(&["a", "foo", "X", "_", "_X", "hello World", "[]", "Y1", "aX", "x_Y", "-", "=", "{}", "'"], k).to_string()));
    let string = any::<u16>().prop_map(|k| T::Str(pick(&["X", "_Y Z", "", "a X _", "Ünicode"], k).to_string()));
    let num = prop_oneof![(0i64..100).prop_map(|i| T::Int(IBig::from(i))), Just(T::Float(1.5))];
    prop_oneof![10 => var, 3 => atom, 1 => string, 1 => num].boxed()
}

fn term_strategy() -> BoxedStrategy<T> {
    leaf()
        .prop_recursive(4, 30, 4, |inner| {
            prop_oneof![
                4 => (any::<u16>(), proptest::collection::vec(inner.clone(), 1..=4)).prop_map(|(k, args)| T::Cmp(pick(&["f", "g", "foo", "p", "X", "_", "point"], k).to_string(), args)),
                3 => (any::<u16>(), inner.clone(), inner.clone()).prop_map(|(k, a, b)| T::Cmp("$op".into(), vec![T::Atom(pick(INFIX, k).to_string()), a, b])),
                1 => (any::<u16>(), inner.clone()).prop_map(|(k, a)| T::Cmp("$pre".into(), vec![T::Atom(pick(PREFIX, k).to_string()), a])),
                2 => proptest::collection::vec(inner.clone(), 1..=4).prop_map(|items| T::PList(items, Box::new(term::nil()))),
                1 => (proptest::collection::vec(inner.clone(), 1..=3), inner.clone()).prop_map(|(items, tail)| T::PList(items, Box::new(tail))),
                1 => inner.clone().prop_map(|a| T::Cmp("{}".into(), vec![a])),
            ]
        })
        .boxed()
}

fn case_strategy() -> BoxedStrategy<Case> {
    let opts = any::<u16>().prop_map(|k| pick(&["vns", "nvs", "snv", "svn", "vsn", "nsv", "vn", "nv", "vs", "sv", "ns", "sn", "v", "n", "s", ""], k).to_string());
    (term_strategy(), proptest::collection::vec(0u8..10, 0..=6), opts, 0u8..3, prop_oneof![4 => Just(0u8), 3 => 1u8..5], 0u8..4)
        .prop_map(|(t, style, opts, src, pre, suffix)| Case { t, style, opts, src, pre, suffix })
        .boxed()
}

pub struct C45;

impl Prop for C45 {
    fn id(&self) -> &'static str {
        "C45"
    }
    fn rule(&self) -> &'static str {
        "clause texts written by the harness's own writer from terms (<= 30 nodes: compound terms, bracketed infix/prefix operator terms, lists, partial lists, curly terms, strings and quoted atoms that look like variables) whose variable occurrences are drawn from the names X Y1 _ _X _1 __ Ünicode A_b Z _G12 Xs _x with repetition, random layout/comments (containing variable-like words) between tokens and optional text after the end token; read with read_term_from_chars/3, read_term/3 on a file stream or read_term/2 after set_input/1 with the options variables/1, variable_names/1, singletons/1 in every order and subset, optionally with pre-bound option arguments (matching -> must succeed, non-matching -> must fail); oracle = scan of the generated structure: the term, all variables in first-occurrence order (each _ distinct), Name=Var of the named variables in first-occurrence order, singletons = the named variables (incl. _-prefixed) occurring once (as a set); non-trivial = at least one repeated named variable, one _ and one _-prefixed name; distinct by case encoding"
    }
    fn assumptions(&self) -> Vec<String> {
        vec![
            "the harness's clause writer only emits layout where tokens cannot fuse and brackets every operator term".into(),
            "the order of the singletons list is not prescribed by the statement and is compared as a set".into(),
            "a name starting with a non-ASCII uppercase letter (Ünicode) is a variable, as in the reader's documented character classes".into(),
        ]
    }
    fn run_shard(&self, cfg: &ShardCfg) -> ShardResult {
        let mut d = Driver::new(cfg, "C45");
        d.run("clause", 0, cfg.share(cfg.tier.pick(40_000, 2_000_000)), 5000, case_strategy(), &mk_penv, &check);
        drain_tolerated(&mut d.res);
        d.finish()
    }
    fn replay(&self, _kind: &str, case: &Value) -> Verdict {
        replay_case::<Case, PEnv>(case, &mk_penv, &check)
    }
}
