//! C49 — Integer relation builtins enumerate exactly their relations
//! (library(between) between/3, numlist/2,3; library(lists) length/2; library(iso_ext) succ/2).
use crate::engine::*;
use crate::gen::pick;
use crate::num::ipow2;
use crate::session::{Outcome, Session};
use crate::term::{atom, cmp, int, list, nil, unify, resolve, Subst, T};
use dashu::integer::IBig;
use proptest::prelude::*;
use serde::{Deserialize, Serialize};
use serde_json::Value;

/// Signatures carry no ':' (the driver shrinks within the text before the first ':'; with a
/// colon-free signature a failure can only shrink to a case with exactly the same signature, so an
/// unknown failure can never be minimised into a tolerated known one). Panics keep their form.
fn vfail(sig: impl Into<String>, detail: impl Into<String>) -> Verdict {
    Verdict::fail(nsig(&sig.into()), detail)
}
fn nsig(s: &str) -> String {
    if s.starts_with("panic:") {
        s.to_string()
    } else {
        s.trim_end_matches(':').replace(':', "/")
    }
}

pub const C49_PL: &str = include_str!("../../prolog/c49.pl");

#[derive(Clone, Debug, Serialize, Deserialize)]
pub enum Case {
    Between { l: T, h: T, x: T },
    Numlist3 { l: T, h: T, list: T },
    Numlist2 { h: T, list: T },
    Succ { i: T, s: T },
    Length { list: T, n: T },
}

/// what the relation prescribes for the call
#[derive(Debug)]
pub enum Exp {
    /// exactly these template instances, in this order, and the enumeration terminates
    Finite(Vec<T>),
    /// an infinite relation: exactly these are its first solutions, in this order
    Prefix(Vec<T>),
    /// one of these error Formals
    Errors(Vec<T>),
    /// error(resource_error(_), _) or failure (the docs are silent)
    ResourceOrFail,
    /// numlist/3 with an unbound bound: every solution is in the relation, none repeats
    SoundNumlist,
    /// any alternative
    Alt(Vec<Exp>),
}

const INF_TAKE: usize = 20;
const FIN_TAKE: usize = 500;
const LIMIT: u64 = 2_000_000;

fn is_var(t: &T) -> bool {
    matches!(t, T::Var(_))
}
fn as_int(t: &T) -> Option<&IBig> {
    match t {
        T::Int(v) => Some(v),
        _ => None,
    }
}
fn ty_int(t: &T) -> T {
    cmp("type_error", vec![atom("integer"), t.clone()])
}
fn inst() -> T {
    atom("instantiation_error")
}
fn tup(args: Vec<T>) -> T {
    cmp("t", args)
}
fn run(l: &IBig, h: &IBig) -> T {
    let mut v = vec![];
    let mut i = l.clone();
    while i <= *h {
        v.push(T::Int(i.clone()));
        i += IBig::ONE;
    }
    list(v)
}

/// instance of tuple `pat` (the call's arguments) after unifying argument `k` with `val`
fn unify_arg(pat: &[T], k: usize, val: &T) -> Option<Vec<T>> {
    let mut s = Subst::new();
    match unify(&pat[k], val, &mut s, true) {
        Ok(true) => Some(pat.iter().map(|a| resolve(a, &s)).collect()),
        _ => None,
    }
}

pub fn expect(c: &Case) -> Exp {
    match c {
        Case::Between { l, h, x } => {
            let mut errs = vec![];
            for b in [l, h] {
                if is_var(b) {
                    errs.push(inst());
                } else if as_int(b).is_none() {
                    errs.push(ty_int(b));
                }
            }
            if !is_var(x) && as_int(x).is_none() {
                errs.push(ty_int(x));
            }
            let inf_upper = matches!(h, T::Atom(a) if a == "inf" || a == "infinite");
            if inf_upper && as_int(l).is_some() && (is_var(x) || as_int(x).is_some()) {
                // library(between) documents no infinite bound: a type error, or the unbounded enumeration
                let lv = as_int(l).unwrap();
                let unbounded = match as_int(x) {
                    Some(xv) => Exp::Finite(if xv >= lv { vec![tup(vec![l.clone(), h.clone(), x.clone()])] } else { vec![] }),
                    None => Exp::Prefix((0..INF_TAKE).map(|k| tup(vec![l.clone(), h.clone(), T::Int(lv + IBig::from(k))])).collect()),
                };
                return Exp::Alt(vec![Exp::Errors(errs), unbounded]);
            }
            if !errs.is_empty() {
                return Exp::Errors(errs);
            }
            let (lv, hv) = (as_int(l).unwrap(), as_int(h).unwrap());
            match as_int(x) {
                Some(xv) => Exp::Finite(if lv <= xv && xv <= hv { vec![tup(vec![l.clone(), h.clone(), x.clone()])] } else { vec![] }),
                None => {
                    let count = hv - lv + IBig::ONE;
                    if count <= IBig::ZERO {
                        Exp::Finite(vec![])
                    } else if count <= IBig::from(60) {
                        let n = usize::try_from(&count).unwrap();
                        Exp::Finite((0..n).map(|k| tup(vec![l.clone(), h.clone(), T::Int(lv + IBig::from(k))])).collect())
                    } else {
                        Exp::Prefix((0..INF_TAKE).map(|k| tup(vec![l.clone(), h.clone(), T::Int(lv + IBig::from(k))])).collect())
                    }
                }
            }
        }
        Case::Numlist3 { l, h, list: lst } => {
            let mut errs = vec![];
            for b in [l, h] {
                if !is_var(b) && as_int(b).is_none() {
                    errs.push(ty_int(b));
                }
            }
            if !errs.is_empty() {
                return Exp::Errors(errs);
            }
            let pat = [l.clone(), h.clone(), lst.clone()];
            match (as_int(l), as_int(h)) {
                (Some(lv), Some(hv)) => {
                    if lv > hv {
                        return Exp::Finite(vec![]);
                    }
                    match unify_arg(&pat, 2, &run(lv, hv)) {
                        Some(inst) => Exp::Finite(vec![tup(inst)]),
                        None => Exp::Finite(vec![]),
                    }
                }
                _ => {
                    // a bound proper list of integers determines both bounds: a finite relation
                    if let Some(items) = proper_int_list(lst) {
                        let ok_run = !items.is_empty() && items.windows(2).all(|w| &w[0] + IBig::ONE == w[1]);
                        if !ok_run {
                            return Exp::Finite(vec![]);
                        }
                        let (first, last) = (items[0].clone(), items[items.len() - 1].clone());
                        let okl = as_int(l).map(|v| *v == first).unwrap_or(true);
                        let okh = as_int(h).map(|v| *v == last).unwrap_or(true);
                        return Exp::Finite(if okl && okh { vec![tup(vec![T::Int(first), T::Int(last), lst.clone()])] } else { vec![] });
                    }
                    Exp::SoundNumlist
                }
            }
        }
        Case::Numlist2 { h, list: lst } => {
            if !is_var(h) && as_int(h).is_none() {
                return Exp::Errors(vec![ty_int(h)]);
            }
            let pat = [h.clone(), lst.clone()];
            match as_int(h) {
                Some(hv) => match unify_arg(&pat, 1, &run(&IBig::ONE, hv)) {
                    Some(inst) => Exp::Finite(vec![tup(inst)]),
                    None => Exp::Finite(vec![]),
                },
                None => {
                    // Upper unbound: k = 1, 2, ... ascending; a proper list fixes k
                    let mut sols = vec![];
                    let proper = proper_len(lst);
                    for k in 1..=(INF_TAKE as i64 + 8) {
                        if let Some(inst) = unify_arg(&pat, 1, &run(&IBig::ONE, &IBig::from(k))) {
                            let mut inst = inst;
                            inst[0] = int(k);
                            sols.push(tup(inst));
                        }
                    }
                    match proper {
                        Some(_) => Exp::Finite(sols),
                        None => {
                            sols.truncate(INF_TAKE);
                            Exp::Prefix(sols)
                        }
                    }
                }
            }
        }
        Case::Succ { i, s } => {
            let mut errs = vec![];
            if is_var(i) && is_var(s) {
                errs.push(inst());
            }
            for a in [i, s] {
                match a {
                    T::Var(_) => {}
                    T::Int(v) => {
                        if *v < IBig::ZERO {
                            errs.push(cmp("domain_error", vec![atom("not_less_than_zero"), a.clone()]));
                        }
                    }
                    _ => errs.push(ty_int(a)),
                }
            }
            if !errs.is_empty() {
                return Exp::Errors(errs);
            }
            match (as_int(i), as_int(s)) {
                (Some(iv), Some(sv)) => Exp::Finite(if iv + IBig::ONE == *sv { vec![tup(vec![i.clone(), s.clone()])] } else { vec![] }),
                (Some(iv), None) => Exp::Finite(vec![tup(vec![i.clone(), T::Int(iv + IBig::ONE)])]),
                (None, Some(sv)) => Exp::Finite(if *sv > IBig::ZERO { vec![tup(vec![T::Int(sv - IBig::ONE), s.clone()])] } else { vec![] }),
                _ => unreachable!(),
            }
        }
        Case::Length { list: lst, n } => {
            let n_err: Option<T> = match n {
                T::Var(_) => None,
                T::Int(v) if *v < IBig::ZERO => Some(cmp("domain_error", vec![atom("not_less_than_zero"), n.clone()])),
                T::Int(_) => None,
                _ => Some(ty_int(n)),
            };
            let (items, tail): (Vec<T>, T) = match lst.norm() {
                T::PList(items, tail) => (items, *tail),
                other => (vec![], other),
            };
            let k = items.len();
            match &tail {
                T::Atom(a) if a == "[]" => {
                    if let Some(e) = n_err {
                        return Exp::Errors(vec![e]);
                    }
                    match n {
                        T::Var(_) => Exp::Finite(vec![tup(vec![lst.clone(), int(k as i64)])]),
                        T::Int(v) => Exp::Finite(if *v == IBig::from(k) { vec![tup(vec![lst.clone(), n.clone()])] } else { vec![] }),
                        _ => unreachable!(),
                    }
                }
                T::Var(tv) => {
                    if let Some(e) = n_err {
                        return Exp::Errors(vec![e]);
                    }
                    if matches!(n, T::Var(nv) if nv == tv) {
                        // the length is the tail: no finite list satisfies it
                        return Exp::ResourceOrFail;
                    }
                    let extend = |j: usize| -> T {
                        let mut v = items.clone();
                        v.extend((0..j).map(|q| T::Var(5000 + q as u32)));
                        list(v)
                    };
                    match n {
                        T::Var(_) => Exp::Prefix((0..INF_TAKE).map(|j| tup(vec![extend(j), int((k + j) as i64)])).collect()),
                        T::Int(v) => {
                            if *v < IBig::from(k) {
                                Exp::Finite(vec![])
                            } else if *v > IBig::from(100_000) {
                                Exp::ResourceOrFail
                            } else {
                                let j = usize::try_from(v).unwrap() - k;
                                Exp::Finite(vec![tup(vec![extend(j), n.clone()])])
                            }
                        }
                        _ => unreachable!(),
                    }
                }
                _ => {
                    // not a list and no partial list: failure, or a type error; a bad length may be reported first
                    let mut errs = vec![cmp("type_error", vec![atom("list"), lst.clone()])];
                    if let Some(e) = n_err {
                        errs.push(e);
                    }
                    Exp::Alt(vec![Exp::Finite(vec![]), Exp::Errors(errs)])
                }
            }
        }
    }
}

fn proper_int_list(t: &T) -> Option<Vec<IBig>> {
    match t.norm() {
        T::Atom(a) if a == "[]" => Some(vec![]),
        T::PList(items, tail) if tail.is_nil() => items.iter().map(|x| as_int(x).cloned()).collect(),
        _ => None,
    }
}

fn proper_len(t: &T) -> Option<usize> {
    match t.norm() {
        T::Atom(a) if a == "[]" => Some(0),
        T::PList(items, tail) if tail.is_nil() => Some(items.len()),
        _ => None,
    }
}

fn is_infinite(e: &Exp) -> bool {
    match e {
        Exp::Prefix(_) | Exp::SoundNumlist => true,
        Exp::Alt(v) => v.iter().any(is_infinite),
        _ => false,
    }
}

// ---------------------------------------------------------------------------------------------
// generators

fn int_arg() -> BoxedStrategy<T> {
    let small = (-6i64..=9).prop_map(int);
    let edge = (any::<u16>(), -3i64..=3).prop_map(|(k, d)| {
        let base = pick(&[ipow2(55), -ipow2(55), ipow2(63), ipow2(64), -ipow2(64), ipow2(70), ipow2(31)], k);
        T::Int(base + IBig::from(d))
    });
    prop_oneof![6 => small, 2 => edge].boxed()
}

fn bad_int() -> BoxedStrategy<T> {
    any::<u16>().prop_map(|k| pick(&[atom("a"), T::Float(1.0), T::Float(2.5), cmp("f", vec![int(1)]), atom("inf"), atom("infinite"), list(vec![int(1)]), atom("[]")], k)).boxed()
}

/// (l, h) with h near l, far above, or below
fn bounds() -> BoxedStrategy<(T, T)> {
    (int_arg(), prop_oneof![6 => (-3i64..=12).prop_map(IBig::from), 1 => (50i64..=70).prop_map(IBig::from), 1 => Just(ipow2(64)), 1 => Just(ipow2(20))])
        .prop_map(|(l, d)| {
            let lv = as_int(&l).unwrap().clone();
            (l, T::Int(lv + d))
        })
        .boxed()
}

fn between_case() -> BoxedStrategy<Case> {
    let normal = (bounds(), 0u8..10, -4i64..=15).prop_map(|((l, h), m, dx)| {
        let x = if m < 5 { T::Var(0) } else { T::Int(as_int(&l).unwrap() + IBig::from(dx)) };
        Case::Between { l, h, x }
    });
    let inf = (int_arg(), any::<bool>(), 0u8..3, -2i64..=5).prop_map(|(l, w, m, dx)| {
        let x = if m == 0 { T::Var(0) } else { T::Int(as_int(&l).unwrap() + IBig::from(dx)) };
        Case::Between { l, h: atom(if w { "inf" } else { "infinite" }), x }
    });
    let bad = (bounds(), bad_int(), 0u8..6, any::<bool>()).prop_map(|((l, h), b, pos, var)| {
        let v = if var { T::Var(1) } else { b };
        match pos {
            0 | 3 => Case::Between { l: v, h, x: T::Var(0) },
            1 | 4 => Case::Between { l, h: v, x: T::Var(0) },
            2 => Case::Between { l, h, x: if var { T::Float(1.0) } else { v } },
            _ => Case::Between { l: v.clone(), h: v, x: int(1) },
        }
    });
    prop_oneof![10 => normal, 2 => inf, 3 => bad].boxed()
}

/// a list argument derived from the true answer `r`: correct, perturbed, partial, with holes, unbound
fn list_arg(r: Vec<T>, k: u8, pos: u16) -> T {
    let n = r.len();
    match k {
        0..=3 => T::Var(0),
        4 => list(r),
        5 => {
            // one element changed
            if n == 0 {
                list(vec![int(1)])
            } else {
                let mut v = r;
                let i = (pos as usize) % n;
                v[i] = int(77);
                list(v)
            }
        }
        6 => {
            // prefix + unbound tail
            let i = if n == 0 { 0 } else { (pos as usize) % (n + 1) };
            let v: Vec<T> = r[..i].to_vec();
            if v.is_empty() {
                T::Var(3)
            } else {
                T::PList(v, Box::new(T::Var(3)))
            }
        }
        7 => {
            // a hole
            if n == 0 {
                nil()
            } else {
                let mut v = r;
                let i = (pos as usize) % n;
                v[i] = T::Var(4);
                list(v)
            }
        }
        8 => {
            // too short / too long
            let mut v = r;
            if pos % 2 == 0 && !v.is_empty() {
                v.pop();
            } else {
                v.push(int(5));
            }
            list(v)
        }
        _ => list(vec![atom("a")]),
    }
}

fn run_vec(l: &IBig, h: &IBig) -> Vec<T> {
    let mut v = vec![];
    let mut i = l.clone();
    while i <= *h && v.len() < 200 {
        v.push(T::Int(i.clone()));
        i += IBig::ONE;
    }
    v
}

fn numlist3_case() -> BoxedStrategy<Case> {
    let closed = (int_arg(), -3i64..=9, 0u8..10, any::<u16>()).prop_map(|(l, d, k, pos)| {
        let lv = as_int(&l).unwrap().clone();
        let hv = &lv + IBig::from(d);
        let lst = list_arg(run_vec(&lv, &hv), k, pos);
        Case::Numlist3 { l, h: T::Int(hv), list: lst }
    });
    let open = (-4i64..=5, 0i64..=4, 0u8..8).prop_map(|(l, d, mode)| {
        let (lv, hv) = (IBig::from(l), IBig::from(l + d));
        // An unbound bound together with a bound list (a finite relation) is excluded by construction:
        // numlist/3 generates-and-tests over all integers there and never terminates after its
        // solution, and cutting it off with call_with_inference_limit/3 while its inner findall/3 is
        // active corrupts the enclosing findall/3 result (observed: wrong or partial result lists),
        // so no verdict could be trusted. Reported, not run.
        let lst = T::Var(0);
        match mode % 3 {
            0 => Case::Numlist3 { l: T::Var(1), h: T::Int(hv), list: lst },
            1 => Case::Numlist3 { l: T::Int(lv), h: T::Var(2), list: lst },
            _ => Case::Numlist3 { l: T::Var(1), h: T::Var(2), list: lst },
        }
    });
    let bad = (bad_int(), any::<bool>(), int_arg()).prop_map(|(b, first, o)| if first { Case::Numlist3 { l: b, h: o, list: T::Var(0) } } else { Case::Numlist3 { l: o, h: b, list: T::Var(0) } });
    prop_oneof![10 => closed, 2 => open, 2 => bad].boxed()
}

fn numlist2_case() -> BoxedStrategy<Case> {
    let closed = (-3i64..=12, 0u8..10, any::<u16>()).prop_map(|(h, k, pos)| Case::Numlist2 { h: int(h), list: list_arg(run_vec(&IBig::ONE, &IBig::from(h)), k, pos) });
    let open = (1i64..=6, 0u8..10, any::<u16>()).prop_map(|(h, k, pos)| {
        let lst = list_arg(run_vec(&IBig::ONE, &IBig::from(h)), k, pos);
        // Upper unbound with the empty list is left out (the relation {U =< 0} is infinite there, the library says no)
        let lst = if lst.is_nil() { T::Var(0) } else { lst };
        Case::Numlist2 { h: T::Var(1), list: lst }
    });
    let bad = bad_int().prop_map(|b| Case::Numlist2 { h: b, list: T::Var(0) });
    prop_oneof![6 => closed, 3 => open, 1 => bad].boxed()
}

fn succ_case() -> BoxedStrategy<Case> {
    let a = prop_oneof![5 => int_arg(), 3 => Just(T::Var(0)), 1 => bad_int(), 1 => Just(int(0)), 1 => Just(int(-1))];
    let b = prop_oneof![5 => int_arg(), 3 => Just(T::Var(1)), 1 => bad_int(), 1 => Just(int(0)), 1 => Just(int(1))];
    let pair = (a, b).prop_map(|(i, s)| Case::Succ { i, s });
    let adjacent = (int_arg(), -1i64..=2, 0u8..3).prop_map(|(i, d, m)| {
        let iv = as_int(&i).unwrap().clone();
        let s = T::Int(iv + IBig::from(d));
        match m {
            0 => Case::Succ { i, s },
            1 => Case::Succ { i: T::Var(0), s },
            _ => Case::Succ { i, s: T::Var(1) },
        }
    });
    prop_oneof![pair, adjacent].boxed()
}

fn length_case() -> BoxedStrategy<Case> {
    let item = prop_oneof![3 => any::<u16>().prop_map(|k| atom(pick(&["a", "b", "c"], k))), 1 => (10u32..13).prop_map(T::Var), 1 => (0i64..3).prop_map(int)];
    let items = proptest::collection::vec(item, 0..=6);
    let lst = (items, 0u8..12, any::<u16>()).prop_map(|(v, shape, k)| match shape {
        0..=3 => list(v),
        4 => T::Str(pick(&["", "a", "abc", "hello"], k).to_string()),
        5..=7 => {
            if v.is_empty() {
                T::Var(0)
            } else {
                T::PList(v, Box::new(T::Var(0)))
            }
        }
        8 => {
            // tail shared with the length argument (marked by Var(1), see below)
            if v.is_empty() {
                T::Var(1)
            } else {
                T::PList(v, Box::new(T::Var(1)))
            }
        }
        9 => T::PList(if v.is_empty() { vec![atom("a")] } else { v }, Box::new(atom("b"))),
        10 => pick(&[atom("foo"), int(3), cmp("f", vec![atom("x")]), T::Float(1.0)], k),
        _ => T::Var(0),
    });
    let n = prop_oneof![
        6 => Just(T::Var(1)),
        6 => (0i64..=8).prop_map(int),
        1 => (-3i64..=-1).prop_map(int),
        1 => any::<u16>().prop_map(|k| T::Int(pick(&[ipow2(70), ipow2(64) + IBig::ONE, -ipow2(70), ipow2(56)], k))),
        1 => any::<u16>().prop_map(|k| pick(&[atom("a"), T::Float(2.0), T::Float(1.5), cmp("f", vec![int(1)])], k)),
    ];
    (lst, n).prop_map(|(list, n)| Case::Length { list, n }).boxed()
}

pub fn case_strategy() -> BoxedStrategy<Case> {
    prop_oneof![5 => between_case(), 3 => numlist3_case(), 2 => numlist2_case(), 3 => succ_case(), 6 => length_case()].boxed()
}

// ---------------------------------------------------------------------------------------------
// execution

pub struct Env {
    pub s: Session,
    pub ok: bool,
}

pub fn mk_env() -> Env {
    let mut s = Session::new(&["between", "lists", "iso_ext"]);
    let ok = s.consult(C49_PL, "c49");
    Env { s, ok }
}

fn call_parts(c: &Case) -> (&'static str, Vec<T>) {
    match c {
        Case::Between { l, h, x } => ("between", vec![l.clone(), h.clone(), x.clone()]),
        Case::Numlist3 { l, h, list } => ("numlist", vec![l.clone(), h.clone(), list.clone()]),
        Case::Numlist2 { h, list } => ("numlist", vec![h.clone(), list.clone()]),
        Case::Succ { i, s } => ("succ", vec![i.clone(), s.clone()]),
        Case::Length { list, n } => ("length", vec![list.clone(), n.clone()]),
    }
}

fn mode_str(args: &[T]) -> String {
    args.iter()
        .map(|a| match a {
            T::Var(_) => 'u',
            t if t.is_ground() => 'b',
            _ => 'p',
        })
        .collect()
}

enum Got {
    Sols(Vec<T>),
    Ball(T),
    Limit,
}

fn judge(exp: &Exp, got: &Got, args: &[T]) -> Result<(), (String, String)> {
    match exp {
        Exp::Alt(alts) => {
            let mut last = None;
            for a in alts {
                match judge(a, got, args) {
                    Ok(()) => return Ok(()),
                    Err(e) => last = Some(e),
                }
            }
            Err(last.unwrap_or(("no-alternative".into(), String::new())))
        }
        Exp::Errors(es) => match got {
            Got::Ball(T::Cmp(n, a)) if n == "error" && a.len() == 2 => {
                if es.iter().any(|e| e.eq_struct(&a[0])) {
                    Ok(())
                } else {
                    Err(("wrong-error".into(), format!("raised {}; expected one of {:?}", a[0].text(), es.iter().map(|e| e.text()).collect::<Vec<_>>())))
                }
            }
            Got::Ball(b) => Err(("non-error-ball".into(), format!("threw {}", b.text().chars().take(200).collect::<String>()))),
            Got::Sols(v) => Err(("no-error".into(), format!("gave {} solution(s) {}; expected one of {:?}", v.len(), v.first().map(|t| t.text()).unwrap_or_default(), es.iter().map(|e| e.text()).collect::<Vec<_>>()))),
            Got::Limit => Err(("nontermination".into(), "inference limit exceeded where an error is expected".into())),
        },
        Exp::ResourceOrFail => match got {
            Got::Sols(v) if v.is_empty() => Ok(()),
            Got::Ball(T::Cmp(n, a)) if n == "error" && a.len() == 2 && matches!(&a[0], T::Cmp(r, _) if r == "resource_error") => Ok(()),
            Got::Ball(b) => Err(("non-error-ball".into(), format!("threw {}; expected a resource error or failure", b.text().chars().take(200).collect::<String>()))),
            Got::Sols(v) => Err(("unexpected-solution".into(), format!("gave {}; no finite list satisfies the call", v[0].text()))),
            Got::Limit => Err(("nontermination".into(), "inference limit exceeded; expected a resource error or failure".into())),
        },
        Exp::Finite(want) | Exp::Prefix(want) => match got {
            Got::Limit => Err(("nontermination".into(), format!("inference limit {LIMIT} exceeded; the relation has {} solution(s) here", if matches!(exp, Exp::Finite(_)) { want.len().to_string() } else { "infinitely many".into() }))),
            Got::Ball(b) => Err(("unexpected-error".into(), format!("threw {}; expected {}", b.text().chars().take(200).collect::<String>(), show_sols(want)))),
            Got::Sols(g) => {
                let g2: &[T] = if matches!(exp, Exp::Prefix(_)) && g.len() > want.len() { &g[..want.len()] } else { g };
                if g2.len() == want.len() && g2.iter().zip(want).all(|(x, y)| x.variant(y)) {
                    return Ok(());
                }
                // classify
                let as_set = |v: &[T]| -> Vec<String> {
                    let mut s: Vec<String> = v.iter().map(|t| t.norm().canon_vars().text()).collect();
                    s.sort();
                    s
                };
                let (gs, ws) = (as_set(g2), as_set(want));
                let mut gd = gs.clone();
                gd.dedup();
                let what = if gd.len() < gs.len() {
                    "duplicates"
                } else if gs == ws {
                    "order"
                } else if g2.len() < want.len() {
                    "missing"
                } else if g2.len() > want.len() {
                    "extra"
                } else {
                    "wrong-solution"
                };
                Err((what.into(), format!("gave {}; expected {}", show_sols(g2), show_sols(want))))
            }
        },
        Exp::SoundNumlist => match got {
            Got::Limit => Err(("nontermination".into(), "inference limit exceeded before 10 solutions of an infinite relation".into())),
            Got::Ball(b) => Err(("unexpected-error".into(), format!("threw {}", b.text().chars().take(200).collect::<String>()))),
            Got::Sols(g) => {
                if g.len() < 10 {
                    return Err(("missing".into(), format!("only {} solutions of an infinite relation: {}", g.len(), show_sols(g))));
                }
                let mut seen: Vec<String> = vec![];
                for s in g {
                    let T::Cmp(_, a) = s else { return Err(("wrong-solution".into(), s.text())) };
                    let (Some(lv), Some(hv)) = (as_int(&a[0]), as_int(&a[1])) else { return Err(("wrong-solution".into(), format!("unbound bound in {}", s.text()))) };
                    let okb = (0..2).all(|i| is_var(&args[i]) || args[i].eq_struct(&a[i]));
                    if !okb || lv > hv || !a[2].norm().eq_struct(&run(lv, hv).norm()) {
                        return Err(("wrong-solution".into(), format!("{} is not in the relation", s.text())));
                    }
                    let key = s.text();
                    if seen.contains(&key) {
                        return Err(("duplicates".into(), format!("{} repeated", key)));
                    }
                    seen.push(key);
                }
                Ok(())
            }
        },
    }
}

fn show_sols(v: &[T]) -> String {
    let mut s = format!("{} solution(s) [", v.len());
    for (i, t) in v.iter().enumerate().take(6) {
        if i > 0 {
            s.push_str("; ");
        }
        s.push_str(&t.text());
    }
    if v.len() > 6 {
        s.push_str("; ...");
    }
    s.push(']');
    s
}

pub fn check(env: &mut Env, c: &Case) -> Verdict {
    if !env.ok {
        return Verdict::Discard("c49.pl rejected".into());
    }
    let exp = expect(c);
    let (name, args) = call_parts(c);
    // In Length the shared tail is expressed by the same variable in both arguments (Var(1)).
    let goal = cmp(name, args.clone()).text();
    let tmpl = tup(args.clone()).text();
    let take = if is_infinite(&exp) { if matches!(exp, Exp::SoundNumlist) { 10 } else { INF_TAKE } } else { FIN_TAKE };
    let q = format!("c49_run({goal}, {tmpl}, {take}, {LIMIT}, Zres)");
    let o = env.s.ask_once(&q, "Zres");
    let res = match &o {
        Outcome::Sols(v) if v.len() == 1 => v[0].clone(),
        Outcome::Panic(m) => {
            let loc = m.split_whitespace().next().unwrap_or("?");
            return vfail(format!("panic:{loc}"), format!("{goal} panicked: {m}"));
        }
        Outcome::Harness(m) => return Verdict::Discard(format!("harness:{}", m.chars().take(40).collect::<String>())),
        other => return vfail("driver:unexpected", format!("c49_run gave {} for {goal}", other.short())),
    };
    let got = match &res {
        T::Atom(a) if a == "limit" => Got::Limit,
        T::Cmp(f, a) if f == "ok" && a.len() == 1 => match a[0].norm() {
            T::Atom(x) if x == "[]" => Got::Sols(vec![]),
            T::PList(items, tail) if tail.is_nil() => Got::Sols(items),
            _ => return Verdict::Discard("harness:result-shape".into()),
        },
        T::Cmp(f, a) if f == "ex" && a.len() == 1 => Got::Ball(a[0].clone()),
        _ => return Verdict::Discard("harness:result-shape".into()),
    };
    let mode = mode_str(&args);
    let pred = format!("{name}{}", args.len());
    if let Err((what, detail)) = judge(&exp, &got, &args) {
        // a flavour tag for bignum arguments keeps the signatures of different defects apart
        let big = args.iter().any(|a| matches!(a, T::Int(v) if crate::num::bit_len(v) > 55 && *v > IBig::ZERO));
        let negbig = args.iter().any(|a| matches!(a, T::Int(v) if crate::num::bit_len(v) > 55 && *v < IBig::ZERO));
        return vfail(format!("{what}:{pred}:{mode}{}{}", if big { ":big" } else { "" }, if negbig { ":negbig" } else { "" }), format!("{goal}: {detail}"));
    }
    let mut classes: Vec<String> = vec![format!("{pred}-{mode}")];
    let mut nontrivial = false;
    let big = args.iter().any(|a| matches!(a, T::Int(v) if crate::num::bit_len(v) > 55));
    if big {
        classes.push("bignum".into());
        nontrivial = true;
    }
    if args.iter().any(|a| matches!(a, T::PList(_, t) if is_var(t))) {
        classes.push("partial-list".into());
        nontrivial = true;
    }
    if args.iter().any(|a| matches!(a, T::Atom(x) if x == "inf" || x == "infinite")) {
        classes.push("inf".into());
        nontrivial = true;
    }
    match (&exp, &got) {
        (_, Got::Ball(_)) => {
            classes.push("error".into());
            nontrivial = true;
        }
        (Exp::Prefix(_) | Exp::SoundNumlist, _) => classes.push("infinite-enumeration".into()),
        (_, Got::Sols(v)) => classes.push(match v.len() { 0 => "fails", 1 => "one-solution", _ => "finite-enumeration" }.into()),
        _ => {}
    }
    if matches!(exp, Exp::ResourceOrFail) {
        classes.push("no-finite-list".into());
        nontrivial = true;
    }
    let cls: Vec<&str> = classes.iter().map(|s| s.as_str()).collect();
    Verdict::pass(nontrivial, &cls)
}

pub struct C49;

impl Prop for C49 {
    fn id(&self) -> &'static str {
        "C49"
    }
    fn rule(&self) -> &'static str {
        "single calls of between/3, numlist/3, numlist/2, succ/2, length/2 in every instantiation mode: integer arguments small, negative and around 2^31/2^55/2^63/2^64/2^70, inf/infinite upper bounds, ill-typed and unbound arguments; list arguments proper, strings, partial (unbound tail), tail shared with the length, improper, non-lists, and for numlist the true answer perturbed (changed element, hole, prefix, too short/long); each call runs under call_with_inference_limit (2e6) collecting the first 500 (finite) or 20 (infinite relation) solutions, which must equal the mathematical relation in ascending order without duplicates (variant comparison), finite relations must terminate, errors must be among those the library source raises for the ill-typed argument; non-trivial = a partial list, a bignum or inf argument, or an error outcome; distinct by case encoding"
    }
    fn assumptions(&self) -> Vec<String> {
        vec![
            "call_with_inference_limit/3, call_nth/2 and findall/3 (the bounded collector) work".into(),
            "accepted freedom: between/3 with inf/infinite raises type_error(integer,_) or enumerates unboundedly; length/2 of a non-list fails or raises type_error(list,_); length/2 with the tail as the length or a partial list and a huge length raises a resource error or fails; numlist/3 with an unbound bound is only checked for soundness and absence of duplicates (its enumeration order is not documented); which of several applicable errors is raised".into(),
        ]
    }
    fn run_shard(&self, cfg: &ShardCfg) -> ShardResult {
        let mut d = Driver::new(cfg, "C49");
        let n = cfg.share(cfg.tier.pick(30_000, 1_500_000));
        d.run("call", 0, n, 2000, case_strategy(), &mk_env, &check);
        d.finish()
    }
    fn replay(&self, _kind: &str, case: &Value) -> Verdict {
        replay_case::<Case, Env>(case, &mk_env, &check)
    }
}
