//! C16 — Numeric literals and number/text conversions are exact.
use crate::engine::*;
use crate::gen::*;
use crate::shared::isotok::{self, NumEval};
use crate::shared::printer::*;
use crate::term::{self, T};
use dashu::integer::IBig;
use proptest::prelude::*;
use serde::{Deserialize, Serialize};
use serde_json::Value;

#[derive(Clone, Debug, Serialize, Deserialize)]
pub enum Case {
    /// a spelling shown to the reader, number_codes/2 and number_chars/2 as data
    Spelling(String),
    /// a number converted to text and back
    Number(T),
}

fn codes_text(s: &str) -> String {
    let v: Vec<String> = s.chars().map(|c| (c as u32).to_string()).collect();
    format!("[{}]", v.join(","))
}

#[derive(Clone, Debug)]
enum Out {
    Ok(T),
    Failed,
    Ex(T),
}

fn out_of(t: &T) -> Result<Out, String> {
    match t {
        T::Cmp(n, a) if n == "ok" && a.len() == 1 => Ok(Out::Ok(a[0].clone())),
        T::Cmp(n, a) if n == "ex" && a.len() == 1 => Ok(Out::Ex(a[0].clone())),
        T::Atom(a) if a == "failed" => Ok(Out::Failed),
        other => Err(format!("unexpected outcome {}", other.text())),
    }
}

fn is_syntax_error(o: &Out) -> bool {
    matches!(o, Out::Ex(T::Cmp(n, a)) if n == "error" && a.len() == 2 && matches!(&a[0], T::Cmp(k, _) if k == "syntax_error"))
}

fn show(o: &Out) -> String {
    match o {
        Out::Ok(t) => t.text(),
        Out::Failed => "failure".into(),
        Out::Ex(b) => format!("exception {}", b.text()),
    }
}

fn num_eq(a: &T, b: &T) -> bool {
    match (a, b) {
        (T::Int(x), T::Int(y)) => x == y,
        // the machine has no -0.0 (it is interned as 0.0): the two zeros are one number here
        (T::Float(x), T::Float(y)) => x.to_bits() == y.to_bits() || (*x == 0.0 && *y == 0.0),
        _ => false,
    }
}

fn ulp_apart(a: &T, b: &T) -> bool {
    match (a, b) {
        (T::Float(x), T::Float(y)) => x.is_sign_negative() == y.is_sign_negative() && (x.to_bits() as i128 - y.to_bits() as i128).abs() == 1,
        _ => false,
    }
}

/// classification of a spelling for signatures / classes
fn spelling_kind(s: &str) -> &'static str {
    let b = s.trim_start_matches(|c: char| c == '-' || isotok::is_layout(c));
    if b.starts_with("0'") {
        "charcode"
    } else if b.starts_with("0x") || b.starts_with("0o") || b.starts_with("0b") {
        "radix"
    } else if b.contains('.') && b.chars().next().map(|c| c.is_ascii_digit()).unwrap_or(false) {
        "float"
    } else if b.contains('_') {
        "digit-group"
    } else {
        "integer"
    }
}

fn sig_digits(s: &str) -> usize {
    let mant: String = s.chars().take_while(|c| *c != 'e' && *c != 'E').filter(|c| c.is_ascii_digit()).collect();
    mant.trim_start_matches('0').len()
}

const TRAILING_US: &str = "trailing-underscore:number_codes-and-number_chars-accept-a-digit-group-ending-in-underscore";

/// `s` is a valid literal followed by one `_` (and optional layout), e.g. "1_000_"
fn trailing_underscore_value(s: &str) -> Option<T> {
    // the last `_` is followed by nothing but layout text / comments
    let i = s.rfind('_')?;
    // (or by a lone `/` at the very end, where the lexer's comment probe meets the end of input)
    let rest = &s[i + 1..];
    let rest = rest.strip_suffix('/').filter(|r| !r.ends_with('/') ).unwrap_or(rest);
    if !matches!(isotok::tokenize(rest), Ok(ref v) if v.is_empty()) {
        return None;
    }
    let body = &s[..i];
    match isotok::eval_number_text(body) {
        NumEval::Value(v) | NumEval::ValueWithLayout(v) => Some(v),
        NumEval::NotNumber => None,
    }
}

const LOSSY: &str = "float-lossy-1ulp:long-float-literal-read-one-ulp-off";

fn perr(e: PErr, what: &str) -> Verdict {
    match e {
        PErr::Panic(m) => Verdict::fail(format!("panic:{}", m.split_whitespace().next().unwrap_or("?")), format!("{what}: {m}")),
        PErr::Harness(m) => Verdict::Discard(format!("harness:{}", m.chars().take(60).collect::<String>())),
    }
}

fn ask1(env: &mut PEnv, goal: &str, tmpl: &str) -> Result<T, PErr> {
    match env.s.ask(goal, tmpl) {
        crate::session::Outcome::Sols(mut v) if v.len() == 1 => Ok(v.pop().unwrap()),
        crate::session::Outcome::Panic(m) => Err(PErr::Panic(m)),
        other => Err(PErr::Harness(other.short().chars().take(200).collect())),
    }
}

fn check_spelling(env: &mut PEnv, s: &str) -> Verdict {
    let ev = isotok::eval_number_text(s);
    let r = match ask1(env, &format!("vpn_spell({}, R)", codes_text(s)), "R") {
        Ok(r) => r,
        Err(e) => return perr(e, &format!("spelling {:?}", s)),
    };
    let T::Cmp(_, a) = &r else { return Verdict::Discard("harness:bad-result".into()) };
    let (r1, r2, r3) = match (out_of(&a[0]), out_of(&a[1]), out_of(&a[2])) {
        (Ok(x), Ok(y), Ok(z)) => (x, y, z),
        _ => return Verdict::Discard("harness:bad-outcome".into()),
    };
    let kind = spelling_kind(s);
    let long_float = kind == "float" && sig_digits(s) > 15;
    // number_codes/2 and number_chars/2 must agree with each other on everything
    let agree = match (&r2, &r3) {
        (Out::Ok(x), Out::Ok(y)) => num_eq(x, y),
        (Out::Ex(_), Out::Ex(_)) => is_syntax_error(&r2) == is_syntax_error(&r3),
        (Out::Failed, Out::Failed) => true,
        _ => false,
    };
    if !agree {
        return Verdict::fail(format!("disagree:number_codes-vs-number_chars:{kind}"), format!("spelling {:?}: number_codes gives {}, number_chars gives {}", s, show(&r2), show(&r3)));
    }
    let mut classes: Vec<&str> = vec![kind];
    match &ev {
        NumEval::Value(n) | NumEval::ValueWithLayout(n) => {
            let strict = matches!(ev, NumEval::Value(_));
            classes.push(if strict { "valid-literal" } else { "valid-literal-with-layout" });
            // the reader
            let minus_layout = !strict && s.trim_start().starts_with('-') && s.trim_start()[1..].starts_with(|c: char| isotok::is_layout(c) || c == '%' || c == '/');
            let reader_ok = match &r1 {
                Out::Ok(t) => {
                    num_eq(t, n)
                        || (minus_layout
                            && match (t, n) {
                                // `- 1`: ISO reads the number -1; reading -(1) is tolerated
                                (T::Cmp(m, a), T::Int(i)) if m == "-" && a.len() == 1 => num_eq(&a[0], &T::Int(-i.clone())),
                                (T::Cmp(m, a), T::Float(f)) if m == "-" && a.len() == 1 => num_eq(&a[0], &T::Float(-*f)),
                                _ => false,
                            })
                }
                _ => false,
            };
            if !reader_ok {
                if let Out::Ok(t) = &r1 {
                    if long_float && ulp_apart(t, n) {
                        return Verdict::fail(LOSSY, format!("the reader reads {:?} as {} ; the correctly rounded value is {}", s, t.text(), n.text()));
                    }
                }
                return Verdict::fail(format!("reader-value:{kind}"), format!("the reader reads {:?} as {} ; expected {}", s, show(&r1), n.text()));
            }
            // number_codes / number_chars
            for (name, r) in [("number_codes", &r2), ("number_chars", &r3)] {
                let ok = match r {
                    Out::Ok(t) => num_eq(t, n),
                    _ => !strict && is_syntax_error(r),
                };
                if !ok {
                    if let Out::Ok(t) = r {
                        if long_float && ulp_apart(t, n) {
                            return Verdict::fail(LOSSY, format!("{name} converts {:?} to {} ; the correctly rounded value is {}", s, t.text(), n.text()));
                        }
                    }
                    return Verdict::fail(format!("{name}-value:{kind}"), format!("{name} converts {:?} to {} ; expected {}", s, show(r), n.text()));
                }
            }
        }
        NumEval::NotNumber => {
            classes.push("near-miss");
            for (name, r) in [("number_codes", &r2), ("number_chars", &r3)] {
                if !is_syntax_error(r) {
                    if let (Some(v), Out::Ok(got)) = (trailing_underscore_value(s), r) {
                        if num_eq(&v, got) {
                            return Verdict::fail(TRAILING_US, format!("{name} converts {:?} to {} although the reader rejects a digit group that ends in `_`", s, got.text()));
                        }
                    }
                    return Verdict::fail(format!("not-syntax-error:{name}:{kind}"), format!("{name} on {:?}, which is not a number literal, gives {} ; expected a syntax_error", s, show(r)));
                }
            }
        }
    }
    let nontrivial = long_float || kind == "charcode" || kind == "digit-group" || matches!(ev, NumEval::NotNumber) || (kind == "radix" && matches!(&ev, NumEval::Value(T::Int(i)) if crate::num::bit_len(i) >= 55));
    if long_float {
        classes.push("float-more-than-15-digits");
    }
    Verdict::pass(nontrivial, &classes)
}

fn text_of(t: &T) -> Option<String> {
    // code list or char list -> String
    match t {
        T::Atom(a) if a == "[]" => Some(String::new()),
        T::PList(items, tail) if tail.is_nil() => {
            let mut s = String::new();
            for it in items {
                match it {
                    T::Int(i) => s.push(char::from_u32(u32::try_from(i).ok()?)?),
                    T::Atom(a) if a.chars().count() == 1 => s.push_str(a),
                    _ => return None,
                }
            }
            Some(s)
        }
        _ => None,
    }
}

fn check_number(env: &mut PEnv, n: &T) -> Verdict {
    let r = match ask1(env, &format!("vpn_number({}, R)", n.text()), "R") {
        Ok(r) => r,
        Err(e) => return perr(e, &format!("number {}", n.text())),
    };
    let T::Cmp(_, a) = &r else { return Verdict::Discard("harness:bad-result".into()) };
    if !num_eq(&a[0], n) {
        return Verdict::Discard("construction".into());
    }
    let kind = match n {
        T::Float(_) => "float",
        T::Int(i) if crate::num::bit_len(i) >= 55 => "bigint",
        _ => "smallint",
    };
    // a known open finding of one converter does not hide the other converters
    let mut tolerated: Option<Verdict> = None;
    for (name, c) in [("number_codes", &a[1]), ("number_chars", &a[2]), ("writeq", &a[3])] {
        let (text, back) = match out_of(c) {
            Ok(Out::Ok(T::Cmp(_, tb))) if tb.len() == 2 => match (text_of(&tb[0]), out_of(&tb[1])) {
                (Some(t), Ok(b)) => (t, b),
                _ => return Verdict::Discard("harness:bad-text".into()),
            },
            Ok(o) => return Verdict::fail(format!("to-text-error:{name}:{kind}"), format!("{name} of {} gives {}", n.text(), show(&o))),
            Err(_) => return Verdict::Discard("harness:bad-outcome".into()),
        };
        // the text must denote the number for the harness's own literal evaluator ...
        match isotok::eval_number_text(&text) {
            NumEval::Value(v) if num_eq(&v, n) => {}
            other => {
                let sig = format!("text-not-a-literal-of-the-number:{name}:{kind}");
                let v = Verdict::fail(sig.clone(), format!("{name} converts {} to {:?}, which denotes {:?} for the harness's literal evaluator", n.text(), text, other));
                if is_known_open(&sig) {
                    tolerated.get_or_insert(v);
                    continue;
                }
                return v;
            }
        }
        // ... and must convert back to the identical number
        match &back {
            Out::Ok(t) if num_eq(t, n) => {}
            other => {
                return Verdict::fail(format!("roundtrip:{name}:{kind}"), format!("{name} converts {} to {:?}, which converts back to {}", n.text(), text, show(other)));
            }
        }
    }
    if let Some(v) = tolerated {
        return v;
    }
    let digits17 = matches!(n, T::Float(f) if format!("{:e}", f).chars().filter(|c| c.is_ascii_digit()).count() >= 17);
    let mut classes = vec!["number", kind];
    if digits17 {
        classes.push("float-needs-16-17-digits");
    }
    Verdict::pass(kind != "smallint", &classes)
}

pub fn check(env: &mut PEnv, c: &Case) -> Verdict {
    let v = match c {
        Case::Spelling(s) => check_spelling(env, s),
        Case::Number(n) => check_number(env, n),
    };
    // development aid: VERIF_C16_SURVEY=<file> logs failures instead of stopping at them
    if let (Ok(path), Verdict::Fail { signature, detail }) = (std::env::var("VERIF_C16_SURVEY"), &v) {
        use std::io::Write;
        if let Ok(mut fh) = std::fs::OpenOptions::new().create(true).append(true).open(path) {
            let _ = fh.write_all(format!("{signature}\t{detail}\n").as_bytes());
        }
        if !signature.starts_with("panic") {
            return Verdict::pass(false, &["survey-failure"]);
        }
    }
    tolerate(v)
}

// ---------------------------------------------------------------------------------------------
// generators

fn digits(min: usize, max: usize) -> BoxedStrategy<String> {
    proptest::collection::vec(0u8..10, min..=max).prop_map(|v| v.into_iter().map(|d| (b'0' + d) as char).collect()).boxed()
}

fn radix_digits(radix: u32, max: usize) -> BoxedStrategy<String> {
    proptest::collection::vec((0u32..radix, any::<bool>()), 1..=max)
        .prop_map(move |v| {
            v.into_iter()
                .map(|(d, up)| {
                    let c = char::from_digit(d, radix).unwrap();
                    if up {
                        c.to_ascii_uppercase()
                    } else {
                        c
                    }
                })
                .collect()
        })
        .boxed()
}

const CHARCODE_BODIES: &[&str] = &[
    "a", "Z", "0", "9", "_", " ", "+", "-", ".", "*", "(", ")", ",", "|", "[", "!", ";", "%", "\"", "`", "''", "\\n", "\\t", "\\\\", "\\'", "\\\"", "\\`", "\\a", "\\b", "\\f", "\\v", "\\r", "\\0\\", "\\x41\\", "\\x0041\\", "\\101\\", "\\x1F600\\",
    "\\xe9\\", "é", "λ", "日", "😀", "\\x10FFFF\\", "\\7\\", "~", "#", "$", "&", "/", ":", "<", "=", ">", "?", "@", "^", "{", "}", "]", "e", "x",
];

const NEAR_MISSES: &[&str] = &[
    "0x", "0b", "0o", "0b2", "0o8", "0xg", "1e5", "1E5", "1.e5", "1.", "1.x", "1.0e", "1.0e+", "1.0e-", "1.0E", "1__0", "1_", "_1", " 12", "12 ", "\t12", "12\n", "0'", "0''", "1.0e400", "1.0e309", "1.0e-400", ".5", "5.", "1..2", "1.2.3", "0x1G",
    "0'ab", "1 2", "--1", "+1", "+ 1", "1e", "0.", "00", "0_0", "1_000", "1_ 000", "1_\n000", "1 _000", "1_000_", "1_000.5", "1.5_0", "1.0e1_0", "0x_1", "0x1_0", "0'\\", "0'\\x41", "0'\\xG\\", "0'\\8\\", "0'\\e", "0'\\s", "0'\n", "0'\\\n", "inf",
    "nan", "1.0Inf", "1r3", "1/3", "0''a", "0'''", "0''''", "- 1", "-  1.5", "-\n1", "- -1", "-(1)", "1.0e+05", "1.0e00", "0.0", "-0.0", "-0", "0e0", "1e+5", "0b1.0", "0o7.5", "0x1.8", "1.5e3.0", "١٢", "1²", "1.0e5x", "1x", "1a", "0'aa", "12%c",
    "12/*c*/", "/*c*/12", "%c\n12", "1.0e 5", "1 .0", "1. 0", "1,0", "1.0f", "0xFFFFFFFFFFFFFFFFFFFFFFFF", "9007199254740993.0", "9007199254740993", "1.7976931348623157e308", "1.7976931348623159e308", "4.9e-324", "2.4703282292062327e-324",
    "2.4703282292062328e-324", "0.1e1", "000.100", "1.0E+2", "1.0e-0",
];

/// exact decimal expansion of the midpoint between the double with bits `b` and its successor
fn midpoint_text(b: u64) -> Option<String> {
    let f = f64::from_bits(b);
    let g = f64::from_bits(b + 1);
    if !(f.is_finite() && g.is_finite()) || f <= 0.0 {
        return None;
    }
    let (m, e) = crate::num::f64_decompose(f); // f = m * 2^e
    let (m2, e2) = crate::num::f64_decompose(g);
    // bring to a common exponent
    let emin = e.min(e2) - 1;
    let a = m * crate::num::ipow2((e - emin) as u32);
    let c = m2 * crate::num::ipow2((e2 - emin) as u32);
    let mid = (a + c) / IBig::from(2); // exact: both are even multiples at exponent emin
    if emin >= 0 {
        if emin > 200 {
            return None;
        }
        return Some(format!("{}.0", mid * crate::num::ipow2(emin as u32)));
    }
    let k = (-emin) as u32;
    if k > 120 {
        return None;
    }
    let mut five = IBig::ONE;
    for _ in 0..k {
        five *= IBig::from(5);
    }
    let digits = (mid * five).to_string(); // value = digits / 10^k
    let k = k as usize;
    let s = if digits.len() > k { format!("{}.{}", &digits[..digits.len() - k], &digits[digits.len() - k..]) } else { format!("0.{}{}", "0".repeat(k - digits.len()), digits) };
    Some(s)
}

fn spelling_strategy() -> BoxedStrategy<Case> {
    let plain_int = digits(1, 40);
    let grouped = (proptest::collection::vec(digits(1, 6), 2..=5), any::<u16>()).prop_map(|(chunks, k)| {
        let sep = pick(&["_", "_", "_", "_ ", "_\n", "_  "], k);
        chunks.join(sep)
    });
    let radix = prop_oneof![radix_digits(2, 70).prop_map(|d| format!("0b{d}")), radix_digits(8, 30).prop_map(|d| format!("0o{d}")), radix_digits(16, 24).prop_map(|d| format!("0x{d}")),];
    let charcode = any::<u16>().prop_map(|k| format!("0'{}", pick(CHARCODE_BODIES, k)));
    let float = (digits(1, 25), digits(1, 25), any::<u16>(), 0u32..=400, any::<u8>()).prop_map(|(ip, fp, k, ex, lead)| {
        let ip = if lead % 4 == 0 { ip } else { ip.trim_start_matches('0').to_string() };
        let ip = if ip.is_empty() { "0".to_string() } else { ip };
        let e = pick(&["", "", "e", "e+", "e-", "E", "E-", "e-", "e"], k);
        if e.is_empty() {
            format!("{ip}.{fp}")
        } else {
            format!("{ip}.{fp}{e}{ex}")
        }
    });
    let short_float = (digits(1, 3), digits(1, 17), -330i32..=310).prop_map(|(ip, fp, ex)| format!("{ip}.{fp}e{ex}"));
    let halfway = (any::<u64>(), any::<u16>(), 0u8..10).prop_filter_map("midpoint", |(raw, k, d)| {
        // doubles between 2^-40 and 2^70
        let exp = 1023 - 40 + (raw % 110);
        let bits = (exp << 52) | (raw >> 12);
        let m = midpoint_text(bits)?;
        Some(match k % 4 {
            0 => m,
            1 => format!("{m}{d}"),
            2 => {
                // one less in the last place: drop the final digit (truncation is below the midpoint)
                let mut t = m.clone();
                t.pop();
                if t.ends_with('.') {
                    t.push('0');
                }
                t
            }
            _ => format!("{m}000000000{d}"),
        })
    });
    let near = any::<u16>().prop_map(|k| pick(NEAR_MISSES, k).to_string());
    let base = prop_oneof![
        3 => plain_int,
        2 => grouped,
        3 => radix,
        3 => charcode,
        5 => float,
        3 => short_float,
        3 => halfway,
        3 => near,
    ];
    let signed = (base, any::<u8>()).prop_map(|(s, k)| match k % 20 {
        0..=2 => format!("-{s}"),
        3 => format!("- {s}"),
        4 => format!(" {s}"),
        5 => format!("{s} "),
        _ => s,
    });
    // random single-character mutations make further near-misses
    let mutated = (signed.clone(), any::<u16>(), any::<u16>(), any::<u8>()).prop_map(|(s, pos, ck, op)| {
        let mut cs: Vec<char> = s.chars().collect();
        let c = pick(&['0', '1', '9', '_', '.', 'e', 'E', '+', '-', '\'', 'x', 'o', 'b', ' ', 'a', '\\'], ck);
        let i = if cs.is_empty() { 0 } else { (pos as usize) % (cs.len() + 1) };
        match op % 3 {
            0 => cs.insert(i, c),
            1 => {
                if i < cs.len() {
                    cs.remove(i);
                }
            }
            _ => {
                if i < cs.len() {
                    cs[i] = c
                }
            }
        }
        cs.into_iter().collect::<String>()
    });
    prop_oneof![5 => signed, 1 => mutated].prop_map(Case::Spelling).boxed()
}

fn number_strategy() -> BoxedStrategy<Case> {
    let fl = float_strategy().prop_map(|f| T::Float(if f.to_bits() == (-0.0f64).to_bits() { 0.0 } else { f }));
    prop_oneof![3 => int_strategy().prop_map(T::Int), 5 => fl].prop_map(Case::Number).boxed()
}

pub struct C16;

impl Prop for C16 {
    fn id(&self) -> &'static str {
        "C16"
    }
    fn rule(&self) -> &'static str {
        "spellings from a literal grammar (decimal 1-40 digits, digit groups with `_` and `_`+layout, 0b/0o/0x up to 70/30/24 digits, 0'c with every escape form, floats with 1-50 significant digits and exponents -400..400, exact binary midpoints between adjacent doubles and their neighbours, optional sign / surrounding layout, a table of near-misses and random one-character mutations) given as data to read_term_from_chars/3, number_codes/2 and number_chars/2 and judged by the harness's own literal evaluator (exact integers, Rust's correctly rounded float parse): a literal must give exactly its value everywhere, a non-literal must give syntax_error in number_codes/number_chars, which must agree with each other; numbers (boundary-biased integers, all finite doubles): number_codes/number_chars/writeq text must denote the number for the harness evaluator and convert back to the identical number (floats bitwise); non-trivial = float with > 15 significant digits, radix literal >= 2^55, character code, digit group, near-miss, or a float / big integer number; distinct by case encoding"
    }
    fn assumptions(&self) -> Vec<String> {
        vec![
            "atom_number/2 is not defined in this codebase and is therefore not exercised".into(),
            "-0.0 cannot be constructed on the machine (interned as 0.0) and is excluded from the number -> text direction".into(),
            "Rust's str::parse::<f64> is correctly rounded for arbitrarily long digit strings".into(),
            "leading/trailing layout and `- 1` in number_codes/number_chars: the value or a syntax_error are both accepted (ISO 8.16.7 is read both ways by existing systems)".into(),
        ]
    }
    fn run_shard(&self, cfg: &ShardCfg) -> ShardResult {
        let mut d = Driver::new(cfg, "C16");
        // the near-miss table once, completely
        if cfg.shard == 0 {
            let fixed: Vec<Case> = NEAR_MISSES.iter().map(|s| Case::Spelling(s.to_string())).chain(CHARCODE_BODIES.iter().map(|b| Case::Spelling(format!("0'{b}")))).collect();
            d.run_list("spelling", fixed, 5000, &mk_penv, &check);
        }
        d.run("spelling", 0, cfg.share(cfg.tier.pick(60_000, 6_000_000)), 5000, spelling_strategy(), &mk_penv, &check);
        d.run("number", 1, cfg.share(cfg.tier.pick(60_000, 6_000_000)), 5000, number_strategy(), &mk_penv, &check);
        drain_tolerated(&mut d.res);
        d.finish()
    }
    fn replay(&self, _kind: &str, case: &Value) -> Verdict {
        let _ = term::nil();
        replay_case::<Case, PEnv>(case, &mk_penv, &check)
    }
}
