//! C29 — Toplevel answers are faithful and re-executable.
//!
//! The real toplevel code (`src/toplevel.pl`) is driven in-process on a machine whose
//! `user_output` is a callback stream, so everything the toplevel prints is captured:
//!
//! * path A: `'$toplevel':run_query_goal/4` with a collecting callback that prints every leaf
//!   answer with `'$toplevel':write_leaf_answer/2` and always answers `continue`;
//! * path B: the same predicate with the toplevel's own callback (`toplevel_query_callback/3`,
//!   `read_input/2`, `print_exception/1`) in the state the REPL is in after the user pressed `a`
//!   ("all solutions"), inside the failure-driven loop of `repl/0`; the transcript is what a
//!   user sees on the terminal.
//!
//! The query text is read with `read_term_from_chars/3` + `variable_names/1` (what the REPL does
//! with the typed text). Oracles, per query:
//!
//! 1. number and order of the printed answers = scryer's own `findall/3` over the same query
//!    text on the same machine (exceptions: same position, same Formal), and for programs in
//!    the C07 space also = the reference interpreter `shared::refint`;
//! 2. every printed answer text, read back *alone* with `variable_names/1`, must be a
//!    conjunction whose equations have pairwise distinct query variables on the left, must have
//!    exactly one solution, and must instantiate the query variables to a variant of the
//!    corresponding `findall` solution (so brackets, quoting, spacing, fabricated `_A` names,
//!    aliasing `X = Y` and strings must all read back as what was computed); for queries
//!    without constraints no goal other than equations may appear; read back together with the
//!    query as one term (shared variable names) `(Query, Answer)` must succeed;
//! 3. the answer list ends with `false` iff there was no solution or the last solution left a
//!    choice point, decided by `setup_call_cleanup(true, Query, Det = true)`, and — for queries
//!    that are deterministic by construction (`G, !`, `\+ G`, `once(G)`, `(G -> true ; fail)`,
//!    `findall/3`, unifications only) — by the construction;
//! 4. the transcript of path B is exactly `"   " ++ answers joined by "\n;  " ++ ".\n"` with the
//!    answers of path A.
//!
//! Accepted freedom: the names of fabricated variables; the order of residual goals; terms
//! deeper than the printing depth (skipped, counted); the Context of error terms.
//!
//! A second, small tier runs the real binary entry (`scryer_prolog::run_binary`, consulting a
//! program file named on the command line, queries piped into stdin) in a child process for
//! queries that are deterministic (the toplevel cannot read a key from a pipe) and compares
//! the transcript with path B of the in-process run.
use crate::engine::*;
use crate::session::{Outcome, Session};
use crate::shared::enc2::decode_t;
use crate::shared::proggen::*;
use crate::shared::refint::{ball_matches, Interp, RefOutcome};
use crate::term::{atom, cmp, int, list, nil, write_atom, T};
use dashu::integer::IBig;
use proptest::prelude::*;
use scryer_prolog::{MachineBuilder, OutputStreamConfig, StreamConfig};
use serde::{Deserialize, Serialize};
use serde_json::{json, Value};
use std::cell::RefCell;
use std::io::Read;
use std::rc::Rc;
use std::sync::atomic::{AtomicU64, Ordering};

pub const C29_PL: &str = include_str!("../../prolog/c29.pl");

static Q_RUN: AtomicU64 = AtomicU64::new(0);
static Q_ANSWERS: AtomicU64 = AtomicU64::new(0);
static Q_MULTI: AtomicU64 = AtomicU64::new(0);
static Q_TRAILING_FALSE: AtomicU64 = AtomicU64::new(0);
static Q_EXC: AtomicU64 = AtomicU64::new(0);
static Q_REF_COMPARED: AtomicU64 = AtomicU64::new(0);
static Q_REF_SKIPPED: AtomicU64 = AtomicU64::new(0);
static A_REEXEC: AtomicU64 = AtomicU64::new(0);
static A_DEEP_SKIPPED: AtomicU64 = AtomicU64::new(0);
static A_RESIDUAL: AtomicU64 = AtomicU64::new(0);
static A_FABRICATED: AtomicU64 = AtomicU64::new(0);
static Q_DET_BY_CONSTRUCTION: AtomicU64 = AtomicU64::new(0);
static Q_CYCLIC: AtomicU64 = AtomicU64::new(0);
static ENGINE_PANICS: AtomicU64 = AtomicU64::new(0);

pub struct Env {
    pub s: Session,
    pub out: Rc<RefCell<Vec<u8>>>,
    pub n: u64,
}

pub fn mk_env() -> Env {
    let out: Rc<RefCell<Vec<u8>>> = Rc::new(RefCell::new(Vec::new()));
    let sink = out.clone();
    let streams = StreamConfig::in_memory().with_user_output(OutputStreamConfig::callback(Box::new(move |c: &mut std::io::Cursor<Vec<u8>>| {
        let _ = c.read_to_end(&mut sink.borrow_mut());
    })));
    let machine = MachineBuilder::default().with_streams(streams).build();
    let mut s = Session::with_machine(machine, &["lists", "between", "dif", "freeze"]);
    s.machine.consult_module_string("user", C29_PL);
    let o = s.ask("c29_loaded(X)", "X");
    assert!(matches!(o, Outcome::Sols(ref v) if v.len() == 1), "c29.pl failed to load: {}", o.short());
    out.borrow_mut().clear();
    Env { s, out, n: 0 }
}

impl Env {
    /// a machine that panicked is replaced (the driver only does that after a failure)
    fn heal(&mut self) {
        if self.s.poisoned {
            let n = self.n;
            *self = mk_env();
            self.n = n.max(1);
        }
    }
    /// flush user_output and take everything written so far (output is only handed to the
    /// callback on flush_output/1)
    fn drain(&mut self) -> String {
        let _ = self.s.ask("flush_output(user_output)", "[]");
        let t = self.take_out();
        if !t.is_empty() && std::env::var("VERIF_C29_TRACE").is_ok() {
            eprintln!("drained {t:?} after {:?}", self.s.log.last());
        }
        t
    }
    fn take_out(&mut self) -> String {
        let v = std::mem::take(&mut *self.out.borrow_mut());
        String::from_utf8_lossy(&v).to_string()
    }
}

// ---------------------------------------------------------------------------------------------
// text helpers

fn codes_text(s: &str) -> String {
    let mut out = String::from("[");
    for (i, c) in s.chars().enumerate() {
        if i > 0 {
            out.push(',');
        }
        out.push_str(&(c as u32).to_string());
    }
    out.push(']');
    out
}

fn names_text(names: &[String]) -> String {
    format!("[{}]", names.iter().map(|n| crate::term::quote_atom(n)).collect::<Vec<_>>().join(","))
}

/// Variable names by scheme. Scheme 1 and 2 collide on purpose with the names the toplevel
/// fabricates for unnamed variables (`_A`, `_B`, ...).
pub fn var_names(scheme: u8, n: usize) -> Vec<String> {
    let pool: &[&str] = match scheme % 6 {
        0 => &["X", "Y", "Z", "W", "U", "T", "S", "R", "Q", "P", "O", "N", "M", "L"],
        1 => &["_A", "_B", "A", "B", "_C", "C", "_D", "D", "_E", "E", "_F", "F", "_G", "G"],
        2 => &["_B", "_A", "_D", "_C", "_A1", "_F", "_E", "_H", "_G", "_J", "_I", "_L", "_K", "_M"],
        3 => &["_X", "Y", "_", "_0", "_G1", "Xs", "_y", "Aa", "X_1", "_Z", "Zz", "_Q", "Q1", "K"],
        4 => &["Result", "_Acc", "Xs", "Ys", "N0", "N", "Acc", "_Tmp", "H", "Tail", "Key", "Val", "I", "J"],
        _ => &["V0", "V1", "V2", "V3", "V4", "V5", "V6", "V7", "V8", "V9", "V10", "V11", "V12", "V13"],
    };
    (0..n)
        .map(|i| {
            let base = pool[i % pool.len()];
            // "_" alone is the anonymous variable: never a name
            let base = if base == "_" { "_U" } else { base };
            if i < pool.len() {
                base.to_string()
            } else {
                format!("{base}{}", i / pool.len())
            }
        })
        .collect()
}

/// Rename the `V<n>` variable tokens of canonical text (outside quoted items).
pub fn rename_vars_text(text: &str, names: &[String]) -> String {
    let cs: Vec<char> = text.chars().collect();
    let mut out = String::with_capacity(text.len());
    let mut i = 0;
    let mut prev_alnum = false;
    while i < cs.len() {
        let c = cs[i];
        if c == '\'' || c == '"' || c == '`' {
            // quoted item: copy to the closing quote (doubled quotes and backslash escapes)
            out.push(c);
            i += 1;
            while i < cs.len() {
                let d = cs[i];
                out.push(d);
                i += 1;
                if d == '\\' && i < cs.len() {
                    out.push(cs[i]);
                    i += 1;
                } else if d == c {
                    if i < cs.len() && cs[i] == c {
                        out.push(c);
                        i += 1;
                    } else {
                        break;
                    }
                }
            }
            prev_alnum = false;
            continue;
        }
        if c == 'V' && !prev_alnum {
            let mut j = i + 1;
            while j < cs.len() && cs[j].is_ascii_digit() {
                j += 1;
            }
            let ends = j == cs.len() || !(cs[j].is_alphanumeric() || cs[j] == '_');
            if j > i + 1 && ends {
                let k: usize = cs[i + 1..j].iter().collect::<String>().parse().unwrap();
                if k < names.len() {
                    out.push_str(&names[k]);
                } else {
                    out.push_str(&format!("V{k}"));
                }
                i = j;
                prev_alnum = true;
                continue;
            }
        }
        prev_alnum = c.is_alphanumeric() || c == '_';
        out.push(c);
        i += 1;
    }
    out
}

fn depth_of(t: &T) -> usize {
    match t {
        T::PList(items, tail) => {
            // the writer counts every list element as one level
            let d = items.iter().map(depth_of).max().unwrap_or(0);
            items.len() + d.max(depth_of(tail))
        }
        T::Cmp(_, args) => 1 + args.iter().map(depth_of).max().unwrap_or(0),
        T::Str(s) => s.chars().count(),
        _ => 1,
    }
}

// ---------------------------------------------------------------------------------------------
// one query through all oracles

#[derive(Clone, Debug)]
pub struct Leaf {
    pub kind: String,
    pub text: String,
}

pub fn parse_a(out: &str) -> Result<Vec<Leaf>, String> {
    let mut leaves = vec![];
    if out.is_empty() {
        return Ok(leaves);
    }
    if !out.starts_with('\u{1}') {
        return Err(format!("output before the first marker: {out:?}"));
    }
    for chunk in out[1..].split('\u{1}') {
        let (kind, rest) = chunk.split_once('\n').ok_or_else(|| format!("marker without newline: {chunk:?}"))?;
        let text = rest.strip_suffix('\n').ok_or_else(|| format!("answer without final newline: {chunk:?}"))?;
        // print_exception/1 ends the error term with the final dot of the transcript
        let text = if kind == "exception" { text.strip_suffix('.').ok_or_else(|| format!("error text without final dot: {chunk:?}"))? } else { text };
        leaves.push(Leaf { kind: kind.to_string(), text: text.to_string() });
    }
    Ok(leaves)
}

pub struct QSpec<'a> {
    /// query text without the end token
    pub text: &'a str,
    /// names of the query variables (template order)
    pub names: &'a [String],
    /// no constraint library is involved: answers must be equations only
    pub constraint_free: bool,
    /// the query cannot leave a choice point after its last solution
    pub det_by_construction: bool,
    pub expected: Option<&'a RefOutcome>,
}

#[derive(Default, Debug)]
pub struct QInfo {
    pub answers: usize,
    pub trailing_false: bool,
    pub exception: bool,
    pub residual: bool,
    pub needs_quoting: bool,
    pub fabricated: bool,
    pub transcript: String,
}

fn fail_v(sig: impl Into<String>, q: &QSpec, detail: impl Into<String>) -> Verdict {
    Verdict::fail(sig, format!("?- {}.\n{}", q.text, detail.into()))
}

fn ask_list(env: &mut Env, goal: &str) -> Result<Vec<T>, Verdict> {
    match env.s.ask(goal, "L") {
        Outcome::Sols(v) if v.len() == 1 => match v[0].norm() {
            T::PList(items, tail) if tail.is_nil() => Ok(items),
            t if t.is_nil() => Ok(vec![]),
            other => Err(Verdict::Discard(format!("harness:not-a-list:{}", other.text().chars().take(30).collect::<String>()))),
        },
        Outcome::Panic(m) => Err(Verdict::fail(format!("panic:{}", m.split_whitespace().next().unwrap_or("?")), format!("{goal}: {m}"))),
        Outcome::Ex(b) => Err(Verdict::fail(format!("helper-raised:{}", functor_of(&b)), format!("{goal} raised {}", b.text()))),
        o => Err(Verdict::Discard(format!("harness:{}", o.short().chars().take(40).collect::<String>()))),
    }
}

fn functor_of(t: &T) -> String {
    match t {
        T::Cmp(n, a) if n == "error" && a.len() == 2 => functor_of(&a[0]),
        T::Cmp(n, a) => format!("{n}/{}", a.len()),
        T::Atom(a) => a.clone(),
        T::Var(_) => "var".into(),
        _ => "other".into(),
    }
}

fn run_unit(env: &mut Env, goal: &str) -> Result<(), Verdict> {
    match env.s.ask(goal, "[]") {
        Outcome::Sols(v) if v.len() == 1 => Ok(()),
        Outcome::Sols(v) => Err(Verdict::fail("toplevel-driver:wrong-solution-count", format!("{goal}: {} solutions", v.len()))),
        Outcome::Panic(m) => Err(Verdict::fail(format!("panic:{}", m.split_whitespace().next().unwrap_or("?")), format!("{goal}: {m}"))),
        Outcome::Ex(b) => Err(Verdict::fail(format!("toplevel-raised:{}", functor_of(&b)), format!("{goal} raised {}", b.text()))),
        o => Err(Verdict::Discard(format!("harness:{}", o.short().chars().take(40).collect::<String>()))),
    }
}

/// shape of one printed answer, computed from scryer's own reading of it
struct Alone {
    /// per solution of the answer text run alone: (template instance, number of residual goals)
    sols: Vec<(T, usize)>,
    /// left-hand side variable names of the equations, in order ("" = not a named variable)
    lhs: Vec<String>,
    /// number of goals that are not equations (`true` not counted)
    other_goals: usize,
}

fn conj_items(t: &T, out: &mut Vec<T>) {
    match t {
        T::Cmp(n, a) if n == "," && a.len() == 2 => {
            conj_items(&a[0], out);
            conj_items(&a[1], out);
        }
        other => out.push(other.clone()),
    }
}

/// Signature of the open printer defect (known/C15.json, prefix-op-paren) as it shows in toplevel
/// answers: the printed answer reads back as the solution once a space is inserted between a
/// prefix operator and the '(' that follows it.
const KNOWN_PAREN: &str = "answer-not-faithful:no-space-between-prefix-operator-and-open-paren-of-bracketed-operator-atom";

/// the text with a space inserted before one or two of the '(' that directly follow a
/// character other than layout / an opening bracket / a comma
fn paren_space_repairs(text: &str) -> Vec<String> {
    let cs: Vec<char> = text.chars().collect();
    let pos: Vec<usize> = (1..cs.len()).filter(|&i| cs[i] == '(' && !matches!(cs[i - 1], ' ' | '(' | ',' | '[' | '{' | '|') && !cs[i - 1].is_alphanumeric() && cs[i - 1] != '_').take(8).collect();
    let build = |sel: &[usize]| -> String {
        let mut s = String::new();
        for (i, c) in cs.iter().enumerate() {
            if sel.contains(&i) {
                s.push(' ');
            }
            s.push(*c);
        }
        s
    };
    let mut out = vec![];
    for (a, &i) in pos.iter().enumerate() {
        out.push(build(&[i]));
        for &j in pos.iter().skip(a + 1) {
            out.push(build(&[i, j]));
        }
    }
    out
}

fn repaired_matches(env: &mut Env, text: &str, nt: &str, sol: &T) -> bool {
    for cand in paren_space_repairs(text) {
        let r = match env.s.ask(&format!("c29_alone({}, {nt}, R)", codes_text(&cand)), "R") {
            Outcome::Sols(v) if v.len() == 1 => v[0].clone(),
            Outcome::Panic(_) => return false,
            _ => continue,
        };
        if let T::Cmp(n, a) = &r {
            if n == "ok" && a.len() == 3 {
                if let T::PList(items, _) = a[0].norm() {
                    if items.len() == 1 {
                        if let Ok(T::Cmp(m, p)) = decode_t(&items[0]).map(|t| t.norm()) {
                            if m == "-" && p.len() == 2 && p[0].norm().variant(sol) {
                                return true;
                            }
                        }
                    }
                }
            }
        }
    }
    false
}

pub fn check_query(env: &mut Env, q: &QSpec) -> Result<QInfo, Verdict> {
    let qc = codes_text(q.text);
    let nt = names_text(q.names);
    let mut info = QInfo::default();
    env.drain();

    // --- reference run: scryer's own findall over the same text
    // a panic while the query runs under plain findall/3 (no toplevel code involved) is the
    // engine's (C07 known findings: cut inside \+, register allocator), not this property's
    let raw = match ask_list(env, &format!("c29_sols({qc}, {nt}, L)")) {
        Err(Verdict::Fail { signature, .. }) if signature.starts_with("panic:") => {
            ENGINE_PANICS.fetch_add(1, Ordering::Relaxed);
            return Err(Verdict::Discard(format!("engine-panic-outside-toplevel:{}", &signature[6..])));
        }
        other => other?,
    };
    let mut sols: Vec<T> = vec![];
    let mut ball: Option<T> = None;
    for (i, r) in raw.iter().enumerate() {
        match r {
            T::Cmp(n, a) if n == "s" && a.len() == 1 => sols.push(decode_t(&a[0]).map_err(Verdict::Discard)?.norm()),
            T::Cmp(n, a) if n == "x" && a.len() == 1 && i + 1 == raw.len() => ball = Some(decode_t(&a[0]).map_err(Verdict::Discard)?.norm()),
            T::Atom(a) if a == "cyc" => {
                Q_CYCLIC.fetch_add(1, Ordering::Relaxed);
                return Err(Verdict::Discard("cyclic-solution".into()));
            }
            other => return Err(Verdict::Discard(format!("harness:bad-sols-item:{}", other.text().chars().take(30).collect::<String>()))),
        }
    }
    let leftover = env.drain();
    if !leftover.is_empty() {
        return Err(Verdict::Discard(format!("query-writes-output:{}", leftover.chars().take(20).collect::<String>())));
    }

    // --- (1) vs the reference interpreter
    if let Some(exp) = q.expected {
        let got = match &ball {
            Some(b) => Outcome::Ex(b.clone()),
            None => Outcome::Sols(sols.clone()),
        };
        match exp {
            RefOutcome::Limit | RefOutcome::Unsupported(_) => {
                Q_REF_SKIPPED.fetch_add(1, Ordering::Relaxed);
            }
            _ => {
                Q_REF_COMPARED.fetch_add(1, Ordering::Relaxed);
                if let Some((sig, detail)) = crate::props::c07::compare(exp, &got) {
                    return Err(fail_v(format!("engine-vs-reference:{sig}"), q, format!("the query's solutions differ from the reference interpreter (a C07 matter, found on the way): {detail}\nreference: {}\nscryer:    {}", exp.short(), got.short())));
                }
            }
        }
    }

    // --- determinism of every solution, by setup_call_cleanup/3
    let dets = ask_list(env, &format!("c29_dets({qc}, L)"))?;
    env.drain();
    let dets: Vec<String> = dets.iter().map(|t| t.text()).collect();
    let expect_n = sols.len() + usize::from(ball.is_some());
    if dets.len() != expect_n || (ball.is_some() && dets.last().map(|s| s.as_str()) != Some("x")) {
        return Err(Verdict::Discard("scc-run-differs".into()));
    }

    // --- path A
    run_unit(env, &format!("c29_a({qc})"))?;
    let out_a = env.take_out();
    let leaves = parse_a(&out_a).map_err(|e| fail_v("toplevel-output:unparsable", q, e))?;
    if leaves.is_empty() {
        return Err(fail_v("toplevel-output:no-answer", q, "run_query_goal/4 called the callback not even once"));
    }
    for (i, l) in leaves.iter().enumerate() {
        let last = i + 1 == leaves.len();
        let ok = if last { l.kind == "final" || l.kind == "exception" } else { l.kind == "pending" };
        if !ok {
            return Err(fail_v("toplevel-protocol:pending-final-order", q, format!("leaf answer {} of {} is {}: {out_a:?}", i + 1, leaves.len(), l.kind)));
        }
    }
    let last = leaves.last().unwrap().clone();
    info.exception = last.kind == "exception";
    info.trailing_false = last.kind == "final" && last.text == "false";
    let printed: Vec<&Leaf> = leaves.iter().filter(|l| !(l.kind == "exception" || (l.kind == "final" && l.text == "false"))).collect();
    // `false` may only be the final answer
    if leaves.iter().any(|l| l.kind == "pending" && l.text == "false") {
        return Err(fail_v("toplevel-protocol:false-not-last", q, format!("{out_a:?}")));
    }
    info.answers = printed.len();

    // --- (1) number of answers, exception
    if info.exception != ball.is_some() {
        let sig = if info.exception { "wrong-answers:exception-not-in-findall" } else { "wrong-answers:exception-lost" };
        return Err(fail_v(sig, q, format!("findall: {} solutions, ball {:?}; toplevel: {out_a:?}", sols.len(), ball.as_ref().map(|b| b.text()))));
    }
    if printed.len() != sols.len() {
        let k = if printed.len() < sols.len() { "fewer" } else { "more" };
        return Err(fail_v(format!("wrong-answers:{k}"), q, format!("findall gives {} solutions, the toplevel printed {} answers: {out_a:?}", sols.len(), printed.len())));
    }
    if let Some(b) = &ball {
        let got = match env.s.ask("c29_ball(E)", "E") {
            Outcome::Sols(v) if v.len() == 1 => v[0].clone(),
            o => return Err(Verdict::Discard(format!("harness:ball:{}", o.short().chars().take(30).collect::<String>()))),
        };
        if !ball_matches(b, &got) && !b.variant(&got) {
            return Err(fail_v("wrong-answers:different-exception", q, format!("findall run raised {}, the toplevel reported {}", b.text(), got.text())));
        }
    }

    // --- (3) trailing false
    if !info.exception {
        let expect_false = sols.is_empty() || dets.last().map(|s| s.as_str()) == Some("nondet");
        if info.trailing_false != expect_false {
            let sig = if info.trailing_false { "trailing-false:spurious" } else { "trailing-false:missing" };
            return Err(fail_v(sig, q, format!("setup_call_cleanup/3 says the last of {} solutions is {:?}; the toplevel printed {out_a:?}", sols.len(), dets.last())));
        }
        if q.det_by_construction {
            Q_DET_BY_CONSTRUCTION.fetch_add(1, Ordering::Relaxed);
            if info.trailing_false && !sols.is_empty() {
                return Err(fail_v("trailing-false:after-deterministic-query", q, format!("the query cannot leave a choice point, the toplevel printed {out_a:?}")));
            }
        }
    }

    // --- (2) every printed answer
    for (i, l) in printed.iter().enumerate() {
        let sol = &sols[i];
        let ac = codes_text(&l.text);
        let r = match env.s.ask(&format!("c29_alone({ac}, {nt}, R)"), "R") {
            Outcome::Sols(v) if v.len() == 1 => v[0].clone(),
            Outcome::Panic(m) => return Err(fail_v(format!("panic:{}", m.split_whitespace().next().unwrap_or("?")), q, format!("reading back answer {:?}: {m}", l.text))),
            o => return Err(Verdict::Discard(format!("harness:alone:{}", o.short().chars().take(40).collect::<String>()))),
        };
        A_REEXEC.fetch_add(1, Ordering::Relaxed);
        // the last answer is followed directly by the final dot: it must read the same
        if i + 1 == printed.len() && l.kind == "final" {
            let r2 = match env.s.ask(&format!("c29_alone({ac}, \".\", {nt}, R)"), "R") {
                Outcome::Sols(v) if v.len() == 1 => v[0].clone(),
                Outcome::Panic(m) => return Err(fail_v(format!("panic:{}", m.split_whitespace().next().unwrap_or("?")), q, format!("reading back answer {:?} with its final dot: {m}", l.text))),
                o => return Err(Verdict::Discard(format!("harness:alone-dot:{}", o.short().chars().take(40).collect::<String>()))),
            };
            if !r2.eq_struct(&r) && !matches!(&r, T::Cmp(n, _) if n == "unreadable") {
                let kind = match env.s.ask(&format!("c29_last_kind({ac}, K)"), "K") {
                    Outcome::Sols(v) if v.len() == 1 => v[0].text(),
                    _ => "unknown".into(),
                };
                let symbolic_end = l.text.chars().last().map(|c| "#$&*+-./:<=>?@^~\\".contains(c)).unwrap_or(false);
                let sig = if symbolic_end { format!("answer-final-dot:merges-with-the-symbol-char-that-ends-the-answer:value-is-{kind}") } else { "answer-final-dot:reads-differently".to_string() };
                return Err(fail_v(sig, q, format!("last answer {:?}: followed by a space and the end dot it reads as {}, followed directly by the toplevel's final dot as {}", l.text, r.text().chars().take(300).collect::<String>(), r2.text().chars().take(300).collect::<String>())));
            }
        }
        let alone = match &r {
            T::Cmp(n, a) if n == "unreadable" && a.len() == 1 => {
                let b = decode_t(&a[0]).map(|t| t.text()).unwrap_or_default();
                let sig = if repaired_matches(env, &l.text, &nt, sol) { KNOWN_PAREN } else { "answer-unreadable:syntax" };
                return Err(fail_v(sig, q, format!("answer {} of {}: {:?} cannot be read back: {b}\nsolution: {}", i + 1, printed.len(), l.text, sol.text())));
            }
            T::Cmp(n, a) if n == "ex" && a.len() == 1 => {
                let b = decode_t(&a[0]).map(|t| t.text()).unwrap_or_default();
                return Err(fail_v("answer-not-executable:raises", q, format!("answer {} of {}: {:?} raises {b} when run\nsolution: {}", i + 1, printed.len(), l.text, sol.text())));
            }
            T::Cmp(n, a) if n == "ok" && a.len() == 3 => {
                let mut al = Alone { sols: vec![], lhs: vec![], other_goals: 0 };
                let items = match a[0].norm() {
                    T::PList(items, _) => items,
                    _ => vec![],
                };
                for it in items {
                    match decode_t(&it).map_err(Verdict::Discard)?.norm() {
                        T::Cmp(m, p) if m == "-" && p.len() == 2 => {
                            let gs = match &p[1] {
                                T::Int(k) => usize::try_from(k).unwrap_or(0),
                                _ => 0,
                            };
                            al.sols.push((p[0].clone(), gs));
                        }
                        T::Atom(c) if c == "cyclic" => {
                            return Err(fail_v("answer-not-faithful:cyclic-bindings", q, format!("answer {} of {}: {:?} run alone builds a cyclic term\nsolution: {}", i + 1, printed.len(), l.text, sol.text())));
                        }
                        other => return Err(Verdict::Discard(format!("harness:alone-item:{}", other.text().chars().take(30).collect::<String>()))),
                    }
                }
                if let T::PList(ns, _) = a[1].norm() {
                    for n in ns {
                        al.lhs.push(match n {
                            T::Atom(s) => s,
                            _ => String::new(),
                        });
                    }
                }
                if let T::Int(k) = &a[2] {
                    al.other_goals = usize::try_from(k).unwrap_or(0);
                }
                al
            }
            other => return Err(Verdict::Discard(format!("harness:alone-result:{}", other.text().chars().take(40).collect::<String>()))),
        };
        // shape: equations with distinct query variables on the left
        for (k, n) in alone.lhs.iter().enumerate() {
            if n.is_empty() || !q.names.contains(n) {
                return Err(fail_v("answer-shape:equation-lhs-not-a-query-variable", q, format!("answer {:?}: equation {} has {:?} on the left", l.text, k + 1, n)));
            }
            if alone.lhs[..k].contains(n) {
                return Err(fail_v("answer-shape:variable-bound-twice", q, format!("answer {:?}: {n} is on the left of two equations", l.text)));
            }
        }
        if alone.other_goals > 0 {
            info.residual = true;
            A_RESIDUAL.fetch_add(1, Ordering::Relaxed);
            if q.constraint_free {
                return Err(fail_v("answer-shape:residual-goal-in-constraint-free-query", q, format!("answer {:?} contains a goal that is not an equation", l.text)));
            }
        }
        if l.text.contains('\'') || l.text.contains('"') || l.text.contains('(') {
            info.needs_quoting = true;
        }
        if has_fabricated(&l.text, q.names) {
            info.fabricated = true;
            A_FABRICATED.fetch_add(1, Ordering::Relaxed);
        }
        let deep = depth_of(sol) > 17;
        if deep {
            A_DEEP_SKIPPED.fetch_add(1, Ordering::Relaxed);
        } else {
            if alone.sols.len() != 1 {
                let sig = if alone.sols.is_empty() { "answer-not-executable:fails" } else { "answer-not-faithful:several-solutions" };
                return Err(fail_v(sig, q, format!("answer {} of {}: {:?} run alone has {} solutions\nsolution: {}", i + 1, printed.len(), l.text, alone.sols.len(), sol.text())));
            }
            let (inst, gs) = &alone.sols[0];
            if !inst.norm().variant(sol) {
                let sig = if repaired_matches(env, &l.text, &nt, sol) { KNOWN_PAREN } else { "answer-not-faithful:different-bindings" };
                return Err(fail_v(sig, q, format!("answer {} of {}: {:?}\nrun alone it gives {} = {}\nthe query's solution is   {} = {}", i + 1, printed.len(), l.text, nt, inst.text(), nt, sol.text())));
            }
            if q.constraint_free && *gs > 0 {
                return Err(fail_v("answer-not-faithful:constraints-from-nowhere", q, format!("answer {:?} leaves {gs} residual goals", l.text)));
            }
        }
        // together with the query
        let r = match env.s.ask(&format!("c29_with_query({qc}, {ac}, R)"), "R") {
            Outcome::Sols(v) if v.len() == 1 => v[0].clone(),
            Outcome::Panic(m) => return Err(fail_v(format!("panic:{}", m.split_whitespace().next().unwrap_or("?")), q, format!("re-running the query with answer {:?}: {m}", l.text))),
            o => return Err(Verdict::Discard(format!("harness:with-query:{}", o.short().chars().take(40).collect::<String>()))),
        };
        match r.text().as_str() {
            "ok" => {}
            "failed" if deep => {}
            "failed" => return Err(fail_v("answer-not-reexecutable:fails-with-query", q, format!("answer {} of {}: ({}), ({}) fails", i + 1, printed.len(), q.text, l.text))),
            other => return Err(fail_v("answer-not-reexecutable:error-with-query", q, format!("answer {} of {}: ({}), ({}) gives {other}", i + 1, printed.len(), q.text, l.text))),
        }
    }
    env.drain();

    // --- path B: the transcript
    run_unit(env, &format!("c29_b({qc})"))?;
    let out_b = env.take_out();
    let segs: Vec<String> = leaves.iter().map(|l| l.text.clone()).collect();
    let expected_b = format!("   {}.\n", segs.join("\n;  "));
    // an error term is written with the raw names (_123) of its variables: accepted freedom
    let same = if info.exception { norm_raw_vars(&out_b) == norm_raw_vars(&expected_b) } else { out_b == expected_b };
    if !same {
        return Err(fail_v("transcript:differs-from-leaf-answers", q, format!("toplevel_query_callback printed {out_b:?}\nexpected from the leaf answers {expected_b:?}")));
    }
    info.transcript = out_b;

    Q_RUN.fetch_add(1, Ordering::Relaxed);
    Q_ANSWERS.fetch_add(info.answers as u64, Ordering::Relaxed);
    if info.answers >= 2 {
        Q_MULTI.fetch_add(1, Ordering::Relaxed);
    }
    if info.trailing_false {
        Q_TRAILING_FALSE.fetch_add(1, Ordering::Relaxed);
    }
    if info.exception {
        Q_EXC.fetch_add(1, Ordering::Relaxed);
    }
    Ok(info)
}

/// `_123` tokens outside quoted items -> `_#`
pub fn norm_raw_vars(text: &str) -> String {
    let cs: Vec<char> = text.chars().collect();
    let mut out = String::with_capacity(text.len());
    let mut i = 0;
    let mut prev_alnum = false;
    while i < cs.len() {
        let c = cs[i];
        if c == '\'' || c == '"' {
            out.push(c);
            i += 1;
            while i < cs.len() {
                let d = cs[i];
                out.push(d);
                i += 1;
                if d == '\\' && i < cs.len() {
                    out.push(cs[i]);
                    i += 1;
                } else if d == c {
                    if i < cs.len() && cs[i] == c {
                        out.push(c);
                        i += 1;
                    } else {
                        break;
                    }
                }
            }
            prev_alnum = false;
            continue;
        }
        if c == '_' && !prev_alnum && i + 1 < cs.len() && cs[i + 1].is_ascii_digit() {
            let mut j = i + 1;
            while j < cs.len() && cs[j].is_ascii_digit() {
                j += 1;
            }
            if j == cs.len() || !(cs[j].is_alphanumeric() || cs[j] == '_') {
                out.push_str("_#");
                i = j;
                prev_alnum = true;
                continue;
            }
        }
        prev_alnum = c.is_alphanumeric() || c == '_';
        out.push(c);
        i += 1;
    }
    out
}

/// does the text contain a variable token that is not one of the query's names
fn has_fabricated(text: &str, names: &[String]) -> bool {
    let cs: Vec<char> = text.chars().collect();
    let mut i = 0;
    let mut prev_alnum = false;
    while i < cs.len() {
        let c = cs[i];
        if c == '\'' || c == '"' {
            i += 1;
            while i < cs.len() {
                let d = cs[i];
                i += 1;
                if d == '\\' {
                    i += 1;
                } else if d == c {
                    if i < cs.len() && cs[i] == c {
                        i += 1;
                    } else {
                        break;
                    }
                }
            }
            prev_alnum = false;
            continue;
        }
        if (c == '_' || c.is_ascii_uppercase()) && !prev_alnum {
            let mut j = i;
            while j < cs.len() && (cs[j].is_alphanumeric() || cs[j] == '_') {
                j += 1;
            }
            let name: String = cs[i..j].iter().collect();
            if !names.contains(&name) {
                return true;
            }
            i = j;
            prev_alnum = true;
            continue;
        }
        prev_alnum = c.is_alphanumeric() || c == '_';
        i += 1;
    }
    false
}

fn classes_of(info: &QInfo, classes: &mut Vec<&'static str>) {
    let mut add = |c: &'static str| {
        if !classes.contains(&c) {
            classes.push(c);
        }
    };
    add(match info.answers {
        0 => "answers:0",
        1 => "answers:1",
        2..=3 => "answers:2-3",
        _ => "answers:>=4",
    });
    if info.trailing_false && info.answers > 0 {
        add("trailing-false-after-answers");
    }
    if !info.trailing_false && info.answers >= 2 {
        add("last-of-several-deterministic");
    }
    if info.exception {
        add(if info.answers > 0 { "exception-after-answers" } else { "exception-first" });
    }
    if info.residual {
        add("residual-goals");
    }
    if info.needs_quoting {
        add("quoting-or-bracketing");
    }
    if info.fabricated {
        add("fabricated-variable-names");
    }
}

fn nontrivial(info: &QInfo) -> bool {
    info.answers >= 2 || info.residual || info.needs_quoting
}

// ---------------------------------------------------------------------------------------------
// kind "prog": the C07 program space

#[derive(Clone, Debug, Serialize, Deserialize)]
pub struct ProgCase {
    pub gen: GenCase,
    pub scheme: u8,
}

fn det_by_construction(goal: &T) -> bool {
    match goal {
        T::Cmp(n, a) if n == "," && a.len() == 2 => matches!(&a[1], T::Atom(c) if c == "!"),
        T::Cmp(n, a) if n == "\\+" && a.len() == 1 => true,
        T::Cmp(n, a) if n == "findall" && a.len() == 3 => true,
        T::Cmp(n, a) if n == "once" && a.len() == 1 => true,
        T::Cmp(n, a) if n == ";" && a.len() == 2 => matches!((&a[0], &a[1]), (T::Cmp(m, _), T::Atom(f)) if m == "->" && f == "fail"),
        _ => false,
    }
}

pub fn prog_strategy() -> BoxedStrategy<ProgCase> {
    (case_strategy(GenCfg { max_queries: 4, ..GenCfg::default() }), 0u8..6).prop_map(|(gen, scheme)| ProgCase { gen, scheme }).boxed()
}

pub fn check_prog(env: &mut Env, case: &ProgCase) -> Verdict {
    env.heal();
    let prefix = format!("t{}x_", env.n);
    env.n += 1;
    let c = rename_case(&case.gen, &prefix);
    let text = render_program(&c.prog);
    match crate::props::c07::load(&mut env.s, &text, &format!("t{}", env.n)) {
        Ok(()) => {}
        // a panic of the compiler on the generated program is C07's finding, not a toplevel matter
        Err(crate::props::c07::LoadErr::Panic(m)) => {
            ENGINE_PANICS.fetch_add(1, Ordering::Relaxed);
            return Verdict::Discard(format!("engine-panic-outside-toplevel:{}", m.split_whitespace().next().unwrap_or("?")));
        }
        Err(crate::props::c07::LoadErr::Rejected(m)) => return Verdict::Discard(format!("load-rejected:{}", m.chars().take(30).collect::<String>())),
    }
    let mut interp = Interp::new(&c.prog);
    let lim = crate::props::c07::ref_limits();
    let mut classes: Vec<&'static str> = vec!["kind:program"];
    let mut nt = false;
    let mut done = 0;
    for q in &c.queries {
        let mut vs = vec![];
        q.goal.vars(&mut vs);
        let nvars = vs.iter().map(|v| *v as usize + 1).max().unwrap_or(0);
        let names_all = var_names(case.scheme, nvars);
        // template order = the order of q.template (first occurrence in the goal)
        let mut tv = vec![];
        q.template.vars(&mut tv);
        let names: Vec<String> = tv.iter().map(|v| names_all[*v as usize].clone()).collect();
        let qtext = rename_vars_text(&goal_text(&q.goal), &names_all);
        let expected = interp.solve(&q.goal, &q.template, &lim);
        // a query the reference cannot bound is not run at all (it might not terminate)
        if matches!(expected, RefOutcome::Limit) {
            Q_REF_SKIPPED.fetch_add(1, Ordering::Relaxed);
            continue;
        }
        if let RefOutcome::Sols(v) = &expected {
            if v.len() > 40 {
                continue;
            }
        }
        let spec = QSpec { text: &qtext, names: &names, constraint_free: true, det_by_construction: det_by_construction(&q.goal), expected: Some(&expected) };
        match check_query(env, &spec) {
            Ok(info) => {
                done += 1;
                nt |= nontrivial(&info);
                classes_of(&info, &mut classes);
            }
            Err(Verdict::Fail { signature, detail }) => return Verdict::Fail { signature, detail: format!("{detail}\nprogram:\n{text}") },
            Err(Verdict::Discard(r)) if r == "cyclic-solution" || r == "scc-run-differs" => continue,
            // the session is poisoned after a panic: give the case up (heal() rebuilds the machine)
            Err(Verdict::Discard(r)) if r.starts_with("engine-panic") => return Verdict::Discard(r),
            Err(v) => return v,
        }
    }
    if done == 0 {
        return Verdict::Discard("no-decidable-query".into());
    }
    Verdict::pass(nt, &classes)
}

// ---------------------------------------------------------------------------------------------
// kind "shape": answer-shaping queries

/// goals of a shape query; variables are numbered 0..NV, anonymous variables are T::Var(>= 1000)
#[derive(Clone, Debug, Serialize, Deserialize)]
pub enum SG {
    Eq(u8, T),
    Alias(u8, u8),
    Member(u8, Vec<T>),
    Between(i8, u8, u8),
    Dif(u8, T),
    Freeze(u8, Box<SG>),
    Length(u8, u8),
    Append(u8, u8, Vec<T>),
    AtomChars(u8, String),
    CopyTerm(u8, u8),
    True,
    Fail,
    Throw(T),
    TypeErr(u8),
    Or(Box<SG>, Box<SG>),
    And(Box<SG>, Box<SG>),
    Not(Box<SG>),
    Once(Box<SG>),
}

#[derive(Clone, Debug, Serialize, Deserialize)]
pub struct ShapeCase {
    pub goal: SG,
    pub scheme: u8,
}

const NV: u32 = 4;

fn wr_term(t: &T, names: &[String], out: &mut String) {
    match t {
        T::Var(v) if (*v as usize) < names.len() => out.push_str(&names[*v as usize]),
        T::Var(_) => out.push('_'),
        T::PList(items, tail) => {
            out.push('[');
            for (i, it) in items.iter().enumerate() {
                if i > 0 {
                    out.push(',');
                }
                wr_term(it, names, out);
            }
            if !tail.is_nil() {
                out.push('|');
                wr_term(tail, names, out);
            }
            out.push(']');
        }
        T::Cmp(n, args) => {
            out.push_str(&write_atom(n));
            out.push('(');
            for (i, a) in args.iter().enumerate() {
                if i > 0 {
                    out.push(',');
                }
                wr_term(a, names, out);
            }
            out.push(')');
        }
        other => other.write_text(out),
    }
}

fn term_text(t: &T, names: &[String]) -> String {
    let mut s = String::new();
    wr_term(t, names, &mut s);
    s
}

impl SG {
    pub fn text(&self, names: &[String]) -> String {
        let v = |i: &u8| names[*i as usize % names.len()].clone();
        match self {
            // an atom that is an operator must be bracketed as an operand: bracket every atom
            SG::Eq(a, t @ T::Atom(_)) => format!("{} = ({})", v(a), term_text(t, names)),
            SG::Eq(a, t) => format!("{} = {}", v(a), term_text(t, names)),
            SG::Alias(a, b) => format!("{} = {}", v(a), v(b)),
            SG::Member(a, ts) => format!("member({}, {})", v(a), term_text(&list(ts.clone()), names)),
            SG::Between(lo, n, a) => format!("between({}, {}, {})", lo, *lo as i32 + *n as i32, v(a)),
            SG::Dif(a, t) => format!("dif({}, {})", v(a), term_text(t, names)),
            SG::Freeze(a, g) => format!("freeze({}, ({}))", v(a), g.text(names)),
            SG::Length(a, n) => format!("length({}, {})", v(a), n),
            SG::Append(a, b, ts) => format!("append({}, {}, {})", v(a), v(b), term_text(&list(ts.clone()), names)),
            SG::AtomChars(a, s) => format!("atom_chars({}, {})", write_atom(s), v(a)),
            SG::CopyTerm(a, b) => format!("copy_term({}, {})", v(a), v(b)),
            SG::True => "true".into(),
            SG::Fail => "fail".into(),
            SG::Throw(t) => format!("throw({})", term_text(t, names)),
            SG::TypeErr(a) => format!("{} is foo + 1", v(a)),
            SG::Or(a, b) => format!("({} ; {})", a.text(names), b.text(names)),
            SG::And(a, b) => format!("({}, {})", a.text(names), b.text(names)),
            SG::Not(a) => format!("\\+ ({})", a.text(names)),
            SG::Once(a) => format!("once(({}))", a.text(names)),
        }
    }
    /// variables that occur (named ones), in order of first occurrence in the text
    fn vars(&self, out: &mut Vec<u32>) {
        let mut add = |i: u32, out: &mut Vec<u32>| {
            if !out.contains(&i) {
                out.push(i)
            }
        };
        let tv = |t: &T, out: &mut Vec<u32>| {
            let mut vs = vec![];
            t.vars(&mut vs);
            for x in vs {
                if x < NV && !out.contains(&x) {
                    out.push(x);
                }
            }
        };
        match self {
            SG::Eq(a, t) | SG::Dif(a, t) => {
                add(*a as u32 % NV, out);
                tv(t, out);
            }
            SG::Alias(a, b) | SG::CopyTerm(a, b) => {
                add(*a as u32 % NV, out);
                add(*b as u32 % NV, out);
            }
            SG::Member(a, ts) => {
                add(*a as u32 % NV, out);
                for t in ts {
                    tv(t, out);
                }
            }
            SG::Append(a, b, ts) => {
                add(*a as u32 % NV, out);
                add(*b as u32 % NV, out);
                for t in ts {
                    tv(t, out);
                }
            }
            SG::Between(_, _, a) | SG::Length(a, _) | SG::AtomChars(a, _) | SG::TypeErr(a) => add(*a as u32 % NV, out),
            SG::Freeze(a, g) => {
                add(*a as u32 % NV, out);
                g.vars(out);
            }
            SG::Throw(t) => tv(t, out),
            SG::True | SG::Fail => {}
            SG::Or(a, b) | SG::And(a, b) => {
                a.vars(out);
                b.vars(out);
            }
            SG::Not(a) | SG::Once(a) => a.vars(out),
        }
    }
    fn uses_constraints(&self) -> bool {
        match self {
            SG::Dif(..) | SG::Freeze(..) => true,
            SG::Or(a, b) | SG::And(a, b) => a.uses_constraints() || b.uses_constraints(),
            SG::Not(a) | SG::Once(a) => a.uses_constraints(),
            _ => false,
        }
    }
    /// cannot leave a choice point (conservative)
    fn surely_det(&self) -> bool {
        match self {
            SG::Eq(..) | SG::Alias(..) | SG::True | SG::Not(_) | SG::Once(_) | SG::AtomChars(..) | SG::CopyTerm(..) => true,
            SG::And(a, b) => a.surely_det() && b.surely_det(),
            _ => false,
        }
    }
    fn label(&self, out: &mut Vec<&'static str>) {
        let l = match self {
            SG::Eq(..) => "goal:eq",
            SG::Alias(..) => "goal:alias",
            SG::Member(..) => "goal:member",
            SG::Between(..) => "goal:between",
            SG::Dif(..) => "goal:dif",
            SG::Freeze(..) => "goal:freeze",
            SG::Length(..) => "goal:length",
            SG::Append(..) => "goal:append",
            SG::AtomChars(..) => "goal:atom_chars",
            SG::CopyTerm(..) => "goal:copy_term",
            SG::True | SG::Fail => "goal:true-fail",
            SG::Throw(_) | SG::TypeErr(_) => "goal:throws",
            SG::Or(..) => "goal:disjunction",
            SG::And(..) => "goal:conjunction",
            SG::Not(_) => "goal:negation",
            SG::Once(_) => "goal:once",
        };
        if !out.contains(&l) {
            out.push(l);
        }
        match self {
            SG::Freeze(_, g) | SG::Not(g) | SG::Once(g) => g.label(out),
            SG::Or(a, b) | SG::And(a, b) => {
                a.label(out);
                b.label(out);
            }
            _ => {}
        }
    }
}

const ATOMS: &[&str] = &[
    "a", "b", "foo", "[]", "{}", "!", ";", ",", "|", "-", "+", "*", ":-", "-->", "\\+", "=", "is", "mod", "dynamic", "a b", "A", "_x", "_A", "'", "\\", "\n", "", "[", "αβ", ".", "e", "-1", "1", "/*", "%", "end_of_file", "true", "false", "<", "\\", "^", ":", "?-", "->", "//", "rem", "hello", "\t", "\"", "#", "@", "&", "$", "~", "#>", "$-", "a.", "?",
];
const PREFIX_OPS: &[&str] = &["-", "+", "\\+", ":-", "?-", "\\", "dynamic", "f", "$", "@"];
const INFIX_OPS: &[&str] = &[":", ",", ";", "->", "=", "-", "+", "*", "/", "**", "^", ":-", "-->", "is", "mod", "<", "=..", "\\=", "==", "rem", "//", ">>", "@<", "f", "rdiv", "xor"];
const STRINGS: &[&str] = &["abc", "", "a\"b", "a\nb", "[]", "a b", "\\", "'", "αβγ", "a", "Hello, World", "X", "_"];

fn shape_term(depth: u32) -> BoxedStrategy<T> {
    let leaf = prop_oneof![
        5 => any::<u16>().prop_map(|k| atom(crate::gen::pick(ATOMS, k))),
        4 => (-3i64..=12).prop_map(int),
        1 => any::<u16>().prop_map(|k| T::Int(crate::gen::pick(&[IBig::from(1u8) << 70, -(IBig::from(1u8) << 64), IBig::from(-36028797018963968i64), IBig::from(i64::MAX)], k))),
        2 => any::<u16>().prop_map(|k| T::Float(crate::gen::pick(&[1.0, -1.5, 0.0, -0.0, 1.0e10, 1.0e22, 2.5e-7, 0.1, -1.0e100, 123456789.125], k))),
        2 => any::<u16>().prop_map(|k| T::Str(crate::gen::pick(STRINGS, k).to_string())),
        5 => (0..NV).prop_map(T::Var),
        2 => Just(T::Var(1000)),
        1 => Just(nil()),
    ]
    .boxed();
    leaf.prop_recursive(depth, 24, 4, |inner| {
        prop_oneof![
            3 => (any::<u16>(), inner.clone()).prop_map(|(k, a)| cmp(crate::gen::pick(PREFIX_OPS, k), vec![a])),
            5 => (any::<u16>(), inner.clone(), inner.clone()).prop_map(|(k, a, b)| cmp(crate::gen::pick(INFIX_OPS, k), vec![a, b])),
            2 => (any::<u16>(), proptest::collection::vec(inner.clone(), 1..=3)).prop_map(|(k, args)| cmp(crate::gen::pick(&["f", "g", "f g", "[]", "{}", "$VAR", "-", "+", ":-", "'", "F"], k), args)),
            2 => proptest::collection::vec(inner.clone(), 1..=4).prop_map(list),
            1 => (proptest::collection::vec(inner.clone(), 1..=3), inner.clone()).prop_map(|(items, tail)| T::PList(items, Box::new(tail))),
            1 => (any::<u16>(), (0..NV)).prop_map(|(k, v)| {
                // a partial string: characters then a variable tail
                let s: &str = crate::gen::pick(&["ab", "a", "abc", "x y"], k);
                T::PList(s.chars().map(|c| atom(&c.to_string())).collect(), Box::new(T::Var(v)))
            }),
            1 => inner.clone().prop_map(|a| cmp("{}", vec![a])),
        ]
    })
    .boxed()
}

/// replace the variable `v` by an anonymous variable (X = f(X) would build a cyclic term)
fn no_var(t: &T, v: u32) -> T {
    match t {
        T::Var(w) if *w == v => T::Var(1000),
        T::Cmp(n, a) => T::Cmp(n.clone(), a.iter().map(|x| no_var(x, v)).collect()),
        T::PList(items, tail) => T::PList(items.iter().map(|x| no_var(x, v)).collect(), Box::new(no_var(tail, v))),
        other => other.clone(),
    }
}

fn shape_goal() -> BoxedStrategy<SG> {
    let v = 0u8..NV as u8;
    let basic = prop_oneof![
        10 => (v.clone(), shape_term(3)).prop_map(|(a, t)| SG::Eq(a, no_var(&t, a as u32))),
        3 => (v.clone(), v.clone()).prop_map(|(a, b)| SG::Alias(a, b)),
        4 => (v.clone(), proptest::collection::vec(shape_term(2), 1..=4)).prop_map(|(a, ts)| SG::Member(a, ts.iter().map(|t| no_var(t, a as u32)).collect())),
        2 => (-2i8..=3, 0u8..=3, v.clone()).prop_map(|(lo, n, a)| SG::Between(lo, n, a)),
        3 => (v.clone(), shape_term(2)).prop_map(|(a, t)| SG::Dif(a, t)),
        2 => (v.clone(), 0u8..=3).prop_map(|(a, n)| SG::Length(a, n)),
        2 => (v.clone(), v.clone(), proptest::collection::vec(shape_term(1), 0..=3)).prop_map(|(a, b, ts)| SG::Append(a, b, ts)),
        1 => (v.clone(), any::<u16>()).prop_map(|(a, k)| SG::AtomChars(a, crate::gen::pick(ATOMS, k).to_string())),
        1 => (v.clone(), v.clone()).prop_map(|(a, b)| SG::CopyTerm(a, b)),
        1 => Just(SG::True),
        1 => Just(SG::Fail),
        1 => shape_term(1).prop_map(SG::Throw),
        1 => v.clone().prop_map(SG::TypeErr),
    ]
    .boxed();
    basic
        .prop_recursive(3, 8, 2, move |inner| {
            prop_oneof![
                4 => (inner.clone(), inner.clone()).prop_map(|(a, b)| SG::And(Box::new(a), Box::new(b))),
                3 => (inner.clone(), inner.clone()).prop_map(|(a, b)| SG::Or(Box::new(a), Box::new(b))),
                1 => inner.clone().prop_map(|a| SG::Not(Box::new(a))),
                1 => inner.clone().prop_map(|a| SG::Once(Box::new(a))),
                1 => (0u8..NV as u8, inner.clone()).prop_map(|(a, g)| SG::Freeze(a, Box::new(g))),
            ]
        })
        .boxed()
}

/// Every atom of the vocabulary (plus more symbol-char atoms) as the value that ends the last
/// answer: bare, as the right operand of an infix operator, as the operand of a prefix operator.
pub fn final_atom_cases() -> Vec<ShapeCase> {
    let extra = ["&", "/", ">", "=..", "\\=", "..", "...", "#.", "a#", "#a", "**", "@>=", "+-", "~~", "<--", "$"];
    let mut atoms: Vec<&str> = ATOMS.to_vec();
    for e in extra {
        if !atoms.contains(&e) {
            atoms.push(e);
        }
    }
    let mut out = vec![];
    for a in atoms {
        out.push(ShapeCase { goal: SG::Eq(0, atom(a)), scheme: 0 });
        out.push(ShapeCase { goal: SG::And(Box::new(SG::Eq(1, int(1))), Box::new(SG::Eq(0, atom(a)))), scheme: 0 });
        out.push(ShapeCase { goal: SG::Eq(0, cmp("-", vec![atom("a"), atom(a)])), scheme: 1 });
        out.push(ShapeCase { goal: SG::Eq(0, cmp("\\+", vec![atom(a)])), scheme: 3 });
        out.push(ShapeCase { goal: SG::Eq(0, cmp("f", vec![atom(a)])), scheme: 4 });
    }
    out
}

pub fn shape_strategy() -> BoxedStrategy<ShapeCase> {
    (shape_goal(), 0u8..6).prop_map(|(goal, scheme)| ShapeCase { goal, scheme }).boxed()
}

pub fn check_shape(env: &mut Env, case: &ShapeCase) -> Verdict {
    env.heal();
    let names_all = var_names(case.scheme, NV as usize);
    let qtext = case.goal.text(&names_all);
    let mut vs = vec![];
    case.goal.vars(&mut vs);
    let names: Vec<String> = vs.iter().map(|v| names_all[*v as usize].clone()).collect();
    let spec = QSpec { text: &qtext, names: &names, constraint_free: !case.goal.uses_constraints(), det_by_construction: case.goal.surely_det(), expected: None };
    let mut classes: Vec<&'static str> = vec!["kind:shape"];
    case.goal.label(&mut classes);
    match check_query(env, &spec) {
        Ok(info) => {
            classes_of(&info, &mut classes);
            Verdict::pass(nontrivial(&info), &classes)
        }
        Err(v) => v,
    }
}

// ---------------------------------------------------------------------------------------------
// kind "binary": the real binary entry point in a child process

pub struct BinOut {
    pub stdout: String,
    pub stderr: String,
    pub code: Option<i32>,
    pub signal: Option<i32>,
    pub timed_out: bool,
}

static BIN_SEQ: AtomicU64 = AtomicU64::new(0);

/// Run `scryer_prolog::run_binary()` in a child process: cwd is a fresh directory holding the
/// program as `child.pl` (the child's argv is `vcheck child C29 toplevel`, which the toplevel
/// takes as three files to consult: child.pl = the program, C29.pl and toplevel.pl = empty),
/// HOME points there too (no ~/.scryerrc), stdin is a file with the query texts.
pub fn run_binary_child(program: &str, stdin_text: &str, timeout_s: u64) -> BinOut {
    use std::os::unix::process::ExitStatusExt;
    let exe = std::env::current_exe().unwrap();
    let seq = BIN_SEQ.fetch_add(1, Ordering::SeqCst);
    let dir = std::path::Path::new(&verif_dir()).join("scratch").join(format!("c29bin-{}-{seq}", std::process::id()));
    std::fs::create_dir_all(&dir).unwrap();
    std::fs::write(dir.join("child.pl"), program).unwrap();
    std::fs::write(dir.join("C29.pl"), "").unwrap();
    std::fs::write(dir.join("toplevel.pl"), "").unwrap();
    std::fs::write(dir.join("stdin.txt"), stdin_text).unwrap();
    let mut cmd = std::process::Command::new(&exe);
    cmd.args(["child", "C29", "toplevel"]);
    cmd.current_dir(&dir);
    cmd.env("HOME", &dir);
    cmd.env_remove("VERIF_VERBOSE_PANIC");
    cmd.stdin(std::fs::File::open(dir.join("stdin.txt")).unwrap());
    cmd.stdout(std::fs::File::create(dir.join("out.txt")).unwrap());
    cmd.stderr(std::fs::File::create(dir.join("err.txt")).unwrap());
    let t0 = std::time::Instant::now();
    let trace = std::env::var("VERIF_C29_TRACE").is_ok();
    if trace {
        eprintln!("[{}] spawning binary child in {}", std::process::id(), dir.display());
    }
    let mut child = cmd.spawn().expect("spawn child");
    if trace {
        eprintln!("[{}] spawned pid {} after {:?}", std::process::id(), child.id(), t0.elapsed());
    }
    let mut timed_out = false;
    let status = loop {
        match child.try_wait() {
            Ok(Some(st)) => break Some(st),
            Ok(None) => {
                if t0.elapsed().as_secs() >= timeout_s {
                    let _ = child.kill();
                    let _ = child.wait();
                    timed_out = true;
                    break None;
                }
                std::thread::sleep(std::time::Duration::from_millis(5));
            }
            Err(_) => break None,
        }
    };
    if trace {
        eprintln!("[{}] child done after {:?} timed_out={timed_out}", std::process::id(), t0.elapsed());
    }
    let stdout = std::fs::read(dir.join("out.txt")).map(|b| String::from_utf8_lossy(&b).to_string()).unwrap_or_default();
    let stderr = std::fs::read(dir.join("err.txt")).map(|b| String::from_utf8_lossy(&b).to_string()).unwrap_or_default();
    let _ = std::fs::remove_dir_all(&dir);
    BinOut { stdout, stderr, code: status.and_then(|s| s.code()), signal: status.and_then(|s| s.signal()), timed_out }
}

#[derive(Clone, Debug, Serialize, Deserialize)]
pub struct BinCase {
    pub prog: ProgCase,
    pub shapes: Vec<ShapeCase>,
}

pub fn bin_strategy() -> BoxedStrategy<BinCase> {
    (prog_strategy(), proptest::collection::vec(shape_strategy(), 0..=8)).prop_map(|(prog, shapes)| BinCase { prog, shapes }).boxed()
}

static BIN_QUERIES: AtomicU64 = AtomicU64::new(0);

const BIN_PRELUDE: &str = ":- use_module(library(lists)).\n:- use_module(library(between)).\n:- use_module(library(dif)).\n:- use_module(library(freeze)).\n";

pub fn check_bin(env: &mut Env, case: &BinCase) -> Verdict {
    let v = check_bin_inner(env, case);
    if std::env::var("VERIF_C29_TRACE").is_ok() {
        match &v {
            Verdict::Fail { signature, detail } => eprintln!("binary case FAIL {signature}\n{detail}"),
            Verdict::Discard(r) => eprintln!("binary case discard {r}"),
            _ => {}
        }
    }
    v
}

/// consecutive calls of check_bin on a brand-new environment = the driver is shrinking (one child
/// process per candidate, seconds each): after a small budget every further candidate passes,
/// which ends the shrinking with the smallest failing case found so far
static BIN_FRESH_RUN: AtomicU64 = AtomicU64::new(0);
const BIN_SHRINK_BUDGET: u64 = 40;

fn check_bin_inner(env: &mut Env, case: &BinCase) -> Verdict {
    env.heal();
    if env.n == 0 {
        if BIN_FRESH_RUN.fetch_add(1, Ordering::Relaxed) >= BIN_SHRINK_BUDGET {
            return Verdict::pass(false, &["binary:shrink-budget-exhausted"]);
        }
    } else {
        BIN_FRESH_RUN.store(0, Ordering::Relaxed);
    }
    let prefix = format!("b{}x_", env.n);
    env.n += 1;
    let c = rename_case(&case.prog.gen, &prefix);
    let text = render_program(&c.prog);
    match crate::props::c07::load(&mut env.s, &text, &format!("b{}", env.n)) {
        Ok(()) => {}
        // a panic of the compiler on the generated program is C07's finding, not a toplevel matter
        Err(crate::props::c07::LoadErr::Panic(m)) => {
            ENGINE_PANICS.fetch_add(1, Ordering::Relaxed);
            return Verdict::Discard(format!("engine-panic-outside-toplevel:{}", m.split_whitespace().next().unwrap_or("?")));
        }
        Err(crate::props::c07::LoadErr::Rejected(m)) => return Verdict::Discard(format!("load-rejected:{}", m.chars().take(30).collect::<String>())),
    }
    // (query text, names, constraint-free)
    let mut specs: Vec<(String, Vec<String>, bool)> = vec![];
    let mut interp = Interp::new(&c.prog);
    let lim = crate::props::c07::ref_limits();
    for q in &c.queries {
        // only queries the reference interpreter can bound are run
        match interp.solve(&q.goal, &q.template, &lim) {
            RefOutcome::Limit => continue,
            RefOutcome::Sols(v) if v.len() > 40 => continue,
            _ => {}
        }
        let mut vs = vec![];
        q.goal.vars(&mut vs);
        let nvars = vs.iter().map(|v| *v as usize + 1).max().unwrap_or(0);
        let names_all = var_names(case.prog.scheme, nvars);
        let mut tv = vec![];
        q.template.vars(&mut tv);
        let names: Vec<String> = tv.iter().map(|v| names_all[*v as usize].clone()).collect();
        specs.push((rename_vars_text(&goal_text(&q.goal), &names_all), names, true));
    }
    for sc in &case.shapes {
        let names_all = var_names(sc.scheme, NV as usize);
        let mut vs = vec![];
        sc.goal.vars(&mut vs);
        let names: Vec<String> = vs.iter().map(|v| names_all[*v as usize].clone()).collect();
        specs.push((sc.goal.text(&names_all), names, !sc.goal.uses_constraints()));
    }
    let mut stdin_text = String::new();
    let mut expected = String::new();
    let mut nq = 0;
    let mut classes: Vec<&'static str> = vec!["kind:binary"];
    for (qtext, names, cf) in &specs {
        let spec = QSpec { text: qtext, names, constraint_free: *cf, det_by_construction: false, expected: None };
        match check_query(env, &spec) {
            Ok(info) => {
                // the toplevel cannot read a key from a pipe: only transcripts of one segment
                if info.transcript.contains("\n;  ") {
                    continue;
                }
                classes_of(&info, &mut classes);
                stdin_text.push_str(qtext);
                stdin_text.push_str(" .\n");
                expected.push_str(&info.transcript);
                nq += 1;
            }
            Err(Verdict::Fail { signature, detail }) => return Verdict::Fail { signature, detail: format!("{detail}\nprogram:\n{text}") },
            Err(_) => continue,
        }
    }
    if nq == 0 {
        return Verdict::Discard("no-deterministic-query".into());
    }
    let program = format!("{BIN_PRELUDE}{text}");
    let o = run_binary_child(&program, &stdin_text, 60);
    if o.timed_out {
        return Verdict::Discard("binary-timeout".into());
    }
    BIN_QUERIES.fetch_add(nq, Ordering::Relaxed);
    if let Some(i) = o.stderr.find("PANIC panicked at ") {
        let loc: String = o.stderr[i + 18..].split(|c: char| c == '\n' || c == ' ').next().unwrap_or("?").trim_end_matches(':').to_string();
        let loc = match loc.rfind("/src/") {
            Some(k) => format!("repo:{}", &loc[k + 1..]),
            None => loc,
        };
        return Verdict::fail(format!("binary-panic:{loc}"), format!("the binary entry panicked\nstdin:\n{stdin_text}stdout: {:?}\nstderr: {}\nprogram:\n{program}", o.stdout, o.stderr));
    }
    if o.signal.is_some() || o.code != Some(0) {
        return Verdict::fail(format!("binary-exit:code-{:?}-signal-{:?}", o.code, o.signal), format!("stdin:\n{stdin_text}stdout: {:?}\nstderr: {}\nprogram:\n{program}", o.stdout, o.stderr));
    }
    // consulting child.pl prints singleton-variable warnings on stdout before the first query
    let mut stdout = o.stdout.as_str();
    while stdout.starts_with("% Warning:") {
        stdout = match stdout.split_once('\n') {
            Some((_, rest)) => rest,
            None => "",
        };
    }
    // error terms are written with the raw names (_123) of their variables: accepted freedom
    if norm_raw_vars(stdout) != norm_raw_vars(&expected) {
        return Verdict::fail("binary-transcript:differs-from-in-process", format!("stdin:\n{stdin_text}stdout:   {:?}\nexpected: {:?}\nstderr: {}\nprogram:\n{program}", o.stdout, expected, o.stderr));
    }
    Verdict::pass(nq >= 3, &classes)
}

// ---------------------------------------------------------------------------------------------

fn add_counters(d: &mut Driver) {
    let mut put = |k: &str, v: &AtomicU64| {
        d.res.extra.insert(k.into(), json!(v.load(Ordering::Relaxed)));
    };
    put("queries_checked", &Q_RUN);
    put("answers_printed", &Q_ANSWERS);
    put("queries_with_2_or_more_answers", &Q_MULTI);
    put("queries_ending_in_false", &Q_TRAILING_FALSE);
    put("queries_ending_in_exception", &Q_EXC);
    put("queries_compared_with_reference_interpreter", &Q_REF_COMPARED);
    put("queries_reference_interpreter_skipped", &Q_REF_SKIPPED);
    put("answers_reexecuted", &A_REEXEC);
    put("answers_beyond_print_depth_not_judged", &A_DEEP_SKIPPED);
    put("answers_with_residual_goals", &A_RESIDUAL);
    put("answers_with_fabricated_variable_names", &A_FABRICATED);
    put("queries_deterministic_by_construction", &Q_DET_BY_CONSTRUCTION);
    put("queries_discarded_cyclic_solution", &Q_CYCLIC);
    put("queries_through_binary_entry", &BIN_QUERIES);
    put("engine_panics_outside_toplevel_not_judged", &ENGINE_PANICS);
}

pub struct C29;

impl Prop for C29 {
    fn id(&self) -> &'static str {
        "C29"
    }
    fn rule(&self) -> &'static str {
        "queries typed as text (read with variable_names) and run through '$toplevel':run_query_goal/4 on a machine whose user_output is a callback stream, once with a collecting callback around write_leaf_answer/2 and once with the toplevel's own toplevel_query_callback/read_input in 'all solutions' mode; (a) programs of the C07 space (shared::proggen) with up to 4 queries each, (b) answer-shaping queries: conjunctions/disjunctions/negations of X = Term, X = Y, member/2, between/3, append/3, length/2, atom_chars/2, copy_term/2, dif/2, freeze/2, throw/1 over terms with prefix/infix operators, special atoms, negative numbers, floats, strings, partial lists and partial strings, anonymous variables, under 6 variable naming schemes (including names that collide with fabricated _A/_B and _-prefixed names); (c) every atom of the vocabulary as the value that ends the last answer (enumerated), (d) a small tier that pipes the deterministic queries of (a)+(b) into the real binary entry run_binary in a child process and compares stdout with the in-process transcript; judged against findall/3 on the same machine, the reference interpreter (a), re-reading (also with the toplevel's final dot) and re-running every printed answer, and setup_call_cleanup/3 determinism; non-trivial = a query with >= 2 answers, an answer with residual goals, or an answer that needs quoting or bracketing; distinct by case encoding"
    }
    fn assumptions(&self) -> Vec<String> {
        vec![
            "findall/3, catch/3 and the vp_enc transport of support.pl report the query's solutions faithfully (C07/C25 check them)".into(),
            "read_term_from_chars/3 reads canonical functional notation and what the writer printed correctly (C15-C17 check reader and writer separately; a misreading shows up here as an unfaithful answer)".into(),
            "setup_call_cleanup/3 runs its cleanup exactly when the goal exits without a choice point".into(),
            "the reference interpreter shared/refint.rs (for the C07 program space)".into(),
            "path B sets '$report_all' before the first answer instead of through the `a` key".into(),
        ]
    }
    fn run_shard(&self, cfg: &ShardCfg) -> ShardResult {
        let mut d = Driver::new(cfg, "C29");
        let n_prog = cfg.share(cfg.tier.pick(1_600, 80_000));
        let n_shape = cfg.share(cfg.tier.pick(6_000, 300_000));
        let n_bin = cfg.share(cfg.tier.pick(64, 3_200));
        // dev aid: VERIF_C29_ONLY=prog|shape|binary runs one kind only
        let only = std::env::var("VERIF_C29_ONLY").unwrap_or_default();
        if only.is_empty() || only == "prog" {
            d.run("prog", 0, n_prog, 200, prog_strategy(), &mk_env, &check_prog);
        }
        if only.is_empty() || only == "shape" {
            d.run("shape", 1, n_shape, 1000, shape_strategy(), &mk_env, &check_shape);
        }
        if only.is_empty() || only == "shape" {
            // enumerated: every atom of the vocabulary at the very end of the last answer
            let mine: Vec<ShapeCase> = final_atom_cases().into_iter().enumerate().filter(|(i, _)| *i as u32 % cfg.nshards == cfg.shard).map(|(_, c)| c).collect();
            d.run_list("shape", mine, 1000, &mk_env, &check_shape);
        }
        if only.is_empty() || only == "binary" {
            d.run("binary", 2, n_bin, 50, bin_strategy(), &mk_env, &check_bin);
        }
        add_counters(&mut d);
        d.finish()
    }
    fn replay(&self, kind: &str, case: &Value) -> Verdict {
        match kind {
            "prog" => replay_case::<ProgCase, Env>(case, &mk_env, &check_prog),
            "binary" => replay_case::<BinCase, Env>(case, &mk_env, &check_bin),
            _ => replay_case::<ShapeCase, Env>(case, &mk_env, &check_shape),
        }
    }
    /// shrinking a failure runs up to 400 candidates on fresh machines (0.5 s each) without
    /// touching the journal
    fn case_timeout_s(&self, _tier: Tier) -> u64 {
        400
    }
    fn child(&self, mode: &str, input: &Value) -> i32 {
        match mode {
            // dev aid: {"text": program, "query": "member(X,[a,b])", "names": ["X"]} -> prints both transcripts
            "tl" => {
                let mut env = mk_env();
                if let Some(t) = input["text"].as_str() {
                    if crate::props::c07::load(&mut env.s, t, "dbg").is_err() {
                        println!("load failed");
                        return 1;
                    }
                }
                let qs: Vec<Value> = match input["queries"].as_array() {
                    Some(a) => a.clone(),
                    None => vec![input.clone()],
                };
                for input in &qs {
                    let q = input["query"].as_str().unwrap_or("true");
                    println!("?- {q}.");
                    let qc = codes_text(q);
                    let names: Vec<String> = input["names"].as_array().map(|a| a.iter().map(|x| x.as_str().unwrap_or("").to_string()).collect()).unwrap_or_default();
                    if input["verbose"].as_bool().unwrap_or(false) {
                        println!("sols: {}", env.s.ask(&format!("c29_sols({qc}, {}, L)", names_text(&names)), "L").short());
                        println!("dets: {}", env.s.ask(&format!("c29_dets({qc}, L)"), "L").short());
                        env.take_out();
                        println!("A: {}", env.s.ask(&format!("c29_a({qc})"), "[]").short());
                        println!("{:?}", env.take_out());
                    }
                    let o = env.s.ask(&format!("c29_b({qc})"), "[]");
                    let b = env.take_out();
                    println!("{b}[B: {}]", o.short());
                    let spec = QSpec { text: q, names: &names, constraint_free: input["cf"].as_bool().unwrap_or(false), det_by_construction: false, expected: None };
                    match check_query(&mut env, &spec) {
                        Ok(_) => println!("check: ok"),
                        Err(Verdict::Fail { signature, detail }) => println!("check: FAIL {signature}\n{detail}"),
                        Err(Verdict::Discard(r)) => println!("check: discard {r}"),
                        Err(_) => println!("check: ?"),
                    }
                }
                0
            }
            // the real binary entry: argv = vcheck child C29 toplevel (see run_binary_child)
            "toplevel" => {
                std::panic::set_hook(Box::new(|info| {
                    eprintln!("PANIC {info}");
                }));
                let c = scryer_prolog::run_binary();
                if c == std::process::ExitCode::SUCCESS {
                    0
                } else {
                    1
                }
            }
            // dev aid: {"text": program, "stdin": "X = 1.\n"} -> raw output of the binary entry
            "bin" => {
                let o = run_binary_child(input["text"].as_str().unwrap_or(""), input["stdin"].as_str().unwrap_or(""), 30);
                println!("code {:?} signal {:?} timed_out {}\nstdout {:?}\nstderr {:?}", o.code, o.signal, o.timed_out, o.stdout, o.stderr);
                0
            }
            _ => 2,
        }
    }
}
