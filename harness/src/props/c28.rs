//! C28 — Embedded queries return faithful answers across a query history.
//!
//! A case is a history of 3..15 steps on ONE machine; a step is a query (or a
//! consult_module_string call) and a consumption count: `next()` is called that many times
//! (0 = the QueryState is dropped without calling next; more than the stream has = next() is
//! called again after the end) and then the QueryState is dropped.
//!
//! Oracles:
//!  (1) differential: the item sequence of every step must equal the first items of the complete
//!      stream the same query gives on a FRESH machine that has only replayed the database side
//!      effects of the earlier steps (modelled: assertz/retractall/consult of facts take effect
//!      iff the step was started, i.e. consumed at least one item);
//!  (2) model: `X = t` must bind X to t, `member(X, Items)` must give the items in order
//!      (terms compared through an independent conversion of the public Term into the harness
//!      term model, up to variable renaming);
//!  (3) in-Prolog: for finite non-throwing single-variable queries the solutions equal those of
//!      findall/3 inside Prolog (transported through the tagged encoding of support.pl);
//!  (4) documented stream shape: an exception (Err(error(..)) or Ok(Exception(_))) is the last
//!      item; False is the last item; after the end next() keeps returning None;
//!  (5) state: after every finished or dropped query the control state (heap cut back, stack,
//!      trail, choice points, catch block) equals that of the machine before its first query.

use crate::engine::*;
use crate::gen::{pick, term_strategy, TermCfg};
use crate::session::{take_last_panic, Session};
use crate::shared::faultlib::{control_state, panic_loc};
use crate::term::T;
use proptest::prelude::*;
use scryer_prolog::{LeafAnswer, Machine, Term};
use serde::{Deserialize, Serialize};
use serde_json::{json, Value};
use std::cell::RefCell;
use std::collections::HashMap;
use std::mem::ManuallyDrop;
use std::panic::{catch_unwind, AssertUnwindSafe};

pub struct C28;

const C28_PL: &str = r#"
:- use_module(library(lists)).
:- use_module(library(between)).
:- use_module(library(freeze)).
:- use_module(library(dif)).
:- dynamic(c28_h/1).
:- dynamic(c28_g/1).
c28_p(1).
c28_p(2).
c28_p(3).
c28_q(X) :- c28_p(X).
c28_q(_) :- fail.
c28_loaded(yes).
"#;

/// maximum number of items taken from any stream
const CAP: usize = 12;

/// (label, text, single answer variable for the findall cross-check, excluded from "clean"
/// histories, run only inside a child process with a watchdog because it can hang)
const POOL: &[(&str, &str, Option<&str>, bool, bool)] = &[
    ("det-true", "true.", None, false, false),
    ("det-fact", "c28_p(2).", None, false, false),
    ("nondet3", "c28_p(X).", Some("X"), false, false),
    ("nondet3-cp", "c28_q(X).", Some("X"), false, false),
    ("ground-cp", "c28_q(2).", None, false, false),
    ("fail", "fail.", None, false, false),
    ("fail-member", "member(X, []).", Some("X"), false, false),
    ("fail-fact", "c28_p(9).", None, false, false),
    ("error-inst", "atom_length(X, Y).", None, false, false),
    ("error-type", "X is foo + 1.", None, false, false),
    ("error-exist", "c28_undefined(X).", None, false, false),
    ("ball", "throw(my_ball(1)).", None, false, false),
    ("ball-compound", "throw(f(X, \"str\", [1,2])).", None, false, false),
    ("throw-after-3", "( c28_p(X) ; throw(after(3)) ).", None, false, false),
    ("error-after-3", "( c28_p(X) ; atom_length(_, _) ).", None, false, false),
    ("freeze", "freeze(X, true).", None, false, false),
    ("dif", "dif(X, a).", None, false, false),
    ("freeze-nondet", "freeze(Y, true), c28_p(X).", None, false, false),
    ("large-numlist", "numlist(1, 300, L).", Some("L"), false, false),
    ("large-length", "length(L, 100).", Some("L"), false, false),
    ("read-h", "c28_h(X).", Some("X"), false, false),
    ("read-g", "c28_g(X).", Some("X"), false, false),
    ("findall-h", "findall(X, c28_h(X), L).", Some("L"), false, false),
    ("caught", "catch(atom_length(X, _), error(E, _), true).", Some("E"), false, false),
    ("rethrow", "catch(atom_length(X, _), foo, true).", None, true, true),
    ("rethrow-ball", "catch(throw(b(1,[x,y])), foo, true).", None, true, true),
    ("underscore", "_X = 1, Y = 2.", Some("Y"), false, false),
    ("two-vars", "X = Y.", None, false, false),
    ("alias", "X = Y, Y = 1.", None, false, false),
    ("string", "X = \"abc\".", Some("X"), false, false),
    // character lists held in ordinary list cells (not packed strings), with multi-byte characters
    // in every position: the answer conversion rebuilds a string from them
    ("chars-reverse-nonascii", "reverse(\"na\u{ef}ve\", X).", Some("X"), false, false),
    ("chars-append-greek", "append(\"\u{3b1}\u{3b2}\", \"\u{3b3}z\", X).", Some("X"), false, false),
    ("chars-cons-euro", "T = \"z\u{20ac}\", X = ['\u{e9}', '\u{20ac}'|T].", Some("X"), false, false),
    ("chars-findall-cjk", "findall(C, member(C, \"\u{65e5}\u{672c}a\u{8a9e}\"), X).", Some("X"), false, false),
    ("partial-var", "X = [a|T].", None, false, false),
    ("atom-tail", "Y = [b|a].", Some("Y"), true, false),
    ("dot", "X = '.'(a,c).", Some("X"), true, false),
    ("int-atom-tail", "Y = [1|a].", Some("Y"), false, false),
    ("between", "between(1, 5, X).", Some("X"), false, false),
    ("filter", "between(1, 40, X), X mod 10 =:= 0.", Some("X"), false, false),
    ("cut", "c28_p(X), !.", Some("X"), false, false),
    ("ite", "( c28_p(X) -> true ; X = none ).", Some("X"), false, false),
    ("neg", "\\+ c28_p(7).", None, false, false),
    ("nested-findall", "findall(X-Y, (c28_p(X), c28_p(Y)), L).", Some("L"), false, false),
    ("repeat", "repeat, X = r.", None, true, false),
    ("bignum", "X is 7 ^ 80.", Some("X"), false, false),
    ("float", "X is 1.0e10 / 3.", Some("X"), false, false),
    ("rational", "X is 1 rdiv 3.", None, false, false),
    ("assert-in-query", "assertz(c28_tmp(1)), c28_tmp(X), retract(c28_tmp(1)).", Some("X"), false, false),
    ("rethrow-eval", "catch(X is foo + 1, foo, true).", None, true, true),
    ("rethrow-exist", "catch(c28_undefined(1), foo, true).", None, true, true),
    ("rethrow-nested", "catch(catch(throw(b(1,f(Y))), foo, true), bar, true).", None, true, true),
    ("rethrow-caught-outer", "catch(catch(atom_length(X, _), foo, true), error(E, _), true).", Some("E"), true, true),
];

#[derive(Clone, Debug, Serialize, Deserialize, PartialEq)]
pub enum Q {
    /// `X = t.`
    Unify(T),
    /// `member(X, [items]).`
    Member(Vec<T>),
    /// an entry of POOL
    Pool(u16),
    /// `assertz(c28_h(n)).`
    Assert(u8),
    /// `retractall(c28_h(_)).`
    RetractAll,
    /// consult_module_string("user", "c28_g(n).")  (c28_g is dynamic, consult redefines it)
    ConsultGood(u8),
    /// consult_module_string("user", <text with a load-time error>)
    ConsultBad(u8),
}

#[derive(Clone, Debug, Serialize, Deserialize, PartialEq)]
pub struct Step {
    pub q: Q,
    pub consume: u8,
}

#[derive(Clone, Debug, Serialize, Deserialize, PartialEq)]
pub struct History {
    /// histories built to avoid the known findings (no early drop with answers remaining, no
    /// rethrow through catch/3, no atom-tailed partial strings, no bad consult)
    pub clean: bool,
    pub steps: Vec<Step>,
}

const BAD_TEXTS: &[&str] = &["c28_b(1). c28_t(X) :- X is 1 + a. c28_b(2).\n", "c28_b(1). c28_b( .\n"];

impl Q {
    fn text(&self) -> Option<String> {
        Some(match self {
            Q::Unify(t) => format!("X = {}.", no_neg_zero(t).text()),
            Q::Member(items) => format!("member(X, [{}]).", items.iter().map(|t| no_neg_zero(t).text()).collect::<Vec<_>>().join(",")),
            Q::Pool(i) => pool_entry(*i).1.to_string(),
            Q::Assert(n) => format!("assertz(c28_h({})).", n % 4),
            Q::RetractAll => "retractall(c28_h(_)).".to_string(),
            Q::ConsultGood(_) | Q::ConsultBad(_) => return None,
        })
    }
    fn label(&self) -> String {
        match self {
            Q::Unify(_) => "unify".into(),
            Q::Member(_) => "member".into(),
            Q::Pool(i) => pool_entry(*i).0.to_string(),
            Q::Assert(_) => "assertz".into(),
            Q::RetractAll => "retractall".into(),
            Q::ConsultGood(_) => "consult-good".into(),
            Q::ConsultBad(_) => "consult-bad".into(),
        }
    }
    fn reads_db(&self) -> bool {
        matches!(self, Q::Pool(i) if matches!(pool_entry(*i).0, "read-h" | "read-g" | "findall-h"))
    }
}

/// `-0.0` in source text is read as 0.0 by the reader (a finding in the reader's territory,
/// C16); the histories use 0.0 instead so that it does not mask everything else here
fn no_neg_zero(t: &T) -> T {
    match t {
        T::Float(f) if *f == 0.0 => T::Float(0.0),
        T::PList(i, tl) => T::PList(i.iter().map(no_neg_zero).collect(), Box::new(no_neg_zero(tl))),
        T::Cmp(n, a) => T::Cmp(n.clone(), a.iter().map(no_neg_zero).collect()),
        o => o.clone(),
    }
}

fn pool_entry(i: u16) -> &'static (&'static str, &'static str, Option<&'static str>, bool, bool) {
    pick(&POOL.iter().collect::<Vec<_>>(), i)
}

// ---------------------------------------------------------------------------------------------
// generator

fn small_terms(partial: bool) -> BoxedStrategy<T> {
    term_strategy(TermCfg { depth: 3, size: 12, nvars: 3, tricky_atoms: false, floats: true, bigints: true, strings: true, rationals: false, partial_lists: partial })
}

fn ground_terms() -> BoxedStrategy<T> {
    term_strategy(TermCfg { depth: 2, size: 6, nvars: 0, tricky_atoms: false, floats: false, bigints: true, strings: true, rationals: false, partial_lists: false })
}

fn step_strategy(clean: bool) -> BoxedStrategy<Step> {
    let q = prop_oneof![
        3 => small_terms(!clean).prop_map(Q::Unify),
        2 => proptest::collection::vec(ground_terms(), 0..=4).prop_map(Q::Member),
        9 => any::<u16>().prop_map(Q::Pool),
        2 => (0u8..4).prop_map(Q::Assert),
        1 => Just(Q::RetractAll),
        1 => (0u8..3).prop_map(Q::ConsultGood),
        1 => (0u8..2).prop_map(Q::ConsultBad),
    ];
    (q, 0u8..=6).prop_map(|(q, consume)| Step { q, consume }).boxed()
}

pub fn history_strategy(clean: bool) -> BoxedStrategy<History> {
    proptest::collection::vec(step_strategy(clean), 3..=15).prop_map(move |steps| History { clean, steps }).boxed()
}

// ---------------------------------------------------------------------------------------------
// running queries

/// one item of an answer stream, in comparable form
#[derive(Clone, Debug, PartialEq)]
enum Item {
    Ans(Result<LeafAnswer, Term>),
    Panic(String),
}

impl Item {
    fn is_exception(&self) -> bool {
        matches!(self, Item::Ans(Err(_)) | Item::Ans(Ok(LeafAnswer::Exception(_))))
    }
    fn is_false(&self) -> bool {
        matches!(self, Item::Ans(Ok(LeafAnswer::False)))
    }
    fn short(&self) -> String {
        format!("{self:?}").chars().take(220).collect()
    }
}

fn new_machine() -> Machine {
    let mut s = Session::new(&[]);
    s.machine.consult_module_string("user", C28_PL);
    // one completed query after the consult: the reference state is "between two queries"
    let o = s.ask_raw("c28_loaded(X)", "X");
    assert!(matches!(o, crate::session::Outcome::Sols(ref v) if v.len() == 1), "c28 program failed to load: {}", o.short());
    s.machine
}

struct Run {
    /// items delivered (at most `want`); a panic is the last item
    items: Vec<Item>,
    /// number of `None`s seen after the end (when more was asked than the stream had)
    nones: usize,
    /// a Some(_) item came after a None
    item_after_end: bool,
    /// the machine can still be used
    alive: bool,
}

/// run `text` taking at most `want` calls of next(), then drop the QueryState
fn run_query(m: &mut Machine, text: &str, want: usize) -> Run {
    let mut run = Run { items: vec![], nones: 0, item_after_end: false, alive: true };
    let mut slot = Some(m);
    let setup = catch_unwind(AssertUnwindSafe(move || {
        let m: &mut Machine = slot.take().unwrap();
        ManuallyDrop::new(m.run_query(text))
    }));
    let mut it = match setup {
        Ok(it) => it,
        Err(_) => {
            run.items.push(Item::Panic(take_last_panic()));
            run.alive = false;
            return run;
        }
    };
    for _ in 0..want {
        match catch_unwind(AssertUnwindSafe(|| it.next())) {
            Err(_) => {
                run.items.push(Item::Panic(take_last_panic()));
                run.alive = false;
                return run; // the QueryState is leaked
            }
            Ok(None) => run.nones += 1,
            Ok(Some(a)) => {
                if run.nones > 0 {
                    run.item_after_end = true;
                }
                run.items.push(Item::Ans(a));
            }
        }
    }
    if catch_unwind(AssertUnwindSafe(|| unsafe { ManuallyDrop::drop(&mut it) })).is_err() {
        run.items.push(Item::Panic(take_last_panic()));
        run.alive = false;
    }
    run
}

fn consult(m: &mut Machine, text: &str) -> Result<(), String> {
    catch_unwind(AssertUnwindSafe(|| m.consult_module_string("user", text.to_string()))).map_err(|_| take_last_panic())
}

// ---------------------------------------------------------------------------------------------
// database model and reference streams

#[derive(Clone, Debug, Default, PartialEq, Eq, Hash)]
struct Db {
    h: Vec<u8>,
    g: Option<u8>,
}

impl Db {
    fn apply(&mut self, q: &Q) {
        match q {
            Q::Assert(n) => self.h.push(n % 4),
            Q::RetractAll => self.h.clear(),
            Q::ConsultGood(n) => self.g = Some(*n),
            _ => {}
        }
    }
    fn replay(&self, m: &mut Machine) -> Result<(), String> {
        if let Some(n) = self.g {
            consult(m, &format!("c28_g({n}).\n"))?;
        }
        for n in &self.h {
            let r = run_query(m, &format!("assertz(c28_h({n}))."), 2);
            if !r.alive || r.items.len() != 1 {
                return Err(format!("replaying assertz gave {:?}", r.items));
            }
        }
        Ok(())
    }
}

#[derive(Clone, Debug)]
struct Reference {
    /// the complete stream (cut after CAP items)
    items: Vec<Item>,
    capped: bool,
    /// solutions of findall/3 inside Prolog for the cross-check variable
    prolog: Option<Vec<T>>,
    note: Option<String>,
}

thread_local! {
    /// reference streams are pure functions of (database model, query text): the cache outlives the
    /// per-case environments (which the driver throws away after every failing case)
    static CACHE: RefCell<HashMap<(Db, String), Reference>> = RefCell::new(HashMap::new());
}

pub struct Env {
    base_state: String,
    /// long-lived machine that only ever runs pure, completely consumed `X = t` / `member/2`
    /// queries (their answers are additionally checked against the term model)
    pure_ref: RefCell<Option<Machine>>,
}

pub fn mk_env() -> Env {
    let m = new_machine();
    Env { base_state: control_state(&m), pure_ref: RefCell::new(Some(m)) }
}

fn reference(env: &Env, db: &Db, q: &Q) -> Reference {
    let text = q.text().unwrap();
    let key_db = if q.reads_db() { db.clone() } else { Db::default() };
    if let Some(r) = CACHE.with(|c| c.borrow().get(&(key_db.clone(), text.clone())).cloned()) {
        return r;
    }
    if matches!(q, Q::Unify(_) | Q::Member(_)) {
        let mut slot = env.pure_ref.borrow_mut();
        let mut m = slot.take().unwrap_or_else(new_machine);
        let run = run_query(&mut m, &text, CAP + 1);
        let capped = run.items.len() > CAP;
        let mut items = run.items;
        items.truncate(CAP);
        if run.alive && control_state(&m) == env.base_state {
            *slot = Some(m);
        } else if !run.alive {
            std::mem::forget(m);
        }
        return Reference { items, capped, prolog: None, note: None };
    }
    let mut m = new_machine();
    let mut note = None;
    if let Err(e) = key_db.replay(&mut m) {
        note = Some(format!("db replay: {e}"));
    }
    let run = run_query(&mut m, &text, CAP + 1);
    let capped = run.items.len() > CAP || (run.items.len() == CAP + 1);
    let mut items = run.items;
    let capped = capped || (items.len() == CAP + 1);
    items.truncate(CAP);
    let alive = run.alive;
    if alive {
        drop(m);
    } else {
        std::mem::forget(m);
    }
    // in-Prolog cross-check on another fresh machine
    let mut prolog = None;
    if let Q::Pool(i) = q {
        if let Some(var) = pool_entry(*i).2 {
            let finite = !capped && !items.iter().any(|it| it.is_exception() || matches!(it, Item::Panic(_)));
            if finite {
                let mut s = Session::new(&[]);
                s.machine.consult_module_string("user", C28_PL);
                if key_db.replay(&mut s.machine).is_ok() {
                    let goal = text.trim_end_matches('.');
                    if let crate::session::Outcome::Sols(v) = s.ask(goal, var) {
                        prolog = Some(v);
                    }
                }
            }
        }
    }
    let r = Reference { items, capped, prolog, note };
    CACHE.with(|c| c.borrow_mut().insert((key_db, text), r.clone()));
    r
}

// ---------------------------------------------------------------------------------------------
// independent conversion of the public Term into the harness model

fn raw_to_t(t: &Term, names: &mut Vec<String>) -> T {
    match t {
        Term::Integer(i) => T::Int(i.clone()),
        Term::Rational(r) => T::Rat(r.numerator().clone(), dashu::integer::IBig::from(r.denominator().clone())),
        Term::Float(f) => T::Float(*f),
        Term::Atom(a) => T::Atom(a.clone()),
        Term::String(s) => T::Str(s.clone()),
        Term::List(v) => T::PList(v.iter().map(|x| raw_to_t(x, names)).collect(), Box::new(crate::term::nil())),
        Term::Compound(n, args) => T::Cmp(n.clone(), args.iter().map(|x| raw_to_t(x, names)).collect()),
        Term::Var(n) => {
            let i = match names.iter().position(|x| x == n) {
                Some(i) => i,
                None => {
                    names.push(n.clone());
                    names.len() - 1
                }
            };
            T::Var(i as u32)
        }
        _ => T::Atom("<unknown term kind>".into()),
    }
}

fn binding<'a>(it: &'a Item, var: &str) -> Option<&'a Term> {
    match it {
        Item::Ans(Ok(LeafAnswer::LeafAnswer { bindings, .. })) => bindings.get(var),
        _ => None,
    }
}

fn same_term(got: &Term, want: &T) -> bool {
    let mut names = vec![];
    let g = raw_to_t(got, &mut names).norm();
    let w = want.norm();
    g.variant(&w) || float_variant(&g, &w)
}

/// `variant` with NaN == NaN and -0.0 distinguished (bit comparison)
fn float_variant(a: &T, b: &T) -> bool {
    fn bits(t: &T) -> T {
        match t {
            T::Float(f) => T::Atom(format!("$float{:016x}", f.to_bits())),
            T::PList(i, t) => T::PList(i.iter().map(bits).collect(), Box::new(bits(t))),
            T::Cmp(n, a) => T::Cmp(n.clone(), a.iter().map(bits).collect()),
            o => o.clone(),
        }
    }
    bits(a).variant(&bits(b))
}

// ---------------------------------------------------------------------------------------------
// the check

fn sig(sym: &str, label: &str, ctx: &str) -> String {
    if ctx == "after-bad-consult" || ctx == "after-exception" {
        // the machine is damaged by a known finding; the symptoms vary with the heap contents and
        // are keyed by their kind only
        format!("{}:{ctx}", sym.split(':').next().unwrap_or(sym))
    } else {
        format!("{sym}:{label}:{ctx}")
    }
}

/// the known trigger of the Term::from_heapcell panics: a partial string (one-character atoms)
/// whose tail is an atom other than []
fn has_atom_tailed_string(t: &T) -> bool {
    match t {
        T::PList(items, tail) => {
            let last_is_char = matches!(items.last(), Some(T::Atom(a)) if a.chars().count() == 1);
            let atom_tail = matches!(&**tail, T::Atom(a) if a != "[]");
            (last_is_char && atom_tail) || items.iter().any(has_atom_tailed_string) || has_atom_tailed_string(tail)
        }
        T::Cmp(n, args) => {
            (n == "." && args.len() == 2 && matches!(&args[0], T::Atom(a) if a.chars().count() == 1) && matches!(&args[1], T::Atom(a) if a != "[]")) || args.iter().any(has_atom_tailed_string)
        }
        _ => false,
    }
}

/// what the exception item of a pool query must be: (is error(Formal,_), Formal or ball)
fn expected_exception(label: &str) -> Option<(bool, T)> {
    use crate::term::{atom, cmp, int, list};
    let v = |n| T::Var(n);
    Some(match label {
        "error-inst" | "error-after-3" | "rethrow" => (true, atom("instantiation_error")),
        "error-type" | "rethrow-eval" => (true, cmp("type_error", vec![atom("evaluable"), cmp("/", vec![atom("foo"), int(0)])])),
        "error-exist" | "rethrow-exist" => (true, cmp("existence_error", vec![atom("procedure"), cmp("/", vec![atom("c28_undefined"), int(1)])])),
        "rethrow-nested" => (false, cmp("b", vec![int(1), cmp("f", vec![v(0)])])),
        "ball" => (false, cmp("my_ball", vec![int(1)])),
        "ball-compound" => (false, cmp("f", vec![v(0), T::Str("str".into()), list(vec![int(1), int(2)])])),
        "throw-after-3" => (false, cmp("after", vec![int(3)])),
        "rethrow-ball" => (false, cmp("b", vec![int(1), list(vec![atom("x"), atom("y")])])),
        _ => return None,
    })
}

fn exception_matches(it: &Item, want: &(bool, T)) -> bool {
    match (it, want.0) {
        (Item::Ans(Err(Term::Compound(n, args))), true) if n == "error" && args.len() == 2 => same_term(&args[0], &want.1),
        (Item::Ans(Ok(LeafAnswer::Exception(t))), false) => same_term(t, &want.1),
        _ => false,
    }
}

fn ctx_label(bad_consult: bool, early_drop: bool, after_exc: bool, first: bool) -> &'static str {
    if bad_consult {
        "after-bad-consult"
    } else if early_drop {
        "after-early-drop"
    } else if after_exc {
        "after-exception"
    } else if first {
        "first-query"
    } else {
        "after-complete-queries"
    }
}

pub fn check(env: &mut Env, h: &History) -> Verdict {
    check_impl(env, h, false)
}

fn check_impl(env: &mut Env, h: &History, in_child: bool) -> Verdict {
    let mut m = new_machine();
    let mut db = Db::default();
    let mut classes: Vec<String> = vec![];
    let mut nontrivial = false;
    let (mut bad_consult, mut early_drop, mut after_exc) = (false, false, false);
    let mut alive = true;
    let mut verdict: Option<Verdict> = None;
    let mut queries_run = 0;
    let mut last_exc: Option<Item> = None;
    for (si, step) in h.steps.iter().enumerate() {
        let label = step.q.label();
        let ctx = ctx_label(bad_consult, early_drop, after_exc, queries_run == 0);
        // a load with an error leaves the machine in a state where later calls can panic, crash or
        // hang: such histories only run inside a child process under a watchdog
        let excluded = (h.clean || !in_child) && matches!(&step.q, Q::ConsultBad(_));
        if excluded {
            continue;
        }
        if let Q::Pool(i) = &step.q {
            if h.clean && pool_entry(*i).3 {
                continue;
            }
            if pool_entry(*i).4 && !in_child {
                continue;
            }
        }
        match &step.q {
            Q::ConsultGood(n) => {
                if let Err(p) = consult(&mut m, &format!("c28_g({n}).\n")) {
                    verdict = Some(Verdict::fail(sig(&format!("panic:{}", panic_loc(&p)), "consult", ctx), format!("step {si}: consult_module_string of a correct fact panicked: {p}")));
                    alive = false;
                    break;
                }
                db.apply(&step.q);
                classes.push("step:consult-good".into());
                continue;
            }
            Q::ConsultBad(n) => {
                let text = pick(BAD_TEXTS, *n as u16 * 40000);
                if let Err(p) = consult(&mut m, text) {
                    verdict = Some(Verdict::fail(format!("panic:{}:consult-bad:{ctx}", panic_loc(&p)), format!("step {si}: consult_module_string of a text with a load-time error panicked: {p}")));
                    alive = false;
                    break;
                }
                bad_consult = true;
                classes.push("step:consult-bad".into());
                continue;
            }
            _ => {}
        }
        let text = step.q.text().unwrap();
        let r = reference(env, &db, &step.q);
        if let Some(n) = &r.note {
            return Verdict::Discard(format!("reference:{}", n.chars().take(40).collect::<String>()));
        }
        if let Some(Item::Panic(p)) = r.items.last() {
            // the query panics even on a fresh machine
            let trigger = match &step.q {
                Q::Unify(t) => has_atom_tailed_string(t),
                Q::Member(items) => items.iter().any(has_atom_tailed_string),
                Q::Pool(i) => matches!(pool_entry(*i).0, "atom-tail" | "dot"),
                _ => false,
            };
            let sg = if trigger && panic_loc(p).contains("lib_machine/mod.rs") { "panic-from-heapcell:atom-tailed-partial-string:fresh-machine".to_string() } else { format!("panic:{}:fresh-machine", panic_loc(p)) };
            verdict = Some(Verdict::fail(sg, format!("on a fresh machine, {text} panics: {p}")));
            break;
        }
        let full = r.items.len();
        // how many next() calls: up to one beyond the end (two when the history is clean)
        let mut want = step.consume as usize;
        if h.clean {
            want = full + 1 + (step.consume as usize % 2);
        }
        let want = if r.capped { want.min(CAP) } else { want.min(full + 2) };
        let run = run_query(&mut m, &text, want);
        queries_run += 1;
        let expect_items = want.min(full);
        let detail_head = format!("step {si} ({label}, {ctx}): {text} consumed {want} of {}{}", full, if r.capped { "+" } else { "" });
        // (1) differential
        for i in 0..run.items.len().max(expect_items) {
            let got = run.items.get(i);
            let exp = if i < expect_items { r.items.get(i) } else { None };
            if got != exp {
                let got_exc = got.map(|g| g.is_exception()).unwrap_or(false);
                let exp_exc = exp.map(|g| g.is_exception()).unwrap_or(false);
                if after_exc && !bad_consult && got_exc && !exp_exc {
                    verdict = Some(Verdict::fail(
                        "stale-exception:after-exception",
                        format!("{detail_head}: item {i} is {} — an earlier query ended with {} — but a fresh machine gives {}", got.map(|x| x.short()).unwrap_or_default(), last_exc.as_ref().map(|x| x.short()).unwrap_or_default(), exp.map(|x| x.short()).unwrap_or("<end of stream>".into())),
                    ));
                    break;
                }
                let sym = match got {
                    Some(Item::Panic(p)) => format!("panic:{}", panic_loc(p)),
                    Some(_) if exp.is_none() => "extra-item".to_string(),
                    None => "missing-item".to_string(),
                    _ => "item-differs".to_string(),
                };
                verdict = Some(Verdict::fail(
                    sig(&sym, &label, ctx),
                    format!("{detail_head}: item {i} is {} but a fresh machine gives {}", got.map(|x| x.short()).unwrap_or("<none>".into()), exp.map(|x| x.short()).unwrap_or("<end of stream>".into())),
                ));
                break;
            }
        }
        if verdict.is_some() {
            alive = run.alive;
            break;
        }
        // (4) shape
        if run.item_after_end {
            verdict = Some(Verdict::fail(sig("item-after-end", &label, ctx), format!("{detail_head}: next() returned an item after it had returned None")));
            break;
        }
        for (i, it) in r.items.iter().enumerate() {
            if (it.is_exception() || it.is_false()) && i + 1 != r.items.len() {
                verdict = Some(Verdict::fail(format!("shape:{label}:fresh-machine"), format!("on a fresh machine, {text}: item {i} is {} but the stream continues with {}", it.short(), r.items[i + 1].short())));
                break;
            }
        }
        if verdict.is_some() {
            break;
        }
        // (2) model
        match &step.q {
            Q::Unify(t) => {
                let t = &no_neg_zero(t);
                if let Some(it) = run.items.first() {
                    let ok = match (binding(it, "X"), t) {
                        (Some(b), _) => same_term(b, t),
                        // X = V<n>: an alias, reported as a variable binding one way or the other
                        (None, _) => matches!(it, Item::Ans(Ok(LeafAnswer::LeafAnswer { .. }))) || matches!(it, Item::Ans(Ok(LeafAnswer::True))),
                    };
                    let is_alias = matches!(t, T::Var(_));
                    if !ok && !is_alias {
                        verdict = Some(Verdict::fail(format!("model-differs:unify:{ctx}"), format!("{detail_head}: answer {} does not bind X to {}", it.short(), t.text())));
                        break;
                    }
                }
            }
            Q::Member(items) => {
                for (i, want_t) in items.iter().enumerate() {
                    let want_t = &no_neg_zero(want_t);
                    if let Some(it) = run.items.get(i) {
                        let ok = binding(it, "X").map(|b| same_term(b, want_t)).unwrap_or(false);
                        if !ok {
                            verdict = Some(Verdict::fail(format!("model-differs:member:{ctx}"), format!("{detail_head}: answer {i} is {} but the {i}-th member is {}", it.short(), want_t.text())));
                            break;
                        }
                    }
                }
                if verdict.is_some() {
                    break;
                }
            }
            Q::Pool(i) => {
                // documented exception term
                if let Some(want_exc) = expected_exception(&label) {
                    match r.items.last() {
                        Some(it) if exception_matches(it, &want_exc) => {}
                        other => {
                            verdict = Some(Verdict::fail(
                                format!("wrong-exception:{}:fresh-machine", if label.starts_with("rethrow") { "rethrow" } else { label.as_str() }),
                                format!("on a fresh machine, {text}: the stream ends with {} but the query raises {}{}", other.map(|x| x.short()).unwrap_or("<nothing>".into()), if want_exc.0 { "error with Formal " } else { "the ball " }, want_exc.1.text()),
                            ));
                            break;
                        }
                    }
                }
                // (3) in-Prolog findall
                if let (Some(sols), Some(var)) = (&r.prolog, pool_entry(*i).2) {
                    let answers: Vec<&Item> = r.items.iter().filter(|it| !it.is_false()).collect();
                    let mut bad = answers.len() != sols.len();
                    if !bad {
                        for (a, s) in answers.iter().zip(sols.iter()) {
                            match binding(a, var) {
                                Some(b) => {
                                    if !same_term(b, s) {
                                        bad = true;
                                    }
                                }
                                None => bad = true,
                            }
                        }
                    }
                    if bad {
                        verdict = Some(Verdict::fail(
                            format!("prolog-differs:{label}:fresh-machine"),
                            format!("on a fresh machine, {text}: run_query gives {:?} but findall/3 inside Prolog gives {:?}", r.items.iter().map(|x| x.short()).collect::<Vec<_>>(), sols.iter().map(|t| t.text()).collect::<Vec<_>>()),
                        ));
                        break;
                    }
                }
            }
            _ => {}
        }
        // (5) state
        let st = control_state(&m);
        if st != env.base_state {
            let dropped_early = want >= 1 && (want < full || r.capped);
            let sg = if dropped_early { "state-not-restored:early-drop".to_string() } else { sig("state-not-restored", &label, ctx) };
            verdict = Some(Verdict::fail(sg, format!("{detail_head}: after the QueryState was dropped the machine state is {st}, before the first query it was {}", env.base_state)));
            break;
        }
        // bookkeeping
        let more_remaining = want < full || r.capped;
        let ended_with_exc = run.items.last().map(|x| x.is_exception()).unwrap_or(false);
        if want >= 1 {
            db.apply(&step.q);
        }
        classes.push(format!("step:{label}"));
        classes.push(format!("consumed:{}", if want == 0 { "nothing" } else if more_remaining { "prefix" } else if want > full { "beyond-end" } else { "all" }));
        if more_remaining && want >= 1 && full > want {
            nontrivial = true;
            early_drop = true;
        }
        if after_exc {
            nontrivial = true;
        }
        // the reported ball is never cleared (known finding), so in histories that do not cleanse
        // it every later step runs "after an exception"
        after_exc = ended_with_exc || (after_exc && !h.clean);
        if ended_with_exc {
            classes.push("ends-with-exception".into());
            last_exc = run.items.last().cloned();
            if !h.clean && !in_child {
                // The reported ball is never cleared (known finding stale-exception:after-exception) and
                // is re-appended to the heap without relocation by the next query: converting it can
                // read arbitrary memory (a segmentation fault was observed when the ball contains a
                // string) or loop. What follows an exception is therefore only run in child processes
                // (the fixed "risky" histories); this history ends here.
                classes.push("stopped-after-exception".into());
                break;
            }
            if h.clean {
                // known finding stale-exception:after-exception: the reported ball is never cleared.
                // A caught throw/1 empties it; clean histories do that and go on, so that the rest of
                // the "after an exception" behaviour is still compared with a fresh machine.
                let c = run_query(&mut m, "catch(throw(c28_cleanse), _, true).", 2);
                if !c.alive {
                    alive = false;
                    verdict = Some(Verdict::fail(sig("panic-in-cleansing-query", &label, ctx), format!("{detail_head}: the housekeeping query after the exception panicked: {:?}", c.items.last().map(|x| x.short()))));
                    break;
                }
                classes.push("housekeeping:stale-ball-cleansed".into());
            }
        }
    }
    if alive {
        drop(m);
    } else {
        std::mem::forget(m);
    }
    classes.sort();
    classes.dedup();
    match verdict {
        Some(v) => v,
        None => Verdict::Pass { nontrivial, classes },
    }
}

// ---------------------------------------------------------------------------------------------
// histories that contain a query which may hang: run in a child process under a watchdog

fn verdict_to_json(v: &Verdict) -> Value {
    match v {
        Verdict::Pass { nontrivial, classes } => json!({"kind": "pass", "nontrivial": nontrivial, "classes": classes}),
        Verdict::Discard(w) => json!({"kind": "discard", "why": w}),
        Verdict::Fail { signature, detail } => json!({"kind": "fail", "signature": signature, "detail": detail}),
    }
}

fn verdict_from_json(v: &Value) -> Option<Verdict> {
    Some(match v["kind"].as_str()? {
        "pass" => Verdict::Pass { nontrivial: v["nontrivial"].as_bool().unwrap_or(false), classes: v["classes"].as_array().map(|a| a.iter().filter_map(|x| x.as_str().map(String::from)).collect()).unwrap_or_default() },
        "discard" => Verdict::Discard(v["why"].as_str().unwrap_or("").to_string()),
        "fail" => Verdict::fail(v["signature"].as_str().unwrap_or("?"), v["detail"].as_str().unwrap_or("")),
        _ => return None,
    })
}

fn risky_labels(h: &History) -> String {
    let mut v: Vec<String> = h
        .steps
        .iter()
        .filter_map(|s| match &s.q {
            Q::Pool(i) if pool_entry(*i).4 || expected_exception(pool_entry(*i).0).is_some() => Some(pool_entry(*i).0.to_string()),
            Q::ConsultBad(_) => Some("consult-bad".to_string()),
            _ => None,
        })
        .collect();
    v.dedup();
    // the hang-prone / state-damaging steps name the finding; plain exception steps only when
    // there is nothing else
    let mut strong: Vec<String> = v.iter().filter(|l| l.starts_with("rethrow") || *l == "consult-bad").map(|l| if l.starts_with("rethrow") { "rethrow".to_string() } else { l.clone() }).collect();
    strong.dedup();
    if strong.is_empty() {
        if v.is_empty() {
            String::new()
        } else {
            "after-exception".to_string()
        }
    } else {
        strong.join("+")
    }
}

/// median in-process history takes well under 0.3 s; 30 s is > 100x that, and a first timeout is
/// re-run alone with a 10x budget before it is reported (DESIGN 5.3)
const WATCHDOG_S: u64 = 30;

pub fn check_in_child(_env: &mut (), h: &History) -> Verdict {
    let input = serde_json::to_value(h).unwrap();
    let mut budget = WATCHDOG_S;
    loop {
        let co = run_child("C28", "history", &input, budget, &[]);
        if let Some(l) = co.stdout.lines().find_map(|l| l.strip_prefix("VERDICT ")) {
            if let Some(v) = serde_json::from_str::<Value>(l).ok().and_then(|j| verdict_from_json(&j)) {
                return v;
            }
        }
        if co.timed_out {
            let sig = format!("hang:{}", risky_labels(h));
            // (the replay entry point does not install the worker's known-findings list: read the files)
            let known = is_known_open(&sig) || load_known("C28").iter().any(|k| k.status == "open" && k.signature == sig);
            if budget == WATCHDOG_S && !known {
                budget *= 10;
                continue;
            }
            return Verdict::fail(sig, format!("the history did not finish within {budget} s of CPU-bound execution (a run_query/next call never returned); steps: {:?}", h.steps.iter().map(|s| s.q.label()).collect::<Vec<_>>()));
        }
        if co.crashed() {
            return Verdict::fail(format!("crash:{}:{}", if co.stack_overflow() { "stack-overflow".to_string() } else { format!("signal{}", co.signal.unwrap_or(0)) }, risky_labels(h)), format!("the child process died: {}", co.stderr.lines().rev().take(3).collect::<Vec<_>>().join(" | ")));
        }
        return Verdict::Discard(format!("child gave no verdict (exit {:?})", co.code));
    }
}

fn pool_index(label: &str) -> u16 {
    let i = POOL.iter().position(|e| e.0 == label).expect("pool label");
    ((i * 65536 + 65535) / POOL.len()) as u16
}

fn risky_histories() -> Vec<History> {
    let step = |label: &str, consume: u8| Step { q: Q::Pool(pool_index(label)), consume };
    let prefixes: Vec<Vec<Step>> = vec![vec![step("nondet3", 4)]];
    let mut out = vec![];
    for e in POOL.iter().filter(|e| e.4) {
        for p in &prefixes {
            let mut steps = p.clone();
            steps.push(step(e.0, 3));
            steps.push(step("det-fact", 2));
            steps.push(step("nondet3", 5));
            out.push(History { clean: false, steps });
        }
    }
    // an exception, then ordinary steps (the stale ball is reported again / converted from garbage)
    for exc in ["error-inst", "ball-compound", "throw-after-3"] {
        let followers: Vec<Vec<Step>> = vec![
            vec![Step { q: Q::Unify(crate::term::atom("a")), consume: 2 }],
            vec![step("nondet3", 5), step("det-true", 2)],
            vec![Step { q: Q::Member(vec![crate::term::atom("a"), T::Str("a string é λ".into()), crate::term::int(3)]), consume: 4 }],
        ];
        for f in followers {
            let mut steps = vec![step("det-fact", 2), step(exc, 6)];
            steps.extend(f);
            out.push(History { clean: false, steps });
        }
    }
    // a consult with a load-time error, followed by ordinary steps
    for bad in 0..BAD_TEXTS.len() as u8 {
        let followers: Vec<Vec<Step>> = vec![
            vec![step("det-true", 2)],
            vec![Step { q: Q::Unify(crate::term::atom("a")), consume: 2 }, step("nondet3", 5)],
            vec![Step { q: Q::Assert(0), consume: 2 }, step("read-h", 3)],
            vec![Step { q: Q::ConsultGood(1), consume: 0 }, step("read-g", 3)],
        ];
        for f in followers {
            let mut steps = vec![step("det-fact", 2), Step { q: Q::ConsultBad(bad), consume: 0 }];
            steps.extend(f);
            out.push(History { clean: false, steps });
        }
    }
    out
}

impl Prop for C28 {
    fn id(&self) -> &'static str {
        "C28"
    }
    fn rule(&self) -> &'static str {
        "histories of 3..15 steps on one Machine; step = query from {X = random term, member(X, random ground items), 45 fixed queries (deterministic, nondeterministic with/without trailing choice point, failing, error(..), non-error ball, exception after 3 solutions, frozen/dif variables, large answers, database readers, catch inside, rethrow through catch, strings/partial lists, cut, if-then-else, negation, repeat), assertz/retractall, consult_module_string of a fact / of a text with a load error} x number of next() calls 0..6 (0 = dropped unstarted, > length = called after the end); half of the histories avoid the known findings by construction; each step compared with the full stream of the same query on a fresh machine that replayed only the modelled database effects, with a term model, with findall/3 inside Prolog, and the control state after each drop; non-trivial = some query was dropped while answers remained, or ran right after one that ended in an exception; distinct by history"
    }
    fn assumptions(&self) -> Vec<String> {
        vec![
            "a fresh Machine (MachineBuilder + support/c28 program) answers a single query as specified; it is the reference for the differential comparison and is itself cross-checked against a term model and in-Prolog findall/3".into(),
            "database effects of the generated steps are modelled (assertz/retractall/consult of facts take effect iff the query was started)".into(),
        ]
    }
    fn run_shard(&self, cfg: &ShardCfg) -> ShardResult {
        let mut d = Driver::new(cfg, "C28");
        let n = cfg.share(cfg.tier.pick(1_000, 60_000));
        let t0 = std::time::Instant::now();
        d.run("history", 0, n / 2, 100_000, history_strategy(false), &mk_env, &check);
        let t1 = std::time::Instant::now();
        d.run("history", 1, n - n / 2, 100_000, history_strategy(true), &mk_env, &check);
        let t2 = std::time::Instant::now();
        // queries that can hang (exception rethrown through a non-matching catch/3): fixed histories,
        // each in a child process under a watchdog
        let risky: Vec<History> = risky_histories().into_iter().enumerate().filter(|(i, _)| *i as u32 % cfg.nshards == cfg.shard).map(|(_, h)| h).collect();
        d.run_list("risky", risky, 1, &|| (), &check_in_child);
        d.res.extra.insert("worker_seconds_unrestricted_histories".into(), json!((t1 - t0).as_secs()));
        d.res.extra.insert("worker_seconds_clean_histories".into(), json!((t2 - t1).as_secs()));
        d.res.extra.insert("worker_seconds_child_isolated_histories".into(), json!(t2.elapsed().as_secs()));
        d.finish()
    }
    fn replay(&self, kind: &str, case: &Value) -> Verdict {
        if kind == "risky" {
            replay_case::<History, ()>(case, &|| (), &check_in_child)
        } else {
            replay_case::<History, Env>(case, &mk_env, &check)
        }
    }
    fn child(&self, mode: &str, input: &Value) -> i32 {
        if mode == "history" {
            let Ok(h) = serde_json::from_value::<History>(input.clone()) else {
                println!("VERDICT {}", verdict_to_json(&Verdict::Discard("bad input".into())));
                return 0;
            };
            let mut env = mk_env();
            let v = catch_check(&|e: &mut Env, h: &History| check_impl(e, h, true), &mut env, &h);
            println!("VERDICT {}", verdict_to_json(&v));
            return 0;
        }
        if mode == "pool" {
            // print the reference stream of every pool entry
            let env = mk_env();
            for i in 0..POOL.len() {
                let q = Q::Pool(((i * 65536 + 65535) / POOL.len()) as u16);
                if POOL[i].4 {
                    continue;
                }
                let r = reference(&env, &Db::default(), &q);
                println!("{:16} {:40} capped={} prolog={:?}", q.label(), q.text().unwrap(), r.capped, r.prolog.as_ref().map(|v| v.iter().map(|t| t.text()).collect::<Vec<_>>()));
                for it in &r.items {
                    println!("      {}", it.short());
                }
            }
            let _ = json!(input);
            return 0;
        }
        2
    }
}
