//! C11 — Backtracking restores exactly the pre-goal state.
use crate::engine::*;
use crate::gen::pick;
use crate::session::{Outcome, Session};
use crate::term::T;
use proptest::prelude::*;
use serde::{Deserialize, Serialize};
use serde_json::Value;

const NVARS: usize = 6;

/// Small ground-or-open terms; `V(i)` refers to query variable Xi, `N(k)` to a variable that is
/// new at that point (created inside the goal).
#[derive(Clone, Debug, Serialize, Deserialize)]
pub enum Tm {
    A(u8),
    I(i32),
    Big,
    S(u8),
    V(u8),
    N(u8),
    F(Box<Tm>),
    G2(Box<Tm>, Box<Tm>),
    L(Vec<Tm>),
}

const ATOMS: &[&str] = &["a", "b", "c", "foo"];
const STRS: &[&str] = &["\"ab\"", "\"hello world\"", "\"\""];

impl Tm {
    fn text(&self) -> String {
        match self {
            Tm::A(i) => ATOMS[*i as usize % ATOMS.len()].to_string(),
            Tm::I(i) => format!("{i}"),
            Tm::Big => "340282366920938463463374607431768211456".into(),
            Tm::S(i) => STRS[*i as usize % STRS.len()].to_string(),
            Tm::V(i) => format!("X{}", *i as usize % NVARS),
            Tm::N(k) => format!("N{}", k % 4),
            Tm::F(a) => format!("f({})", a.text()),
            Tm::G2(a, b) => format!("g({},{})", a.text(), b.text()),
            Tm::L(v) => format!("[{}]", v.iter().map(|t| t.text()).collect::<Vec<_>>().join(",")),
        }
    }
    fn vars(&self, out: &mut Vec<usize>) {
        match self {
            Tm::V(i) => out.push(*i as usize % NVARS),
            Tm::F(a) => a.vars(out),
            Tm::G2(a, b) => {
                a.vars(out);
                b.vars(out)
            }
            Tm::L(v) => v.iter().for_each(|t| t.vars(out)),
            _ => {}
        }
    }
    fn atom_index(&self) -> Option<usize> {
        match self {
            Tm::A(i) => Some(*i as usize % ATOMS.len()),
            _ => None,
        }
    }
}

#[derive(Clone, Debug, Serialize, Deserialize)]
pub enum Act {
    /// Xi = term (skipped by the model when Xi is bound or the binding would violate a dif)
    Bind(u8, Tm),
    /// dif(Xi, atom)
    Dif(u8, u8),
    /// freeze(Xi, bb_put(c11k, tokN))
    Freeze(u8, u8),
    /// bb_put(c11k, tokN)  -- persists over backtracking
    Put(u8),
    /// bb_b_put(c11b, tokN) -- reverts on backtracking
    BPut(u8),
    /// a nested probe around a failing sub-goal
    Probe(u8, Vec<Act>),
}

#[derive(Clone, Debug, Serialize, Deserialize)]
pub struct Case {
    pub pre: Vec<Act>,
    pub goal: Vec<Act>,
    pub probe: u8,
}

fn tm_strategy() -> BoxedStrategy<Tm> {
    let leaf = prop_oneof![
        3 => (0u8..4).prop_map(Tm::A),
        2 => (-3i32..100).prop_map(Tm::I),
        1 => Just(Tm::Big),
        1 => (0u8..3).prop_map(Tm::S),
        3 => (0u8..NVARS as u8).prop_map(Tm::V),
        2 => (0u8..4).prop_map(Tm::N),
    ];
    leaf.prop_recursive(3, 8, 3, |inner| {
        prop_oneof![
            inner.clone().prop_map(|a| Tm::F(Box::new(a))),
            (inner.clone(), inner.clone()).prop_map(|(a, b)| Tm::G2(Box::new(a), Box::new(b))),
            proptest::collection::vec(inner, 0..=3).prop_map(Tm::L),
        ]
    })
    .boxed()
}

fn act_strategy(depth: u32) -> BoxedStrategy<Act> {
    let simple = prop_oneof![
        6 => (0u8..NVARS as u8, tm_strategy()).prop_map(|(i, t)| Act::Bind(i, t)),
        2 => (0u8..NVARS as u8, 0u8..4).prop_map(|(i, a)| Act::Dif(i, a)),
        2 => (0u8..NVARS as u8, 0u8..20).prop_map(|(i, t)| Act::Freeze(i, t)),
        2 => (0u8..20).prop_map(Act::Put),
        2 => (0u8..20).prop_map(Act::BPut),
    ];
    if depth == 0 {
        simple.boxed()
    } else {
        prop_oneof![
            8 => simple,
            2 => (0u8..6, proptest::collection::vec(act_strategy(depth - 1), 1..=4)).prop_map(|(p, g)| Act::Probe(p, g)),
        ]
        .boxed()
    }
}

pub fn case_strategy() -> BoxedStrategy<Case> {
    (proptest::collection::vec(act_strategy(0), 0..=6), proptest::collection::vec(act_strategy(2), 1..=8), 0u8..6).prop_map(|(pre, goal, probe)| Case { pre, goal, probe }).boxed()
}

// ---------------------------------------------------------------------------------------------
// Model: only what is needed to know which actions are safe (cannot fail) and which tokens are put

#[derive(Clone)]
struct St {
    /// Some(term) when Xi is bound (only its atom value matters for dif checks)
    bound: Vec<Option<Tm>>,
    /// atoms Xi must differ from
    difs: Vec<Vec<usize>>,
    /// tokens to put when Xi gets bound, in posting order
    frozen: Vec<Vec<u8>>,
    k: Option<u8>,
    b: Option<u8>,
    /// statistics
    bound_old: bool,
    bound_new: bool,
    attr_changed: bool,
}

fn probe_text(p: u8, g: &str) -> String {
    match p % 6 {
        0 => format!("\\+ ({g}, fail)"),
        1 => format!("(({g}, fail) -> fail ; true)"),
        2 => format!("findall(_, ({g}, fail), _)"),
        3 => format!("catch(({g}, throw(c11x)), c11x, true)"),
        4 => format!("(({g}, fail) ; true)"),
        // forall(G, fail) runs G, then the failing action, undoes both and fails: negate it
        _ => format!("\\+ forall(({g}), fail)"),
    }
}

/// Renders the actions that the model accepts (others are dropped) and updates the model.
/// `in_goal`: bindings made here are undone later (used for statistics only).
fn render(acts: &[Act], st: &mut St, in_goal: bool, out: &mut Vec<String>) {
    for a in acts {
        match a {
            Act::Bind(i, t) => {
                let i = *i as usize % NVARS;
                if st.bound[i].is_some() {
                    continue;
                }
                // no occurs-check trouble, no constraint wake-up that could fail: the term must not
                // mention Xi, and must not be an atom Xi is dif from; aliasing of two open variables is
                // allowed only when neither carries constraints
                let mut vs = vec![];
                t.vars(&mut vs);
                // occurs check through existing bindings (no cyclic terms are ever built)
                let mut seen = vec![false; NVARS];
                let mut stack = vs.clone();
                let mut cyclic = false;
                while let Some(v) = stack.pop() {
                    if v == i {
                        cyclic = true;
                        break;
                    }
                    if seen[v] {
                        continue;
                    }
                    seen[v] = true;
                    if let Some(b) = &st.bound[v] {
                        b.vars(&mut stack);
                    }
                }
                if cyclic {
                    continue;
                }
                if let Some(ai) = t.atom_index() {
                    if st.difs[i].contains(&ai) {
                        continue;
                    }
                }
                // Xi = <variable> (a query variable in any state, or a new variable) is aliasing: it does
                // not wake anything, and is only generated between unconstrained variables
                if let Tm::N(_) = t {
                    if !st.difs[i].is_empty() || !st.frozen[i].is_empty() {
                        continue;
                    }
                    st.bound[i] = Some(t.clone());
                    out.push(format!("X{i} = {}", t.text()));
                    continue;
                }
                if let Tm::V(j) = t {
                    let j = *j as usize % NVARS;
                    if !st.difs[i].is_empty() || !st.difs[j].is_empty() || !st.frozen[i].is_empty() || !st.frozen[j].is_empty() {
                        continue;
                    }
                    st.bound[i] = Some(t.clone());
                    out.push(format!("X{i} = X{j}"));
                    continue;
                }
                out.push(format!("X{i} = {}", t.text()));
                st.bound[i] = Some(t.clone());
                if in_goal {
                    st.bound_old = true;
                    if matches!(t, Tm::N(_) | Tm::F(_) | Tm::G2(..) | Tm::L(_)) {
                        st.bound_new = true;
                    }
                }
                // frozen goals fire in posting order
                for tok in std::mem::take(&mut st.frozen[i]) {
                    st.k = Some(tok);
                }
            }
            Act::Dif(i, a) => {
                let i = *i as usize % NVARS;
                let ai = *a as usize % ATOMS.len();
                if st.bound[i].is_some() {
                    continue;
                }
                // posting dif/2 on a variable that already carries a frozen goal runs that goal
                // although the variable stays unbound (dif tries the unification; a C26 matter, reported
                // there): excluded here by construction because it changes which token is put last
                if !st.frozen[i].is_empty() {
                    continue;
                }
                out.push(format!("dif(X{i}, {})", ATOMS[ai]));
                st.difs[i].push(ai);
                if in_goal {
                    st.attr_changed = true;
                }
            }
            Act::Freeze(i, tok) => {
                let i = *i as usize % NVARS;
                if st.bound[i].is_some() {
                    continue;
                }
                out.push(format!("freeze(X{i}, bb_put(c11k, tok{tok}))"));
                st.frozen[i].push(*tok);
                if in_goal {
                    st.attr_changed = true;
                }
            }
            Act::Put(tok) => {
                out.push(format!("bb_put(c11k, tok{tok})"));
                st.k = Some(*tok);
            }
            Act::BPut(tok) => {
                out.push(format!("bb_b_put(c11b, tok{tok})"));
                st.b = Some(*tok);
                if in_goal {
                    st.attr_changed = true;
                }
            }
            Act::Probe(p, g) => {
                let mut inner = st.clone();
                let mut gs = vec![];
                render(g, &mut inner, true, &mut gs);
                if gs.is_empty() {
                    continue;
                }
                out.push(probe_text(*p, &gs.join(", ")));
                // everything is undone except the persistent global
                st.k = inner.k;
                st.bound_old |= inner.bound_old;
                st.bound_new |= inner.bound_new;
                st.attr_changed |= inner.attr_changed;
            }
        }
    }
}

pub struct Env {
    pub s: Session,
}

pub fn mk_env() -> Env {
    let mut s = Session::new(&["dif", "freeze", "iso_ext", "lists"]);
    if !s.consult("c11_touch(_).\n:- dynamic(c11t/1).\n", "c11") {
        panic!("c11 support clauses failed to load");
    }
    Env { s }
}

pub fn check(env: &mut Env, case: &Case) -> Verdict {
    let mut st = St { bound: vec![None; NVARS], difs: vec![vec![]; NVARS], frozen: vec![vec![]; NVARS], k: Some(255), b: Some(255), bound_old: false, bound_new: false, attr_changed: false };
    let mut pre = vec!["bb_put(c11k, tok255)".to_string(), "bb_b_put(c11b, tok255)".to_string()];
    render(&case.pre, &mut st, false, &mut pre);
    let b_before = st.b;
    let mut inner = st.clone();
    let mut gs = vec![];
    render(&case.goal, &mut inner, true, &mut gs);
    if gs.is_empty() {
        return Verdict::Discard("empty-goal".into());
    }
    let k_expected = inner.k.unwrap();
    let vars: Vec<String> = (0..NVARS).map(|i| format!("X{i}")).collect();
    let vl = format!("[{}]", vars.join(","));
    // S0, S1 are touched only by a call (in a compiled clause they stay unbound cells of the environment
    // frame, i.e. *stack* variables, until the goal under the probe binds them); they must be unbound
    // again afterwards
    let goal = format!(
        "c11_touch(S0), c11_touch(S1), Vs = {vl}, {}, copy_term(Vs, C0, G0), {}, copy_term(Vs, C1, G1), bb_get(c11k, K1), bb_get(c11b, B1), ((var(S0), var(S1)) -> SV = unbound ; SV = bound(S0, S1))",
        pre.join(", "),
        probe_text(case.probe, &format!("{}, S0 = a, S1 = f(S0, N0)", gs.join(", ")))
    );
    // path 1: the goal as a query (variables live on the heap); path 2: the same goal as the body of
    // an assertz-compiled clause (variables are permanent variables in an environment frame, the
    // probes are compiled control constructs)
    let o1 = env.s.ask(&goal, "r(C0,G0,C1,G1,K1,B1,SV)");
    let o2 = env.s.ask(&format!("retractall(c11t(_)), assertz((c11t(r(C0,G0,C1,G1,K1,B1,SV)) :- {goal})), c11t(R0)"), "R0");
    let mut classes = vec![];
    if inner.bound_old {
        classes.push("bound-old-var");
    }
    if inner.bound_new {
        classes.push("bound-with-new-structure");
    }
    if inner.attr_changed {
        classes.push("attr-or-backtrackable-global-changed");
    }
    if case.goal.iter().any(|a| matches!(a, Act::Probe(..))) {
        classes.push("nested-probe");
    }
    classes.push(["naf", "ite-cond", "findall", "catch-throw", "disjunction", "forall"][case.probe as usize % 6]);
    let nontrivial = (inner.bound_old && inner.bound_new) || inner.attr_changed;
    for (path, o) in [("query", &o1), ("compiled-clause", &o2)] {
      let goal = format!("[{path}] {goal}");
      let verdict = match o {
        Outcome::Sols(v) if v.len() == 1 => {
            let T::Cmp(_, args) = &v[0] else { return Verdict::Discard("shape".into()) };
            if args.len() != 7 {
                return Verdict::Discard("shape".into());
            }
            if !args[6].eq_struct(&T::Atom("unbound".into())) {
                return Verdict::fail(format!("stack-variable-not-reset:{}", classes.last().unwrap()), format!("{goal} :: S0/S1 after the probe: {}", args[6].text()));
            }
            let before = T::Cmp("s".into(), vec![args[0].clone(), args[1].clone()]);
            let after = T::Cmp("s".into(), vec![args[2].clone(), args[3].clone()]);
            if !before.variant(&after) {
                return Verdict::fail(format!("state-not-restored:{}", classes.last().unwrap()), format!("{goal} :: before {} after {}", before.text(), after.text()));
            }
            let want_k = T::Atom(format!("tok{k_expected}"));
            if !args[4].eq_struct(&want_k) {
                return Verdict::fail("bb_put-not-persistent", format!("{goal} :: c11k = {} expected {}", args[4].text(), want_k.text()));
            }
            let want_b = T::Atom(format!("tok{}", b_before.unwrap()));
            if !args[5].eq_struct(&want_b) {
                return Verdict::fail("bb_b_put-not-reverted", format!("{goal} :: c11b = {} expected {}", args[5].text(), want_b.text()));
            }
            Verdict::pass(nontrivial, &classes)
        }
        Outcome::Panic(p) => Verdict::fail(format!("panic:{}", p.split_whitespace().next().unwrap_or("?")), format!("{goal} panicked: {p}")),
        Outcome::Harness(h) => Verdict::Discard(format!("harness:{}", h.chars().take(40).collect::<String>())),
        other => Verdict::fail(format!("probe-did-not-succeed:{}", classes.last().unwrap()), format!("{goal} gave {}", other.short())),
      };
      if !matches!(verdict, Verdict::Pass { .. }) {
          return verdict;
      }
    }
    Verdict::pass(nontrivial, &classes)
}

pub struct C11;

impl Prop for C11 {
    fn id(&self) -> &'static str {
        "C11"
    }
    fn rule(&self) -> &'static str {
        "a prelude binds some of six query variables (atoms, integers, bignum, strings, structures and lists over other and new variables, aliases), posts dif/2 and freeze/2 constraints and sets bb_put / bb_b_put globals; then a goal that binds old and new variables, posts further constraints, wakes frozen goals (which bb_put a token), changes both globals, contains nested probes (depth <= 2) and finally fails is run inside one of six probes (\\+, if-then-else condition, findall/3, catch/3 + throw, exhausted disjunction, forall/2); copy_term/3 snapshots of all variables with residual goals before and after must be variants, the bb_put key must hold the last token put (the model replays which actions run and which frozen goals fire), the bb_b_put key its pre-goal value; non-trivial = the goal bound an old variable and built new structure, or changed attributes / the backtrackable global; distinct by case encoding"
    }
    fn assumptions(&self) -> Vec<String> {
        vec!["actions that could legitimately fail before the final fail (binding a bound variable, violating a dif, occurs) are dropped by the model so that the point of failure is known".into(), "copy_term/3 is used to observe residual goals".into()]
    }
    fn run_shard(&self, cfg: &ShardCfg) -> ShardResult {
        let mut d = Driver::new(cfg, "C11");
        let n = cfg.share(cfg.tier.pick(20_000, 1_000_000));
        d.run("state", 0, n, 2000, case_strategy(), &mk_env, &check);
        d.finish()
    }
    fn replay(&self, _kind: &str, case: &Value) -> Verdict {
        replay_case::<Case, Env>(case, &mk_env, &check)
    }
}

#[allow(dead_code)]
fn _unused() {
    let _ = pick(&[0u8], 0);
}
