//! C10 — Unification computes most general unifiers.
use crate::engine::*;
use crate::gen::*;
use crate::session::{Outcome, Session};
use crate::shared::rtree::{G, N};
use crate::shared::tb::{self, canon_zero, subst1};
use crate::term::{self, T};
use dashu::integer::IBig;
use proptest::prelude::*;
use serde::{Deserialize, Serialize};
use serde_json::Value;
use std::collections::HashMap;

const C10_PL: &str = include_str!("../../prolog/c10.pl");

#[derive(Clone, Debug, Serialize, Deserialize)]
pub struct Case {
    pub a: T,
    pub b: T,
    /// number of extra variables outside the two terms (must stay unbound and distinct)
    pub outs: u8,
    /// 0 inline =/2, 1 head unification p(X,X), 2 unify_with_occurs_check/2, 3 call((=),A,B)
    pub entry: u8,
    /// occurs_check flag: 0 false, 1 true, 2 error
    pub flag: u8,
    /// terms written into the query text (reader) instead of being built by tb_builds/2
    pub text: bool,
    /// constructor seed of the builder (0 = plain)
    pub seed: u64,
    /// build b before a (variable ages swapped)
    pub swap: bool,
}

const OUT_BASE: u32 = 90;

pub fn has_rat(t: &T) -> bool {
    match t {
        T::Rat(..) => true,
        T::PList(items, tail) => items.iter().any(has_rat) || has_rat(tail),
        T::Cmp(_, args) => args.iter().any(has_rat),
        _ => false,
    }
}

pub fn has_string(t: &T) -> bool {
    match t {
        T::Str(s) => !s.is_empty(),
        T::PList(items, tail) => items.iter().any(|i| matches!(i, T::Atom(a) if a.chars().count() == 1)) || items.iter().any(has_string) || has_string(tail),
        T::Cmp(_, args) => args.iter().any(has_string),
        _ => false,
    }
}

fn count_var_occ(t: &T, out: &mut HashMap<u32, u32>) {
    match t {
        T::Var(v) => *out.entry(*v).or_default() += 1,
        T::PList(items, tail) => {
            for i in items {
                count_var_occ(i, out)
            }
            count_var_occ(tail, out)
        }
        T::Cmp(_, args) => {
            for a in args {
                count_var_occ(a, out)
            }
        }
        _ => {}
    }
}

/// depth of the first direct functor/constant clash when walking both terms in parallel
/// without bindings (None: no direct clash)
fn clash_depth(a: &T, b: &T, d: u32) -> Option<u32> {
    let (a, b) = (a.norm(), b.norm());
    match (&a, &b) {
        (T::Var(_), _) | (_, T::Var(_)) => None,
        (T::PList(ai, at), T::PList(bi, bt)) => {
            let r = clash_depth(&ai[0], &bi[0], d + 1);
            if r.is_some() {
                return r;
            }
            let ra = if ai.len() == 1 { (**at).clone() } else { T::PList(ai[1..].to_vec(), at.clone()) };
            let rb = if bi.len() == 1 { (**bt).clone() } else { T::PList(bi[1..].to_vec(), bt.clone()) };
            clash_depth(&ra, &rb, d + 1)
        }
        (T::Cmp(n, aa), T::Cmp(m, bb)) => {
            if n != m || aa.len() != bb.len() {
                return Some(d);
            }
            aa.iter().zip(bb).find_map(|(x, y)| clash_depth(x, y, d + 1))
        }
        _ => {
            if canon_zero(&a).eq_struct(&canon_zero(&b)) {
                None
            } else {
                Some(d)
            }
        }
    }
}

// ---------------------------------------------------------------------------------------------
// generators

pub fn small_cfg(tricky: bool) -> TermCfg {
    TermCfg { depth: 2, size: 6, nvars: 6, tricky_atoms: tricky, floats: true, bigints: true, strings: true, rationals: true, partial_lists: true }
}

pub fn skel_cfg(tricky: bool) -> TermCfg {
    TermCfg { depth: 4, size: 18, nvars: 6, tricky_atoms: tricky, floats: true, bigints: true, strings: true, rationals: true, partial_lists: true }
}

fn subst_strategy(tricky: bool) -> BoxedStrategy<HashMap<u32, T>> {
    proptest::collection::vec((0u32..6, term_strategy(small_cfg(tricky))), 0..=4).prop_map(|v| v.into_iter().collect::<HashMap<u32, T>>()).boxed()
}

/// a common skeleton instantiated two ways
pub fn skeleton_pair() -> BoxedStrategy<(T, T)> {
    any::<bool>()
        .prop_flat_map(|tricky| (term_strategy(skel_cfg(tricky)), subst_strategy(tricky), subst_strategy(tricky)))
        .prop_map(|(sk, s1, s2)| (subst1(&sk, &s1), subst1(&sk, &s2)))
        .boxed()
}

/// equation systems f(V0..Vn) = f(t0..tn): occurs-check and chain cases
pub fn equation_pair() -> BoxedStrategy<(T, T)> {
    let cfg = TermCfg { depth: 2, size: 5, nvars: 4, tricky_atoms: false, floats: false, bigints: false, strings: false, rationals: false, partial_lists: true };
    (proptest::collection::vec((0u32..4, term_strategy(cfg.clone())), 1..=4), any::<bool>(), any::<bool>())
        .prop_map(|(eqs, as_list, mix)| {
            let mut l: Vec<T> = vec![];
            let mut r: Vec<T> = vec![];
            for (i, (v, t)) in eqs.into_iter().enumerate() {
                // alternate sides so that both terms contain structure
                if mix && i % 2 == 1 {
                    l.push(t);
                    r.push(T::Var(v));
                } else {
                    l.push(T::Var(v));
                    r.push(t);
                }
            }
            if as_list {
                (term::list(l), term::list(r))
            } else {
                (term::cmp("f", l), term::cmp("f", r))
            }
        })
        .boxed()
}

pub fn node_count(t: &T) -> usize {
    match t {
        T::PList(items, tail) => 1 + items.iter().map(node_count).sum::<usize>() + node_count(tail),
        T::Cmp(_, args) => 1 + args.iter().map(node_count).sum::<usize>(),
        _ => 1,
    }
}

/// replace the k-th node (pre-order) by `r`
pub fn replace_nth(t: &T, k: &mut usize, r: &T) -> T {
    if *k == 0 {
        *k = usize::MAX;
        return r.clone();
    }
    if *k != usize::MAX {
        *k -= 1;
    }
    match t {
        T::PList(items, tail) => {
            let its: Vec<T> = items.iter().map(|i| replace_nth(i, k, r)).collect();
            let tl = replace_nth(tail, k, r);
            T::PList(its, Box::new(tl))
        }
        T::Cmp(n, args) => T::Cmp(n.clone(), args.iter().map(|a| replace_nth(a, k, r)).collect()),
        other => other.clone(),
    }
}

/// a term and a copy with one or two subterms replaced (by a variable or another small term)
pub fn mutation_pair() -> BoxedStrategy<(T, T)> {
    any::<bool>()
        .prop_flat_map(|tricky| (term_strategy(skel_cfg(tricky)), proptest::collection::vec((any::<u16>(), term_strategy(small_cfg(tricky))), 1..=2)))
        .prop_map(|(a, muts)| {
            let mut b = a.clone();
            for (raw, r) in muts {
                let n = node_count(&b);
                let mut k = (raw as usize * n) >> 16;
                b = replace_nth(&b, &mut k, &r);
            }
            (a, b)
        })
        .boxed()
}

fn chars_of(s: &str) -> Vec<T> {
    s.chars().map(|c| T::Atom(c.to_string())).collect()
}

pub fn string_variant(s: &str, kind: u8, pos: u16, var: u32) -> T {
    let cs = chars_of(s);
    let n = cs.len();
    if n == 0 {
        return match kind % 3 {
            0 => term::nil(),
            1 => T::Var(var),
            _ => T::Str(String::new()),
        };
    }
    let k = (pos as usize * n) >> 16; // 0..n-1
    match kind % 9 {
        0 => T::Str(s.to_string()),
        1 => T::PList(cs[..=k].to_vec(), Box::new(T::Var(var))),
        2 => {
            let mut c = cs.clone();
            c[k] = T::Var(var);
            T::PList(c, Box::new(term::nil()))
        }
        3 => {
            let mut c = cs.clone();
            c[k] = T::Atom(if c[k] == T::Atom("a".into()) { "b".into() } else { "a".into() });
            T::PList(c, Box::new(term::nil()))
        }
        4 => T::Str(format!("{s}z")),
        5 => T::PList(cs[..=k].to_vec(), Box::new(T::Str(s.chars().skip(k + 1).collect()))),
        6 => T::Cmp(".".into(), vec![cs[0].clone(), T::Str(s.chars().skip(1).collect())]),
        7 => {
            if k == 0 {
                T::Var(var)
            } else {
                T::PList(cs[..k].to_vec(), Box::new(T::Var(var)))
            }
        }
        _ => {
            // same prefix then a non-character item
            let mut c = cs[..k].to_vec();
            c.push(T::Int(IBig::from(k)));
            // (never empty: the integer item is always there)
            T::PList(c, Box::new(T::Var(var)))
        }
    }
}

pub fn string_text() -> BoxedStrategy<String> {
    let tricky = proptest::collection::vec(prop_oneof![4 => Just('a'), 2 => Just('b'), 1 => Just('\0'), 1 => Just('é'), 1 => Just('日'), 1 => Just('😀'), 1 => Just('\n')], 0..=20).prop_map(|v| v.into_iter().collect::<String>());
    prop_oneof![2 => tricky, 1 => string_content_strategy()].boxed()
}

/// strings against lists / partial strings / '.'/2 structures denoting (almost) the same list
pub fn string_pair() -> BoxedStrategy<(T, T)> {
    (string_text(), any::<u8>(), any::<u16>(), any::<u8>(), any::<u16>(), any::<bool>(), 0u32..3, 0u32..3)
        .prop_map(|(s, k1, p1, k2, p2, wrap, v1, v2)| {
            let a = string_variant(&s, k1, p1, v1);
            let b = string_variant(&s, k2, p2, v2);
            if wrap {
                (term::cmp("g", vec![a, T::Var(v1), T::Var(2)]), term::cmp("g", vec![b, T::Var(2), T::Var(v2)]))
            } else {
                (a, b)
            }
        })
        .boxed()
}

pub fn independent_pair() -> BoxedStrategy<(T, T)> {
    let cfg = TermCfg { depth: 3, size: 10, nvars: 3, tricky_atoms: false, floats: true, bigints: true, strings: true, rationals: true, partial_lists: true };
    (term_strategy(cfg.clone()), term_strategy(cfg.clone()), term_strategy(cfg.clone()), term_strategy(cfg))
        .prop_map(|(a1, a2, b1, b2)| (term::cmp("f", vec![a1, a2]), term::cmp("f", vec![b1, b2])))
        .boxed()
}

/// numbers of every kind with equal or neighbouring values
pub fn number_pair() -> BoxedStrategy<(T, T)> {
    let num = |v: IBig, kind: u8| -> T {
        match kind % 4 {
            0 => T::Int(v),
            1 => match crate::num::ibig_to_f64(&v) {
                Some(f) if f.is_finite() => T::Float(f),
                _ => T::Int(v),
            },
            2 => T::Rat(v, IBig::from(3)).norm(),
            _ => T::Int(v + IBig::ONE),
        }
    };
    (int_strategy(), any::<u8>(), any::<u8>(), 0u32..2)
        .prop_map(move |(v, k1, k2, var)| {
            let fix = |t: T| match t {
                T::Rat(n, d) if d == IBig::ONE => T::Int(n),
                o => o,
            };
            let a = fix(num(v.clone(), k1));
            let b = fix(num(v, k2));
            (term::cmp("n", vec![a, T::Var(var), T::Var(0)]), term::cmp("n", vec![b.clone(), T::Var(1), b]))
        })
        .boxed()
}

pub fn pair_strategy() -> BoxedStrategy<(T, T)> {
    prop_oneof![
        5 => skeleton_pair(),
        3 => equation_pair(),
        3 => mutation_pair(),
        3 => string_pair(),
        1 => independent_pair(),
        1 => number_pair(),
    ]
    .boxed()
}

pub fn case_strategy() -> BoxedStrategy<Case> {
    (pair_strategy(), 0u8..=2, prop_oneof![4 => Just(0u8), 2 => Just(1u8), 2 => Just(2u8), 1 => Just(3u8)], prop_oneof![3 => Just(0u8), 2 => Just(1u8), 2 => Just(2u8)], any::<bool>(), prop_oneof![1 => Just(0u64), 4 => any::<u64>()], any::<bool>())
        .prop_map(|((a, b), outs, entry, flag, text, seed, swap)| {
            let text = text && !has_rat(&a) && !has_rat(&b);
            Case { a, b, outs, entry, flag, text, seed: if text { 0 } else { seed }, swap }
        })
        .boxed()
}

// ---------------------------------------------------------------------------------------------
// oracle

/// What the reference says about the pair.
pub struct Expect {
    /// unifiable as rational trees
    pub rational: bool,
    /// a finite unifier exists
    pub finite: bool,
    /// graph after unification (valid when `rational`)
    pub after: G,
    pub before: G,
    pub root: usize,
    pub a: usize,
    pub b: usize,
    pub bound_vars: usize,
}

pub fn expect(c: &Case) -> Expect {
    let mut g = G::new();
    let mut vars: HashMap<u32, usize> = HashMap::new();
    let a = g.add_term(&c.a.norm(), &mut vars);
    let b = g.add_term(&c.b.norm(), &mut vars);
    let pair_vars: Vec<usize> = vars.values().cloned().collect();
    let mut kids = vec![a, b];
    // outs as a list
    let mut tl = g.push(N::Atomic(term::nil()));
    let mut outs = vec![];
    for _ in 0..c.outs {
        outs.push(g.var());
    }
    for o in outs.iter().rev() {
        tl = g.push(N::Fn(".".into(), vec![*o, tl]));
    }
    kids.push(tl);
    let root = g.push(N::Fn("t".into(), kids));
    let before = g.clone();
    let rational = g.unify(a, b);
    let finite = rational && g.acyclic(a);
    // self-check against the finite-term unifier of term.rs
    let mut s = term::Subst::new();
    let fin2 = matches!(term::unify(&c.a, &c.b, &mut s, true), Ok(true));
    assert_eq!(finite, fin2, "oracle self-check: graph unifier and finite unifier disagree on {} = {}", c.a.text(), c.b.text());
    let bound_vars = if rational { pair_vars.iter().filter(|v| g.find(**v) != **v).count() } else { 0 };
    Expect { rational, finite, after: g, before, root, a, b, bound_vars }
}

pub struct Env {
    pub s: Session,
}

pub fn mk_env() -> Env {
    Env { s: tb::session_with(&[], &[C10_PL]) }
}

const UNFOLD_BUDGET: usize = 400;

fn flag_name(f: u8) -> &'static str {
    match f {
        0 => "false",
        1 => "true",
        _ => "error",
    }
}

pub fn query(c: &Case) -> (String, Vec<&'static str>) {
    let outs: Vec<T> = (0..c.outs as u32).map(|i| T::Var(OUT_BASE + i)).collect();
    let tail = format!("{}, {}, {}, {}, Res", c.swap as u8, c.entry, flag_name(c.flag), UNFOLD_BUDGET);
    if c.text {
        let (x, y) = if c.swap { (&c.b, &c.a) } else { (&c.a, &c.b) };
        let text = format!("{} .", term::cmp("t", vec![x.clone(), y.clone(), term::list(outs)]).text());
        let codes: Vec<String> = text.chars().map(|ch| (ch as u32).to_string()).collect();
        (format!("c10_text([{}], {tail})", codes.join(",")), vec![])
    } else {
        let mut bl = tb::Builder::new(c.seed);
        let mut ts: Vec<&T> = if c.swap { vec![&c.b, &c.a] } else { vec![&c.a, &c.b] };
        for o in &outs {
            ts.push(o);
        }
        let specs = bl.specs(&ts);
        (format!("c10_spec({specs}, {tail})"), bl.ctors.into_iter().collect())
    }
}

fn entry_name(e: u8) -> &'static str {
    match e {
        0 => "inline",
        1 => "head",
        2 => "uwoc",
        _ => "call",
    }
}

pub fn check(env: &mut Env, c: &Case) -> Verdict {
    if c.entry > 3 || c.flag > 2 || c.outs > 4 {
        return Verdict::Discard("bad-case".into());
    }
    let ex = expect(c);
    let (q, ctors) = query(c);
    if std::env::var("VERIF_DEBUG_QUERY").is_ok() {
        eprintln!("QUERY: {q}");
    }
    if let Ok(f) = std::env::var("VERIF_TRACE_FILE") {
        use std::io::Write;
        if let Ok(mut fh) = std::fs::OpenOptions::new().create(true).append(true).open(f) {
            let _ = writeln!(fh, "{}\t{q}", env.s.queries);
        }
    }
    let o = env.s.ask_once(&q, "Res");
    let mode = format!("{}/{}", entry_name(c.entry), flag_name(c.flag));
    let desc = format!("[{mode}{}] {} = {}", if c.text { " text" } else { "" }, c.a.text(), c.b.text());
    let res = match &o {
        Outcome::Sols(v) if v.len() == 1 => v[0].clone(),
        Outcome::Panic(m) => return Verdict::fail(format!("panic:{}", m.split_whitespace().next().unwrap_or("?")), format!("{desc}: {m}")),
        Outcome::Harness(m) => return Verdict::Discard(format!("harness:{}", m.chars().take(40).collect::<String>())),
        other => return Verdict::fail(format!("wrapper:{mode}"), format!("{desc}: construction or wrapper did not succeed once: {}", other.short())),
    };
    let sto = c.entry == 2 || c.flag == 1; // plain failure on an occurs-check hit
    let err_mode = c.entry != 2 && c.flag == 2;
    // expected kind of outcome
    #[derive(PartialEq, Debug)]
    enum K {
        YesFinite,
        YesCyclic,
        No,
        Error,
        NoOrError,
    }
    let want = if ex.finite {
        K::YesFinite
    } else if ex.rational {
        if sto {
            K::No
        } else if err_mode {
            K::Error
        } else {
            K::YesCyclic
        }
    } else if err_mode {
        // which of clash and occurs-check hit comes first depends on the traversal order
        K::NoOrError
    } else {
        K::No
    };
    let args = match &res {
        T::Cmp(n, a) if n == "r" && a.len() == 3 => a.clone(),
        _ => return Verdict::Discard("harness:bad-res".into()),
    };
    let r_kind = |r: &T| -> &'static str {
        match r {
            T::Atom(a) if a == "yes" => "yes",
            T::Atom(a) if a == "no" => "no",
            T::Cmp(n, b) if n == "ex" && b.len() == 1 => match &b[0] {
                T::Cmp(e, ea) if e == "error" && ea.len() == 2 => "error",
                _ => "throw",
            },
            _ => "?",
        }
    };
    let sig = |class: &str| format!("{class}:{mode}");
    let rk = r_kind(&args[0]);
    let eq = matches!(&args[1], T::Atom(a) if a == "true");
    let got = args[2].clone();
    let same = |g: &G| -> (bool, T) {
        let mut k = UNFOLD_BUDGET;
        let model = tb::rat_as_cmp(&g.unfold_budget(ex.root, &mut k));
        (canon_zero(&got).variant(&canon_zero(&model)), model)
    };
    match rk {
        "yes" => {
            if want != K::YesFinite && want != K::YesCyclic {
                return Verdict::fail(sig("wrong-success"), format!("{desc}: succeeded (result {}) but expected {want:?}", got.text()));
            }
            if !eq {
                return Verdict::fail(sig("not-identical"), format!("{desc}: succeeded but A \\== B afterwards: {}", got.text()));
            }
            let (ok, model) = same(&ex.after);
            if !ok {
                return Verdict::fail(sig("wrong-mgu"), format!("{desc}: result {} is not a variant of the reference {} (pre-order unfolding, budget {UNFOLD_BUDGET})", got.text(), model.text()));
            }
        }
        "no" | "error" | "throw" => {
            let ok = match rk {
                "no" => want == K::No || want == K::NoOrError,
                "error" => want == K::Error || want == K::NoOrError,
                _ => false,
            };
            if !ok {
                let class = if rk == "no" { "wrong-failure" } else { "wrong-error" };
                return Verdict::fail(sig(class), format!("{desc}: outcome {} but expected {want:?}", args[0].text()));
            }
            // no binding survives
            let (ok, model) = same(&ex.before);
            if !ok {
                return Verdict::fail(sig("binding-survives"), format!("{desc}: after {} the terms are {} instead of the originals {}", args[0].text(), got.text(), model.text()));
            }
        }
        _ => return Verdict::Discard("harness:bad-r".into()),
    }

    // classes and the non-trivial rule
    let mut occ = HashMap::new();
    count_var_occ(&c.a, &mut occ);
    count_var_occ(&c.b, &mut occ);
    let sharing = occ.values().any(|n| *n >= 2);
    let occurs_case = ex.rational && !ex.finite;
    let deep_fail = !ex.rational && clash_depth(&c.a, &c.b, 0).map(|d| d >= 2).unwrap_or(true);
    let nontrivial = (ex.finite && ex.bound_vars >= 2 && sharing) || deep_fail || occurs_case;
    let mut classes: Vec<String> = vec![];
    classes.push(format!("mode:{mode}"));
    classes.push(
        match want {
            K::YesFinite => "expect:unifiable-finite",
            K::YesCyclic => "expect:unifiable-cyclic",
            K::No => {
                if ex.rational {
                    "expect:fail-occurs-check"
                } else {
                    "expect:fail-clash"
                }
            }
            K::Error => "expect:error",
            K::NoOrError => "expect:fail-or-error",
        }
        .to_string(),
    );
    if rk == "error" {
        classes.push("got:error".into());
    }
    if c.text {
        classes.push("build:text".into());
    } else if c.seed == 0 {
        classes.push("build:plain".into());
    }
    for k in ctors {
        classes.push(format!("ctor:{k}"));
    }
    if has_string(&c.a) || has_string(&c.b) {
        classes.push("has-string".into());
    }
    if ex.bound_vars >= 2 {
        classes.push("binds>=2".into());
    }
    if deep_fail {
        classes.push("deep-mismatch".into());
    }
    if c.swap {
        classes.push("swapped-age".into());
    }
    let cl: Vec<&str> = classes.iter().map(|s| s.as_str()).collect();
    Verdict::pass(nontrivial, &cl)
}

pub struct C10;

impl Prop for C10 {
    fn id(&self) -> &'static str {
        "C10"
    }
    fn rule(&self) -> &'static str {
        "pairs of terms (<=~30 nodes each; atoms incl. tricky texts, small/big integers, rationals, floats, strings, partial strings, lists, partial lists, '.'/2, structures; shared variables) from six generators (common skeleton instantiated two ways, equation systems f(Vs)=f(Ts), one term with 1-2 replaced subterms, string vs list/partial-string variants, independent terms, numbers of equal value in different kinds), realised through the reader or through tb_builds/2 with seed-chosen constructors (cons cells, atom_chars strings, partial_string/3 segments, =.., functor/3+arg/3, copy_term/findall/assert copies, read_from_chars, bignum-computed integers), unified through inline =/2, head unification, unify_with_occurs_check/2 or call((=),..) under occurs_check false/true/error with 0-2 outside variables; compared with a rational-tree reference unifier: success iff unifiable (finitely unifiable with occurs check; error or failure as specified under flag error), A==B afterwards, t(A,B,Outs) a variant of the reference result (pre-order unfolding with a 400-node budget, complete for finite results, a prefix when cyclic), originals unchanged after failure/error; non-trivial = finite unifier binding >=2 variables with a variable occurring twice, or failure whose first direct clash is at depth >=2 or needs bindings, or an occurs-check case; distinct by case encoding"
    }
    fn assumptions(&self) -> Vec<String> {
        vec![
            "the reader parses canonical functional notation; atom_codes/2, char_code/2, =../2 (for building) and the harness's own vp_enc/rt_unfold (var/functor/arg based) work on finite terms".into(),
            "0.0 and -0.0 are treated as the same float (unification, == and compare/3 agree on that in this system)".into(),
        ]
    }
    fn run_shard(&self, cfg: &ShardCfg) -> ShardResult {
        let mut d = Driver::new(cfg, "C10");
        let n = cfg.share(cfg.tier.pick(60_000, 3_000_000));
        d.run("pair", 0, n, 1500, case_strategy(), &mk_env, &check);
        d.finish()
    }
    fn replay(&self, _kind: &str, case: &Value) -> Verdict {
        replay_case::<Case, Env>(case, &mk_env, &check)
    }
    /// debugging aid: `vcheck child C10 queries <json {"file": trace}>` replays a traced query
    /// sequence (VERIF_TRACE_FILE) on one fresh session and reports the first panic
    fn child(&self, mode: &str, input: &Value) -> i32 {
        if mode != "queries" {
            return 2;
        }
        let file = input["file"].as_str().unwrap_or("");
        let body = std::fs::read_to_string(file).unwrap_or_default();
        let mut env = mk_env();
        for (i, line) in body.lines().enumerate() {
            let q = line.split_once('\t').map(|x| x.1).unwrap_or(line);
            let o = env.s.ask_once(q, "Res");
            let f = env.s.machine.verif_footprint();
            println!("line {i}: heap={} stack_top={} trail_len={} tr={} b={} block={}", f.heap_cells, f.stack_top, f.trail_len, f.tr, f.b, f.block);
            if let Outcome::Panic(m) = &o {
                println!("PANIC at line {i}: {m}");
                return 1;
            }
        }
        println!("no panic");
        0
    }
}
