//! C26 — dif/2, freeze/2 and when/2 are insensitive to posting order.
//!
//! A case is a multiset of actions over <= 5 variables: dif(T1,T2), freeze(V,G), when(Cond,G)
//! (Cond over nonvar/1, ground/1, ','/2, ';'/2) and unifications V = T. G logs a token and
//! optionally binds another variable or fails. The multiset is executed as a conjunction in
//! three permutations, with a marker logged between actions. Oracle = declarative model run on
//! the same sequence: after every action the least fixpoint of "a goal whose trigger holds
//! fires exactly once" is computed over a finite-term unifier; the conjunction succeeds iff the
//! equations are consistent, no fired goal fails and no dif/2 pair is identical. Compared per
//! permutation: success/failure, final bindings (variant), the tokens fired in every segment
//! between two markers (so a goal fires as soon as its trigger holds, exactly once), the
//! residual dif/2 constraints semantically (all groundings of the free variables over {a,b,c}),
//! and the pending freeze/when goals (token multisets). Since the model is order-independent,
//! this also shows that all permutations agree with each other.
use crate::engine::*;
use crate::session::{Outcome, Session};
use crate::shared::pool::Pooled;
use crate::term::{self, resolve, unify, walk, Subst, T};
use proptest::prelude::*;
use serde::{Deserialize, Serialize};
use serde_json::Value;
use std::collections::HashMap;

const HELPERS: &str = include_str!("../../prolog/c26.pl");
const ATOMS: &[&str] = &["a", "b", "c"];

#[derive(Clone, Debug, Serialize, Deserialize, PartialEq)]
pub enum Tm {
    V(u8),
    A(u8),
    F(Box<Tm>),
    G(Box<Tm>, Box<Tm>),
}

#[derive(Clone, Debug, Serialize, Deserialize, PartialEq)]
pub enum Wc {
    Nonvar(Tm),
    Ground(Tm),
    And(Box<Wc>, Box<Wc>),
    Or(Box<Wc>, Box<Wc>),
}

#[derive(Clone, Debug, Serialize, Deserialize, PartialEq)]
pub enum Gk {
    Tok,
    Bind(u8, Tm),
    Fail,
}

#[derive(Clone, Debug, Serialize, Deserialize, PartialEq)]
pub enum Act {
    Dif(Tm, Tm),
    Freeze(u8, Gk),
    When(Wc, Gk),
    Unify(u8, Tm),
}

#[derive(Clone, Debug, Serialize, Deserialize)]
pub struct Case {
    pub nvars: u8,
    pub acts: Vec<Act>,
    /// sort keys of the two further permutations
    pub perms: Vec<Vec<u16>>,
    /// report goals that ran inside an undone trial unification even when a dif/2 is present
    /// (known finding fired-in-undone-unification:dif-present)
    #[serde(default)]
    pub raw: bool,
}

fn vi(i: u8, n: u8) -> u32 {
    (i % n.max(1)) as u32
}

impl Tm {
    fn to_t(&self, n: u8) -> T {
        match self {
            Tm::V(i) => T::Var(vi(*i, n)),
            // constants 3 and 4 are strings (lists of characters stored as packed strings): binding an
            // attributed variable to one goes through the partial-string instructions
            // (given in list form so that the model's structural comparisons see the same term; the reader
            // stores a list of characters as a packed string all the same)
            Tm::A(k) if *k % 5 == 3 => T::Str("hi".into()).norm(),
            Tm::A(k) if *k % 5 == 4 => T::Str("hello".into()).norm(),
            Tm::A(k) => term::atom(ATOMS[(*k % 5) as usize % ATOMS.len()]),
            Tm::F(a) => term::cmp("f", vec![a.to_t(n)]),
            Tm::G(a, b) => term::cmp("g", vec![a.to_t(n), b.to_t(n)]),
        }
    }
}

impl Wc {
    fn to_t(&self, n: u8) -> T {
        match self {
            Wc::Nonvar(t) => term::cmp("nonvar", vec![t.to_t(n)]),
            Wc::Ground(t) => term::cmp("ground", vec![t.to_t(n)]),
            Wc::And(a, b) => term::cmp(",", vec![a.to_t(n), b.to_t(n)]),
            Wc::Or(a, b) => term::cmp(";", vec![a.to_t(n), b.to_t(n)]),
        }
    }
    fn holds(&self, s: &Subst, n: u8) -> bool {
        match self {
            Wc::Nonvar(t) => !matches!(walk(&t.to_t(n), s), T::Var(_)),
            Wc::Ground(t) => resolve(&t.to_t(n), s).is_ground(),
            Wc::And(a, b) => a.holds(s, n) && b.holds(s, n),
            Wc::Or(a, b) => a.holds(s, n) || b.holds(s, n),
        }
    }
}

fn goal_t(k: usize, g: &Gk, n: u8) -> T {
    match g {
        Gk::Tok => term::cmp("c26_g", vec![term::int(k as i64), term::atom("tok"), term::atom("x"), term::atom("x")]),
        Gk::Bind(v, t) => term::cmp("c26_g", vec![term::int(k as i64), term::atom("bind"), T::Var(vi(*v, n)), t.to_t(n)]),
        Gk::Fail => term::cmp("c26_g", vec![term::int(k as i64), term::atom("fail"), term::atom("x"), term::atom("x")]),
    }
}

fn act_t(k: usize, a: &Act, n: u8) -> T {
    match a {
        Act::Dif(x, y) => term::cmp("dif", vec![x.to_t(n), y.to_t(n)]),
        Act::Freeze(v, g) => term::cmp("freeze", vec![T::Var(vi(*v, n)), goal_t(k, g, n)]),
        Act::When(c, g) => term::cmp("when", vec![c.to_t(n), goal_t(k, g, n)]),
        Act::Unify(v, t) => {
            let tt = t.to_t(n);
            // every other unification with a ground term is done by head unification against an
            // asserted fact (for a string that is the get_partial_string instruction), which must wake
            // constraints exactly like =/2
            if tt.is_ground() && k % 2 == 1 {
                term::cmp("c26_hu", vec![T::Var(vi(*v, n)), tt])
            } else {
                term::cmp("=", vec![T::Var(vi(*v, n)), tt])
            }
        }
    }
}

// ---------------------------------------------------------------------------------------------
// model

enum ModelErr {
    Fail,
    Cyclic,
}

#[derive(Clone)]
struct Model {
    s: Subst,
    fired: Vec<bool>,
    posted: Vec<bool>,
}

impl Model {
    /// run the fixpoint after new information; returns the tokens fired
    fn settle(&mut self, c: &Case, n: u8, eqs: &mut Vec<(T, T)>) -> Result<Vec<usize>, ModelErr> {
        let mut out = vec![];
        loop {
            while let Some((a, b)) = eqs.pop() {
                match unify(&a, &b, &mut self.s, false) {
                    Ok(true) => {}
                    Ok(false) => return Err(ModelErr::Fail),
                    Err(()) => return Err(ModelErr::Cyclic),
                }
            }
            let mut progress = false;
            for (k, a) in c.acts.iter().enumerate() {
                if !self.posted[k] || self.fired[k] {
                    continue;
                }
                let (trig, g) = match a {
                    Act::Freeze(v, g) => (!matches!(walk(&T::Var(vi(*v, n)), &self.s), T::Var(_)), g),
                    Act::When(w, g) => (w.holds(&self.s, n), g),
                    _ => continue,
                };
                if trig {
                    self.fired[k] = true;
                    out.push(k);
                    progress = true;
                    match g {
                        Gk::Tok => {}
                        Gk::Fail => return Err(ModelErr::Fail),
                        Gk::Bind(v, t) => eqs.push((T::Var(vi(*v, n)), t.to_t(n))),
                    }
                }
            }
            if !progress && eqs.is_empty() {
                break;
            }
        }
        // dif/2: no posted pair may be identical; a pair that only unifies cyclically is outside the domain
        for (k, a) in c.acts.iter().enumerate() {
            if let (true, Act::Dif(x, y)) = (self.posted[k], a) {
                let (rx, ry) = (resolve(&x.to_t(n), &self.s), resolve(&y.to_t(n), &self.s));
                if rx == ry {
                    return Err(ModelErr::Fail);
                }
                let mut s2 = self.s.clone();
                if unify(&rx, &ry, &mut s2, false).is_err() {
                    return Err(ModelErr::Cyclic);
                }
            }
        }
        out.sort();
        Ok(out)
    }
}

/// per-step fired tokens and the final substitution, or failure
fn run_model(c: &Case, n: u8, order: &[usize]) -> Result<(Vec<Vec<usize>>, Model), ModelErr> {
    let mut m = Model { s: Subst::new(), fired: vec![false; c.acts.len()], posted: vec![false; c.acts.len()] };
    let mut steps = vec![];
    for &k in order {
        m.posted[k] = true;
        let mut eqs = vec![];
        if let Act::Unify(v, t) = &c.acts[k] {
            eqs.push((T::Var(vi(*v, n)), t.to_t(n)));
        }
        steps.push(m.settle(c, n, &mut eqs)?);
    }
    Ok((steps, m))
}

// ---------------------------------------------------------------------------------------------
// generators

fn tm_strategy() -> BoxedStrategy<Tm> {
    let leaf = prop_oneof![5 => (0u8..5).prop_map(Tm::V), 4 => (0u8..5).prop_map(Tm::A)];
    leaf.prop_recursive(2, 5, 2, |inner| {
        prop_oneof![
            2 => inner.clone().prop_map(|t| Tm::F(Box::new(t))),
            1 => (inner.clone(), inner.clone()).prop_map(|(a, b)| Tm::G(Box::new(a), Box::new(b))),
        ]
    })
    .boxed()
}

fn ground_tm() -> BoxedStrategy<Tm> {
    prop_oneof![4 => (0u8..5).prop_map(Tm::A), 1 => (0u8..5).prop_map(|k| Tm::F(Box::new(Tm::A(k))))].boxed()
}

fn wc_strategy() -> BoxedStrategy<Wc> {
    let atom = prop_oneof![
        3 => (0u8..5).prop_map(|v| Wc::Nonvar(Tm::V(v))),
        2 => tm_strategy().prop_map(Wc::Ground),
        1 => tm_strategy().prop_map(Wc::Nonvar),
    ];
    atom.prop_recursive(2, 4, 2, |inner| {
        prop_oneof![
            (inner.clone(), inner.clone()).prop_map(|(a, b)| Wc::And(Box::new(a), Box::new(b))),
            (inner.clone(), inner.clone()).prop_map(|(a, b)| Wc::Or(Box::new(a), Box::new(b))),
        ]
    })
    .boxed()
}

fn gk_strategy() -> BoxedStrategy<Gk> {
    prop_oneof![
        5 => Just(Gk::Tok),
        3 => (0u8..5, prop_oneof![2 => ground_tm(), 1 => tm_strategy()]).prop_map(|(v, t)| Gk::Bind(v, t)),
        1 => Just(Gk::Fail),
    ]
    .boxed()
}

fn act_strategy() -> BoxedStrategy<Act> {
    prop_oneof![
        3 => (tm_strategy(), tm_strategy()).prop_map(|(a, b)| Act::Dif(a, b)),
        3 => (0u8..5, gk_strategy()).prop_map(|(v, g)| Act::Freeze(v, g)),
        3 => (wc_strategy(), gk_strategy()).prop_map(|(c, g)| Act::When(c, g)),
        3 => (0u8..5, prop_oneof![3 => ground_tm(), 2 => (0u8..5).prop_map(Tm::V), 2 => tm_strategy()]).prop_map(|(v, t)| Act::Unify(v, t)),
    ]
    .boxed()
}

pub fn case_strategy() -> BoxedStrategy<Case> {
    (2u8..=5, proptest::collection::vec(act_strategy(), 2..=7), proptest::collection::vec(proptest::collection::vec(any::<u16>(), 7), 2), 0u8..16)
        .prop_map(|(nvars, acts, perms, r)| Case { nvars, acts, perms, raw: r == 15 })
        .boxed()
}

// ---------------------------------------------------------------------------------------------
// check

pub struct Env {
    pub p: Pooled,
}

fn setup(s: &mut Session) {
    assert!(s.consult(HELPERS, "c26_helpers"), "c26.pl must load");
}

pub fn mk_env() -> Env {
    Env { p: Pooled::with_setup(&["dif", "freeze", "when"], Some(setup)) }
}

const LIMIT: u64 = 20_000_000;

fn list_items(t: &T) -> Option<Vec<T>> {
    match t {
        T::Atom(a) if a == "[]" => Some(vec![]),
        T::PList(items, tail) if tail.is_nil() => Some(items.clone()),
        _ => None,
    }
}

/// log entries -> segments of tokens between markers; None if malformed
fn segments(log: &T, nacts: usize) -> Option<Vec<Vec<usize>>> {
    let items = list_items(log)?;
    let mut segs: Vec<Vec<usize>> = vec![];
    let mut next_marker = 0i64;
    for it in items {
        match &it {
            T::Cmp(f, a) if f == "m" && a.len() == 1 => {
                if a[0] != term::int(next_marker) {
                    return None;
                }
                next_marker += 1;
                segs.push(vec![]);
            }
            T::Cmp(f, a) if f == "t" && a.len() == 1 => {
                let k = match &a[0] {
                    T::Int(i) => usize::try_from(i).ok()?,
                    _ => return None,
                };
                if k >= nacts {
                    return None;
                }
                segs.last_mut()?.push(k);
            }
            _ => return None,
        }
    }
    for s in segs.iter_mut() {
        s.sort();
    }
    Some(segs)
}

fn tokens_in(t: &T, out: &mut Vec<usize>) {
    match t {
        T::Cmp(f, a) if f == "c26_g" && a.len() == 4 => {
            if let T::Int(i) = &a[0] {
                if let Ok(k) = usize::try_from(i) {
                    out.push(k);
                }
            }
        }
        T::Cmp(_, a) => {
            for x in a {
                tokens_in(x, out)
            }
        }
        T::PList(items, tail) => {
            for x in items {
                tokens_in(x, out)
            }
            tokens_in(tail, out)
        }
        _ => {}
    }
}

/// a when/2 whose condition mentions at least two different variables: the suspended goal is
/// stored on each of them without a shared "done" mark, so it can be woken (and run) more than
/// once -- after two of the variables are unified, or when one wake-up cascade binds several
/// of them (known finding when-multivar)
fn when_multi_var(c: &Case, n: u8, k: usize) -> bool {
    fn cvars(w: &Wc, n: u8, out: &mut Vec<u32>) {
        match w {
            Wc::Nonvar(t) | Wc::Ground(t) => t.to_t(n).vars(out),
            Wc::And(a, b) | Wc::Or(a, b) => {
                cvars(a, n, out);
                cvars(b, n, out)
            }
        }
    }
    if let Some(Act::When(w, _)) = c.acts.get(k) {
        let mut vs = vec![];
        cvars(w, n, &mut vs);
        return vs.len() >= 2;
    }
    false
}

fn firing_sig(c: &Case, n: u8, _s: &Subst, got: &[usize], exp: &[usize], earlier: &[Vec<usize>], later: &[Vec<usize>], during: &str) -> String {
    let kind = |k: usize| match c.acts.get(k) {
        Some(Act::Dif(..)) => "dif",
        Some(Act::Freeze(..)) => "freeze",
        Some(Act::When(..)) => "when",
        _ => "unify",
    };
    let dup: Option<usize> = got.iter().cloned().find(|k| got.iter().filter(|x| *x == k).count() > 1 || earlier.iter().any(|e| e.contains(k)));
    if let Some(k) = dup {
        if when_multi_var(c, n, k) {
            return "when-multivar:fired-twice".into();
        }
        return format!("firing:fired-twice:{}-goal-during-{during}", kind(k));
    }
    let culprit = got.iter().chain(exp.iter()).cloned().find(|k| got.contains(k) != exp.contains(k)).unwrap_or(0);
    let cls = if got.contains(&culprit) {
        if later.iter().any(|l| l.contains(&culprit)) {
            "fired-too-early"
        } else {
            "fired-unexpectedly"
        }
    } else {
        "not-fired-in-time"
    };
    format!("firing:{cls}:{}-goal-during-{during}", kind(culprit))
}

/// single-pass substitution (the images are not substituted again)
fn apply_once(t: &T, m: &HashMap<u32, T>) -> T {
    match t {
        T::Var(v) => m.get(v).cloned().unwrap_or_else(|| t.clone()),
        T::PList(items, tail) => T::PList(items.iter().map(|x| apply_once(x, m)).collect(), Box::new(apply_once(tail, m))),
        T::Cmp(n, args) => T::Cmp(n.clone(), args.iter().map(|x| apply_once(x, m)).collect()),
        other => other.clone(),
    }
}

/// answer variable -> model term, by simultaneous traversal of two variant terms
fn var_map(ans: &T, model: &T, m: &mut HashMap<u32, T>) -> bool {
    match (ans, model) {
        (T::Var(v), _) => match m.get(v) {
            Some(x) => x == model,
            None => {
                m.insert(*v, model.clone());
                true
            }
        },
        (T::Atom(a), T::Atom(b)) => a == b,
        (T::Cmp(f, xs), T::Cmp(g, ys)) => f == g && xs.len() == ys.len() && xs.iter().zip(ys).all(|(x, y)| var_map(x, y, m)),
        (T::PList(xs, xt), T::PList(ys, yt)) => xs.len() == ys.len() && xs.iter().zip(ys).all(|(x, y)| var_map(x, y, m)) && var_map(xt, yt, m),
        _ => false,
    }
}

pub fn check(env: &mut Env, c: &Case) -> Verdict {
    env.p.begin_case();
    let n = c.nvars.clamp(1, 5);
    let na = c.acts.len();
    if na == 0 {
        return Verdict::Discard("empty".into());
    }
    let mut orders: Vec<Vec<usize>> = vec![(0..na).collect()];
    for p in &c.perms {
        let mut o: Vec<usize> = (0..na).collect();
        o.sort_by_key(|i| (p.get(*i).cloned().unwrap_or(0), *i));
        orders.push(o);
    }
    let vs_txt = format!("[{}]", (0..n).map(|i| format!("V{i}")).collect::<Vec<_>>().join(","));
    let has_dif = c.acts.iter().any(|a| matches!(a, Act::Dif(..)));
    let mut spurious_tolerated = false;
    let mut outcomes: Vec<bool> = vec![];
    let mut finals: Vec<T> = vec![];
    for (pi, order) in orders.iter().enumerate() {
        let model = run_model(c, n, order);
        if let Err(ModelErr::Cyclic) = model {
            return Verdict::Discard("cyclic-term".into());
        }
        let mut goals = vec!["c26_reset".to_string(), "c26_mark(0)".to_string()];
        for (j, &k) in order.iter().enumerate() {
            goals.push(act_t(k, &c.acts[k], n).text());
            goals.push(format!("c26_mark({})", j + 1));
        }
        let q = format!("{}, c26_logs(NB, B), copy_term({vs_txt}, Ws, Gs)", goals.join(", "));
        let o = env.p.s().ask_lim(&q, "r(Ws,Gs,NB,B)", LIMIT);
        let sols = match &o {
            Outcome::Panic(m) => return Verdict::fail(format!("panic:{}", m.split_whitespace().next().unwrap_or("?")), format!("{q} panicked: {m}")),
            Outcome::Harness(m) => return Verdict::Discard(format!("harness:{}", m.chars().take(40).collect::<String>())),
            Outcome::Limit => return Verdict::Discard("inference-limit".into()),
            Outcome::Ex(b) => {
                let f = match o.formal() {
                    Some(T::Cmp(n, _)) => n,
                    Some(T::Atom(n)) => n,
                    _ => "non-iso".into(),
                };
                return Verdict::fail(format!("error:{f}"), format!("{q} raised {}", b.text()));
            }
            Outcome::Sols(s) => s,
        };
        let kinds = |k: usize| match &c.acts[k] {
            Act::Dif(..) => "dif",
            Act::Freeze(..) => "freeze",
            Act::When(..) => "when",
            Act::Unify(..) => "unify",
        };
        let (steps, m) = match model {
            Err(_) => {
                if !sols.is_empty() {
                    return Verdict::fail("success-expected-failure:", format!("permutation {pi}: {q} succeeded ({}) but the model fails (an equation is inconsistent, a triggered goal fails, or a dif/2 pair is identical)", o.short()));
                }
                outcomes.push(false);
                continue;
            }
            Ok(x) => x,
        };
        if sols.len() != 1 {
            return Verdict::fail(format!("{}-expected-success:", if sols.is_empty() { "failure" } else { "several-answers" }), format!("permutation {pi}: {q} gave {} answers, the model succeeds once", sols.len()));
        }
        outcomes.push(true);
        let (ws, gs, nb, b) = match &sols[0] {
            T::Cmp(f, a) if f == "r" && a.len() == 4 => (a[0].clone(), a[1].clone(), a[2].clone(), a[3].clone()),
            other => return Verdict::Discard(format!("harness:answer-shape {}", other.text().chars().take(30).collect::<String>())),
        };
        // 1. bindings
        let model_vs = term::list((0..n).map(|i| resolve(&T::Var(i as u32), &m.s)).collect());
        if !ws.variant(&model_vs) {
            return Verdict::fail("bindings:", format!("permutation {pi}: {q}: final bindings {} expected (up to renaming) {}", ws.text(), model_vs.text()));
        }
        finals.push(model_vs.canon_vars());
        // 2. fired tokens per segment (backtrackable log = what happened on the surviving computation)
        let Some(bsegs) = segments(&b, na) else { return Verdict::fail("log-shape:", format!("{q}: {}", b.text())) };
        // segment j holds what was logged between marker j and marker j+1, i.e. during action j
        if bsegs.len() != na + 1 || !bsegs[na].is_empty() {
            return Verdict::fail("log-shape:markers", format!("{q}: {}", b.text()));
        }
        for (j, exp) in steps.iter().enumerate() {
            let got = &bsegs[j];
            if got != exp {
                return Verdict::fail(firing_sig(c, n, &m.s, got, exp, &bsegs[..j], &steps[j + 1..], kinds(order[j])), format!("permutation {pi}: {q}: after action {j} ({}) the goals {:?} fired, the model fires {:?}; log {}", act_t(order[j], &c.acts[order[j]], n).text(), got, exp, b.text()));
            }
        }
        // 3. non-backtrackable log: anything more than the backtrackable one ran inside an undone unification
        if nb != b {
            if !has_dif {
                return Verdict::fail("fired-in-undone-unification:no-dif", format!("permutation {pi}: {q}: goals ran whose effects were undone: non-backtrackable log {} vs {}", nb.text(), b.text()));
            }
            if c.raw {
                return Verdict::fail("fired-in-undone-unification:dif-present", format!("permutation {pi}: {q}: a frozen/when goal ran although its variable stayed unbound (dif/2 tries the unification with (\\=)/2, which wakes suspended goals; the binding is undone, side effects are not): non-backtrackable log {} vs {}", nb.text(), b.text()));
            }
            spurious_tolerated = true;
        }
        // 4. residual goals
        let Some(gitems) = list_items(&gs) else { return Verdict::fail("residual-shape:", gs.text()) };
        let mut amap: HashMap<u32, T> = HashMap::new();
        if !var_map(&ws, &model_vs, &mut amap) {
            return Verdict::Discard("harness:var-map".into());
        }
        let mut rep_difs: Vec<(T, T)> = vec![];
        let mut rep_freeze: Vec<usize> = vec![];
        let mut rep_when: Vec<usize> = vec![];
        for g in &gitems {
            match g {
                T::Cmp(c0, a) if c0 == ":" && a.len() == 2 => match (&a[0], &a[1]) {
                    (T::Atom(md), T::Cmp(d, xy)) if md == "dif" && d == "dif" && xy.len() == 2 => rep_difs.push((apply_once(&xy[0], &amap), apply_once(&xy[1], &amap))),
                    (T::Atom(md), T::Cmp(d, xy)) if md == "freeze" && d == "freeze" && xy.len() == 2 => {
                        if !matches!(xy[0], T::Var(_)) {
                            return Verdict::fail("residual-shape:freeze-nonvar", format!("{q}: {}", g.text()));
                        }
                        tokens_in(&xy[1], &mut rep_freeze)
                    }
                    (T::Atom(md), T::Cmp(d, xy)) if md == "when" && d == "when" && xy.len() == 2 => tokens_in(&xy[1], &mut rep_when),
                    _ => return Verdict::fail("residual-shape:goal", format!("{q}: unexpected residual goal {}", g.text())),
                },
                _ => return Verdict::fail("residual-shape:goal", format!("{q}: unexpected residual goal {}", g.text())),
            }
        }
        rep_freeze.sort();
        rep_when.sort();
        let exp_freeze: Vec<usize> = (0..na).filter(|k| matches!(c.acts[*k], Act::Freeze(..)) && !m.fired[*k]).collect();
        let exp_when: Vec<usize> = (0..na).filter(|k| matches!(c.acts[*k], Act::When(..)) && !m.fired[*k]).collect();
        if rep_freeze != exp_freeze {
            return Verdict::fail(format!("pending:freeze:{}", if rep_freeze.len() < exp_freeze.len() { "lost" } else { "extra" }), format!("permutation {pi}: {q}: pending frozen goals {:?} expected {:?}; residual goals {}", rep_freeze, exp_freeze, gs.text()));
        }
        if rep_when != exp_when {
            let dupk = rep_when.iter().cloned().find(|k| rep_when.iter().filter(|x| *x == k).count() > 1);
            let mut dd = rep_when.clone();
            dd.dedup();
            if let Some(k) = dupk {
                if dd == exp_when && when_multi_var(c, n, k) {
                    return Verdict::fail("when-multivar:pending-twice", format!("permutation {pi}: {q}: the same when/2 goal is pending twice after two variables of its condition were unified (it will run twice): {}", gs.text()));
                }
            }
            return Verdict::fail(format!("pending:when:{}", if rep_when.len() < exp_when.len() { "lost" } else { "extra" }), format!("permutation {pi}: {q}: pending when goals {:?} expected {:?}; residual goals {}", rep_when, exp_when, gs.text()));
        }
        // residual dif/2 goals may only mention the free variables
        let mut free = vec![];
        model_vs.vars(&mut free);
        let mut rv = vec![];
        for (l, r) in &rep_difs {
            l.vars(&mut rv);
            r.vars(&mut rv);
        }
        if rv.iter().any(|v| !free.contains(v)) {
            return Verdict::fail("residual-shape:dif-foreign-variable", format!("{q}: {}", gs.text()));
        }
        // 5. the residual constraints (dif/2 and pending goals together) behave like the posted
        //    ones: continue the same conjunction by grounding every free variable over {a,b,c}
        //    (all groundings when <= 9, else 6 of them) and compare with the model continued by
        //    the same equations: success/failure, final bindings, goals fired by the grounding
        let univ: Vec<T> = ATOMS.iter().map(|a| term::atom(a)).collect();
        let total = univ.len().pow(free.len() as u32);
        let seed = c.perms.first().and_then(|p| p.first()).cloned().unwrap_or(0) as usize + pi;
        let mut picks: Vec<usize> = if total <= 9 { (0..total).collect() } else { (0..6).map(|j| (seed + j * 7919) % total).collect() };
        picks.sort();
        picks.dedup();
        if free.is_empty() {
            picks.clear();
        }
        for gidx in picks {
            let g: Vec<(u32, T)> = free.iter().enumerate().map(|(i, v)| (*v, univ[(gidx / univ.len().pow(i as u32)) % univ.len()].clone())).collect();
            let mut m2 = Model { s: m.s.clone(), fired: m.fired.clone(), posted: m.posted.clone() };
            let mut eqs: Vec<(T, T)> = g.iter().map(|(v, t)| (T::Var(*v), t.clone())).collect();
            let exp = m2.settle(c, n, &mut eqs);
            if let Err(ModelErr::Cyclic) = exp {
                continue;
            }
            let binds: Vec<String> = g.iter().map(|(v, t)| format!("V{v} = {}", t.text())).collect();
            let q2 = format!("{}, {}, c26_mark({}), c26_logs(NB, B)", goals.join(", "), binds.join(", "), na + 1);
            let o2 = env.p.s().ask_lim(&q2, &format!("r({vs_txt},B)"), LIMIT);
            let sols2 = match &o2 {
                Outcome::Sols(s) => s,
                Outcome::Panic(m) => return Verdict::fail(format!("panic:{}", m.split_whitespace().next().unwrap_or("?")), format!("{q2} panicked: {m}")),
                Outcome::Ex(b) => return Verdict::fail("error:continuation", format!("{q2} raised {}", b.text())),
                _ => return Verdict::Discard("harness-or-limit".into()),
            };
            match exp {
                Err(_) => {
                    if !sols2.is_empty() {
                        // which kind of constraint should have stopped this grounding?
                        let mut s3 = m.s.clone();
                        let mut eq3: Vec<(T, T)> = g.iter().map(|(v, t)| (T::Var(*v), t.clone())).collect();
                        let mut consistent = true;
                        while let Some((a, b)) = eq3.pop() {
                            if !matches!(unify(&a, &b, &mut s3, false), Ok(true)) {
                                consistent = false;
                            }
                        }
                        let dif_violated = consistent && c.acts.iter().any(|a| matches!(a, Act::Dif(x, y) if resolve(&x.to_t(n), &s3) == resolve(&y.to_t(n), &s3)));
                        return Verdict::fail(format!("continuation:success-expected-failure:{}", if dif_violated { "dif-lost" } else { "goal-lost" }), format!("permutation {pi}: {q2} succeeded but the model fails for this grounding of the free variables"));
                    }
                }
                Ok(tokens) => {
                    if sols2.len() != 1 {
                        return Verdict::fail("continuation:failure-expected-success", format!("permutation {pi}: {q2} gave {} answers; the model succeeds for this grounding", sols2.len()));
                    }
                    let (vs2, b2) = match &sols2[0] {
                        T::Cmp(f, a) if f == "r" && a.len() == 2 => (a[0].clone(), a[1].clone()),
                        _ => return Verdict::Discard("harness:answer-shape".into()),
                    };
                    let mv = term::list((0..n).map(|i| resolve(&T::Var(i as u32), &m2.s)).collect());
                    if !vs2.variant(&mv) {
                        return Verdict::fail("continuation:bindings", format!("permutation {pi}: {q2}: final bindings {} expected {}", vs2.text(), mv.text()));
                    }
                    let Some(seg2) = segments(&b2, na) else { return Verdict::fail("log-shape:", format!("{q2}: {}", b2.text())) };
                    if seg2.len() != na + 2 {
                        return Verdict::fail("log-shape:markers", format!("{q2}: {}", b2.text()));
                    }
                    if seg2[na] != tokens {
                        return Verdict::fail(firing_sig(c, n, &m2.s, &seg2[na], &tokens, &seg2[..na], &[], "grounding"), format!("permutation {pi}: {q2}: grounding the free variables fired {:?}, the model fires {:?}; log {}", seg2[na], tokens, b2.text()));
                    }
                }
            }
        }
    }
    // the model itself must be order independent (self-check of the oracle)
    if outcomes.iter().any(|o| *o != outcomes[0]) || finals.iter().any(|f| !f.eq_struct(&finals[0])) {
        return Verdict::Discard("harness:model-order-dependent".into());
    }
    // classes / non-trivial rule
    let mut classes: Vec<&str> = vec![];
    for a in &c.acts {
        classes.push(match a {
            Act::Dif(..) => "act:dif",
            Act::Freeze(..) => "act:freeze",
            Act::When(..) => "act:when",
            Act::Unify(..) => "act:unify",
        });
    }
    classes.push(if outcomes[0] { "succeeds" } else { "fails" });
    if spurious_tolerated {
        classes.push("known-tolerated:goal-ran-in-dif-trial-unification");
    }
    if c.acts.iter().any(|a| matches!(a, Act::When(Wc::And(..) | Wc::Or(..), _))) {
        classes.push("when:,/;");
    }
    if c.acts.iter().any(|a| matches!(a, Act::Freeze(_, Gk::Bind(..)) | Act::When(_, Gk::Bind(..)))) {
        classes.push("goal-binds-variable");
    }
    classes.sort();
    classes.dedup();
    // a constraint posted before a unification in one permutation and after it in another
    let is_con = |k: usize| !matches!(c.acts[k], Act::Unify(..));
    let pos = |o: &Vec<usize>, k: usize| o.iter().position(|x| *x == k).unwrap();
    let mut nt = false;
    for k in 0..na {
        for u in 0..na {
            if is_con(k) && !is_con(u) {
                let rel: Vec<bool> = orders.iter().map(|o| pos(o, k) < pos(o, u)).collect();
                if rel.iter().any(|r| *r != rel[0]) {
                    nt = true;
                }
            }
        }
    }
    if nt {
        classes.push("constraint-before-and-after-a-unification");
    }
    Verdict::pass(nt && outcomes[0], &classes)
}

pub struct C26;

impl Prop for C26 {
    fn id(&self) -> &'static str {
        "C26"
    }
    fn rule(&self) -> &'static str {
        "multisets of 2..7 actions over <= 5 variables and terms over a b c f/1 g/2: dif(T1,T2), freeze(V,G), when(Cond,G) (Cond over nonvar/1 ground/1 ','/2 ';'/2), V = T; G logs a token (non-backtrackably and backtrackably) and optionally binds a variable or fails; each multiset runs as a conjunction in 3 permutations with a marker between actions; compared with a fixpoint model per permutation: success/failure, final bindings (variant), tokens fired between consecutive markers (exactly once, as soon as the trigger holds), residual dif/2 goals semantically over all groundings in {a,b,c}, pending freeze/when goals; non-trivial = the conjunction succeeds and some constraint is posted before a unification in one permutation and after it in another; distinct by case encoding"
    }
    fn assumptions(&self) -> Vec<String> {
        vec!["bb_put/bb_get/bb_b_put keep the two logs (non-backtrackable / backtrackable)".into(), "copy_term/3 reports the residual goals of the attributed variables".into(), "cases whose equations would build a cyclic term are discarded".into()]
    }
    fn run_shard(&self, cfg: &ShardCfg) -> ShardResult {
        let mut d = Driver::new(cfg, "C26");
        let n = cfg.share(cfg.tier.pick(10_000, 500_000));
        d.run("multiset", 0, n, 1500, case_strategy(), &mk_env, &check);
        d.finish()
    }
    fn replay(&self, _kind: &str, case: &Value) -> Verdict {
        replay_case::<Case, Env>(case, &mk_env, &check)
    }
}
