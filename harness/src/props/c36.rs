//! C36 — format/2 directives produce the documented text.
//!
//! Oracle = the doc table of `format_//2` in src/lib/format.pl, and nothing more:
//!  * every directive is evaluated on its own (`phrase(format_("~Nd",[A]),Cs)`) and judged
//!    against the documented text (exact for ~a ~s ~d ~Nd ~ND ~NU ~Nr ~NR ~n ~i ~~, `write/1` /
//!    `writeq/1` of the same machine for ~w ~q, predicates for ~NL and ~Nf where the docs leave
//!    freedom);
//!  * the whole format string must be the composition of those texts with the literal text and
//!    the column rules (exact while the docs determine the layout, "same texts in order, pads made
//!    of the fill character" after an overflow / a stop without fill point);
//!  * `format/2` onto a stream and a consulted clause with a literal format string (the
//!    goal-expanded, partially evaluated path) must give the same text;
//!  * undocumented directives, ill-typed arguments, too few / too many arguments raise and
//!    write nothing.
use crate::engine::*;
use crate::gen::*;
use crate::num::*;
use crate::session::Outcome;
use crate::shared::txt::{chars_of, drain_tolerated, items_of, short, tolerate_on, tolerated, CapSession};
use crate::term::{self, T};
use dashu::integer::IBig;
use proptest::prelude::*;
use serde::{Deserialize, Serialize};
use serde_json::Value;
use std::collections::HashSet;

const C36_PL: &str = include_str!("../../prolog/c36.pl");

#[derive(Clone, Debug, Serialize, Deserialize, PartialEq)]
pub enum NArg {
    Omit,
    Lit(u32),
    Star(u32),
}

impl NArg {
    fn text(&self) -> String {
        match self {
            NArg::Omit => String::new(),
            NArg::Lit(n) => n.to_string(),
            NArg::Star(_) => "*".into(),
        }
    }
    fn val(&self, default: u32) -> u32 {
        match self {
            NArg::Omit => default,
            NArg::Lit(n) | NArg::Star(n) => *n,
        }
    }
    fn push_arg(&self, args: &mut Vec<T>) {
        if let NArg::Star(n) = self {
            args.push(term::int(*n));
        }
    }
}

#[derive(Clone, Debug, Serialize, Deserialize)]
pub enum FArg {
    Fl(#[serde(with = "term::f64_bits")] f64),
    In(#[serde(with = "term::ibig_serde")] IBig),
}

#[derive(Clone, Debug, Serialize, Deserialize)]
pub enum Bad {
    /// `~c`, `~e`, `~2p` ...: a letter the documentation does not list
    Letter { n: Option<u32>, c: char, arg: Option<T> },
    /// an integer directive (d D U L r R) with a float or a non-evaluable atom
    NonInt { k: char, arg: T },
    /// `~a` with a non-atom
    NonAtom(T),
    /// `~s` with a non-string
    NonString(T),
    /// radix outside 2..36
    Radix {
        n: u32,
        up: bool,
        #[serde(with = "term::ibig_serde")]
        v: IBig,
    },
}

#[derive(Clone, Debug, Serialize, Deserialize)]
pub enum Item {
    Lit(String),
    Tilde,
    W(T),
    Q(T),
    A(String),
    S(String),
    D {
        n: NArg,
        k: char,
        #[serde(with = "term::ibig_serde")]
        v: IBig,
    },
    L {
        n: NArg,
        #[serde(with = "term::ibig_serde")]
        v: IBig,
    },
    R {
        n: NArg,
        up: bool,
        #[serde(with = "term::ibig_serde")]
        v: IBig,
    },
    F { n: NArg, v: FArg },
    Nl(NArg),
    Ign(T),
    Fill(Option<char>),
    ColHere,
    Col(NArg),
    Plus(NArg),
    Bad(Bad),
}

#[derive(Clone, Debug, Serialize, Deserialize)]
pub enum Adj {
    None,
    DropLast,
    Extra(T),
}

#[derive(Clone, Debug, Serialize, Deserialize)]
pub struct Case {
    pub items: Vec<Item>,
    pub adj: Adj,
    pub compiled: bool,
}

impl Item {
    /// format-string fragment and the arguments it consumes
    fn frag(&self) -> (String, Vec<T>) {
        let mut args = vec![];
        let f = match self {
            Item::Lit(s) => s.replace('~', ""),
            Item::Tilde => "~~".into(),
            Item::W(t) => {
                args.push(t.clone());
                "~w".into()
            }
            Item::Q(t) => {
                args.push(t.clone());
                "~q".into()
            }
            Item::A(a) => {
                args.push(T::Atom(a.clone()));
                "~a".into()
            }
            Item::S(s) => {
                args.push(T::Str(s.clone()));
                "~s".into()
            }
            Item::D { n, k, v } => {
                n.push_arg(&mut args);
                args.push(T::Int(v.clone()));
                format!("~{}{}", n.text(), k)
            }
            Item::L { n, v } => {
                n.push_arg(&mut args);
                args.push(T::Int(v.clone()));
                format!("~{}L", n.text())
            }
            Item::R { n, up, v } => {
                n.push_arg(&mut args);
                args.push(T::Int(v.clone()));
                format!("~{}{}", n.text(), if *up { 'R' } else { 'r' })
            }
            Item::F { n, v } => {
                n.push_arg(&mut args);
                args.push(match v {
                    FArg::Fl(f) => T::Float(*f),
                    FArg::In(i) => T::Int(i.clone()),
                });
                format!("~{}f", n.text())
            }
            Item::Nl(n) => {
                n.push_arg(&mut args);
                format!("~{}n", n.text())
            }
            Item::Ign(t) => {
                args.push(t.clone());
                "~i".into()
            }
            Item::Fill(None) => "~t".into(),
            Item::Fill(Some(c)) => format!("~`{c}t"),
            Item::ColHere => "~|".into(),
            Item::Col(n) => {
                n.push_arg(&mut args);
                format!("~{}|", n.text())
            }
            Item::Plus(n) => {
                n.push_arg(&mut args);
                format!("~{}+", n.text())
            }
            Item::Bad(b) => match b {
                Bad::Letter { n, c, arg } => {
                    if let Some(a) = arg {
                        args.push(a.clone());
                    }
                    format!("~{}{}", n.map(|n| n.to_string()).unwrap_or_default(), c)
                }
                Bad::NonInt { k, arg } => {
                    args.push(arg.clone());
                    format!("~{k}")
                }
                Bad::NonAtom(t) => {
                    args.push(t.clone());
                    "~a".into()
                }
                Bad::NonString(t) => {
                    args.push(t.clone());
                    "~s".into()
                }
                Bad::Radix { n, up, v } => {
                    args.push(T::Int(v.clone()));
                    format!("~{}{}", n, if *up { 'R' } else { 'r' })
                }
            },
        };
        (f, args)
    }

    fn is_bad(&self) -> bool {
        match self {
            Item::Bad(_) => true,
            // defensive (shrinking / replay files): out-of-range values of otherwise good items
            Item::R { n, .. } => !(2..=36).contains(&n.val(8)),
            Item::Col(NArg::Omit) | Item::Plus(NArg::Omit) => false,
            _ => false,
        }
    }

    /// evaluated on its own as well?
    fn single(&self) -> bool {
        !matches!(self, Item::Lit(_) | Item::Fill(_) | Item::ColHere | Item::Col(_) | Item::Plus(_))
    }

    fn kind(&self) -> String {
        match self {
            Item::Lit(_) => "lit".into(),
            Item::Tilde => "~~".into(),
            Item::W(_) => "~w".into(),
            Item::Q(_) => "~q".into(),
            Item::A(_) => "~a".into(),
            Item::S(_) => "~s".into(),
            Item::D { k, n, .. } => format!("~{}{k}", if n.val(0) > 0 { "N" } else { "" }),
            Item::L { .. } => "~L".into(),
            Item::R { up, .. } => if *up { "~R" } else { "~r" }.into(),
            Item::F { .. } => "~f".into(),
            Item::Nl(_) => "~n".into(),
            Item::Ign(_) => "~i".into(),
            Item::Fill(_) => "~t".into(),
            Item::ColHere => "~|".into(),
            Item::Col(_) => "~N|".into(),
            Item::Plus(_) => "~N+".into(),
            Item::Bad(b) => match b {
                Bad::Letter { .. } => "bad-letter".into(),
                Bad::NonInt { k, .. } => format!("bad-nonint-{k}"),
                Bad::NonAtom(_) => "bad-nonatom".into(),
                Bad::NonString(_) => "bad-nonstring".into(),
                Bad::Radix { .. } => "bad-radix".into(),
            },
        }
    }
}

// ---------------------------------------------------------------------------------------------
// Reference renderings (the doc table)

fn group3(digits: &str, sep: char) -> String {
    let cs: Vec<char> = digits.chars().collect();
    let mut out = String::new();
    for (i, c) in cs.iter().enumerate() {
        if i > 0 && (cs.len() - i) % 3 == 0 {
            out.push(sep);
        }
        out.push(*c);
    }
    out
}

/// ~Nd / ~ND / ~NU on the documented reading: the sign, then the digits with the last N of them
/// after a decimal point (zero-padded as in `0.05`), digits left of the point grouped in threes
/// from the right for D (`,`) and U (`_`).
pub fn model_d(n: u32, k: char, v: &IBig) -> String {
    let neg = is_neg(v);
    let digits = iabs(v).to_string();
    let n = n as usize;
    let (ip, fp) = if n == 0 {
        (digits.clone(), None)
    } else if digits.len() <= n {
        ("0".to_string(), Some(format!("{}{}", "0".repeat(n - digits.len()), digits)))
    } else {
        (digits[..digits.len() - n].to_string(), Some(digits[digits.len() - n..].to_string()))
    };
    let ip = match k {
        'D' => group3(&ip, ','),
        'U' => group3(&ip, '_'),
        _ => ip,
    };
    let mut out = String::new();
    if neg {
        out.push('-');
    }
    out.push_str(&ip);
    if let Some(fp) = fp {
        out.push('.');
        out.push_str(&fp);
    }
    out
}

/// What an implementation produces that treats the minus sign as one more digit (the open
/// finding): used only to give that exact defect its own signature.
fn sign_as_digit_d(n: u32, k: char, v: &IBig) -> String {
    let cs = v.to_string();
    let n = n as usize;
    let len = cs.chars().count();
    let (ip, fp) = if n == 0 {
        (cs.clone(), None)
    } else if len <= n {
        ("0".to_string(), Some(format!("{}{}", "0".repeat(n - len), cs)))
    } else {
        (cs[..len - n].to_string(), Some(cs[len - n..].to_string()))
    };
    let ip = match k {
        'D' => group3(&ip, ','),
        'U' => group3(&ip, '_'),
        _ => ip,
    };
    match fp {
        Some(fp) => format!("{ip}.{fp}"),
        None => ip,
    }
}

pub fn model_radix(r: u32, up: bool, v: &IBig) -> String {
    let alphabet: Vec<char> = if up { "0123456789ABCDEFGHIJKLMNOPQRSTUVWXYZ" } else { "0123456789abcdefghijklmnopqrstuvwxyz" }.chars().collect();
    let mut x = iabs(v);
    if x == IBig::ZERO {
        return "0".into();
    }
    let rb = IBig::from(r);
    let mut ds = vec![];
    while x > IBig::ZERO {
        let q = &x / &rb;
        let d = &x - &q * &rb;
        ds.push(alphabet[usize::try_from(&d).unwrap()]);
        x = q;
    }
    if is_neg(v) {
        ds.push('-');
    }
    ds.iter().rev().collect()
}

fn ipow10(n: u32) -> IBig {
    let mut r = IBig::ONE;
    for _ in 0..n {
        r *= IBig::from(10);
    }
    r
}

/// ~NL: docs: "at most N digits appear on a line" (N = 0 / omitted: 72). Accepted: the text is
/// the decimal numeral cut into non-empty lines (a line may end in the continuation mark `_`
/// before the newline), no line carries more than N digits.
fn judge_l(n: u32, v: &IBig, obs: &str) -> Result<(), String> {
    let n = if n == 0 { 72 } else { n } as usize;
    let lines: Vec<&str> = obs.split('\n').collect();
    let mut joined = String::new();
    for (i, l) in lines.iter().enumerate() {
        let body = if i + 1 < lines.len() { l.strip_suffix('_').unwrap_or(l) } else { l };
        if body.is_empty() {
            return Err("empty line".into());
        }
        if body.chars().filter(|c| c.is_ascii_digit()).count() > n {
            return Err(format!("line {i} has more than {n} digits"));
        }
        joined.push_str(body);
    }
    if joined != v.to_string() {
        return Err("lines do not join to the decimal numeral".into());
    }
    Ok(())
}

/// ~Nf: docs: "format the float argument using N digits after the decimal point" (N omitted: 6;
/// doc examples: `~2f` of 3 is `3.00`, `~20f` of 0.1 is `0.10000000000000000000`). Accepted: a
/// canonical decimal numeral with exactly N fraction digits whose value D satisfies
/// |D - F| <= 10^-N / 2 + |F| * 2^-51 (either tie direction; the docs' own example shows the
/// digits are those of a double computation, not of the exact binary value); exact for integers.
/// N = 0: `3`, `3.` and `3.0` are all accepted (the implementation deliberately prints `3.0`).
fn judge_f(n: u32, v: &FArg, obs: &str) -> Result<(), String> {
    let (neg, rest) = match obs.strip_prefix('-') {
        Some(r) => (true, r),
        None => (false, obs),
    };
    let (ip, fp) = match rest.split_once('.') {
        Some((a, b)) => (a, Some(b)),
        None => (rest, None),
    };
    if ip.is_empty() || !ip.chars().all(|c| c.is_ascii_digit()) || (ip.len() > 1 && ip.starts_with('0')) {
        return Err("integer part not a canonical numeral".into());
    }
    let fp = match (n, fp) {
        (0, None) | (0, Some("")) | (0, Some("0")) => "",
        (0, _) => return Err("~0f with fraction digits".into()),
        (_, Some(f)) if f.len() == n as usize && f.chars().all(|c| c.is_ascii_digit()) => f,
        _ => return Err(format!("not exactly {n} fraction digits")),
    };
    let mut dn: IBig = format!("{ip}{fp}").parse().map_err(|_| "digits")?;
    if neg {
        if dn == IBig::ZERO {
            // "-0.00" for a tiny negative value is fine
        }
        dn = -dn;
    }
    let p10 = ipow10(n);
    match v {
        FArg::In(i) => {
            if dn == i * &p10 {
                Ok(())
            } else {
                Err("integer argument not rendered exactly".into())
            }
        }
        FArg::Fl(f) => {
            if neg && dn == IBig::ZERO && *f > 0.0 {
                return Err("minus sign on a positive value".into());
            }
            let (m, e) = f64_decompose(*f);
            let k: u32 = if e < 0 { (-e) as u32 } else { 0 };
            let ek: u32 = (e + k as i32) as u32; // e + k >= 0
            // everything scaled by 10^n * 2^52 * 2^k
            let fm = &m * ipow2(ek) * &p10; // F * 10^n * 2^k
            let lhs = iabs(&(&dn * ipow2(52 + k) - &fm * ipow2(52)));
            let rhs = ipow2(51 + k) + iabs(&fm) * IBig::from(2);
            if lhs <= rhs {
                Ok(())
            } else {
                Err(format!("value differs from the argument by more than half a unit of the last digit (expected about {})", format!("{:.*}", n as usize, f)))
            }
        }
    }
}

// ---------------------------------------------------------------------------------------------
// Composition (literal text + column rules)

#[derive(Clone, Debug)]
enum Tok {
    Text(String),
    Alt(Vec<String>),
    /// zero or more copies of the character
    Pad(char),
}

enum El {
    Text(String),
    Glue(char),
}

fn distributions(space: usize, k: usize) -> Vec<Vec<usize>> {
    // all (p_1..p_k) with p_i >= space / k and sum = space  ("evenly"; where the remainder goes
    // is not documented)
    let base = space / k;
    let r = space % k;
    let mut out = vec![];
    fn rec(k: usize, r: usize, cur: &mut Vec<usize>, out: &mut Vec<Vec<usize>>) {
        if cur.len() + 1 == k {
            let mut v = cur.clone();
            v.push(r);
            out.push(v);
            return;
        }
        for x in 0..=r {
            cur.push(x);
            rec(k, r - x, cur, out);
            cur.pop();
        }
    }
    rec(k, r, &mut vec![], &mut out);
    for v in out.iter_mut() {
        for x in v.iter_mut() {
            *x += base;
        }
    }
    out
}

struct Composer {
    toks: Vec<Tok>,
    tab: i64,
    pending: Vec<El>,
    loose: bool,
    exact_cells: u32,
    loose_cells: u32,
    multi_fill: u32,
}

impl Composer {
    fn close(&mut self, to: Option<i64>) {
        let els = std::mem::take(&mut self.pending);
        let len: i64 = els.iter().map(|e| if let El::Text(s) = e { s.chars().count() as i64 } else { 0 }).sum();
        let k = els.iter().filter(|e| matches!(e, El::Glue(_))).count();
        let has_nl = els.iter().any(|e| matches!(e, El::Text(s) if s.contains('\n')));
        let emit_loose = |toks: &mut Vec<Tok>| {
            for e in &els {
                match e {
                    El::Text(s) => toks.push(Tok::Text(s.clone())),
                    El::Glue(c) => toks.push(Tok::Pad(*c)),
                }
            }
        };
        if self.loose || (has_nl && to.is_some()) {
            emit_loose(&mut self.toks);
            if k == 0 && to.is_some() {
                self.toks.push(Tok::Pad(' '));
            }
            if to.is_some() {
                self.loose = true;
                self.loose_cells += 1;
            }
        } else {
            match to {
                None => emit_loose(&mut self.toks),
                Some(to) => {
                    let width = to - self.tab;
                    if k == 0 {
                        emit_loose(&mut self.toks);
                        if len != width {
                            // a stop without fill point: the docs promise no padding and forbid none
                            self.toks.push(Tok::Pad(' '));
                            self.loose = true;
                            self.loose_cells += 1;
                        } else {
                            self.exact_cells += 1;
                        }
                    } else {
                        let space = width - len;
                        if space < 0 {
                            // text longer than the column: written in full, no padding
                            for e in &els {
                                if let El::Text(s) = e {
                                    self.toks.push(Tok::Text(s.clone()));
                                }
                            }
                            self.loose = true;
                            self.loose_cells += 1;
                        } else {
                            let mut cands = vec![];
                            for d in distributions(space as usize, k) {
                                let mut s = String::new();
                                let mut gi = 0;
                                for e in &els {
                                    match e {
                                        El::Text(t) => s.push_str(t),
                                        El::Glue(c) => {
                                            for _ in 0..d[gi] {
                                                s.push(*c);
                                            }
                                            gi += 1;
                                        }
                                    }
                                }
                                cands.push(s);
                            }
                            self.toks.push(Tok::Alt(cands));
                            self.exact_cells += 1;
                            if k > 1 {
                                self.multi_fill += 1;
                            }
                        }
                    }
                }
            }
        }
        if let Some(to) = to {
            self.tab = to;
        }
    }
}

fn compose(items: &[Item], texts: &[Option<String>]) -> Composer {
    let mut c = Composer { toks: vec![], tab: 0, pending: vec![], loose: false, exact_cells: 0, loose_cells: 0, multi_fill: 0 };
    for (i, it) in items.iter().enumerate() {
        match it {
            Item::Lit(s) => c.pending.push(El::Text(s.replace('~', ""))),
            Item::Fill(ch) => c.pending.push(El::Glue(ch.unwrap_or(' '))),
            Item::ColHere => {
                let len: i64 = c.pending.iter().map(|e| if let El::Text(s) = e { s.chars().count() as i64 } else { 0 }).sum();
                let to = c.tab + len;
                c.close(Some(to));
            }
            Item::Col(n) => c.close(Some(n.val(0) as i64)),
            Item::Plus(n) => {
                let to = c.tab + n.val(0) as i64;
                c.close(Some(to));
            }
            Item::Nl(n) => {
                let k = n.val(1);
                c.close(None);
                if k == 0 {
                    // "0 newlines": what the column origin is afterwards is not documented
                    c.loose = true;
                } else {
                    c.toks.push(Tok::Text("\n".repeat(k as usize)));
                    c.tab = 0;
                    c.loose = false;
                }
            }
            _ => {
                let t = texts[i].clone().unwrap_or_default();
                if !t.is_empty() {
                    c.pending.push(El::Text(t));
                }
            }
        }
    }
    c.close(None);
    c
}

/// a `~|` whose cell (the elements since the previous stop / newline) contains a ~w or ~q
fn colhere_after_write(items: &[Item]) -> bool {
    let mut pending_write = false;
    for it in items {
        match it {
            Item::W(_) | Item::Q(_) => pending_write = true,
            Item::ColHere => {
                if pending_write {
                    return true;
                }
            }
            Item::Col(_) | Item::Plus(_) | Item::Nl(_) => pending_write = false,
            _ => {}
        }
    }
    false
}

fn match_toks(toks: &[Tok], s: &[char]) -> bool {
    fn starts(s: &[char], pos: usize, t: &str) -> Option<usize> {
        let mut p = pos;
        for c in t.chars() {
            if p >= s.len() || s[p] != c {
                return None;
            }
            p += 1;
        }
        Some(p)
    }
    fn go(toks: &[Tok], s: &[char], i: usize, pos: usize, dead: &mut HashSet<(usize, usize)>) -> bool {
        if i == toks.len() {
            return pos == s.len();
        }
        if dead.contains(&(i, pos)) {
            return false;
        }
        let ok = match &toks[i] {
            Tok::Text(t) => match starts(s, pos, t) {
                Some(p) => go(toks, s, i + 1, p, dead),
                None => false,
            },
            Tok::Alt(cs) => cs.iter().any(|t| match starts(s, pos, t) {
                Some(p) => go(toks, s, i + 1, p, dead),
                None => false,
            }),
            Tok::Pad(c) => {
                let mut p = pos;
                loop {
                    if go(toks, s, i + 1, p, dead) {
                        break true;
                    }
                    if p < s.len() && s[p] == *c {
                        p += 1;
                    } else {
                        break false;
                    }
                }
            }
        };
        if !ok {
            dead.insert((i, pos));
        }
        ok
    }
    go(toks, s, 0, 0, &mut HashSet::new())
}

// ---------------------------------------------------------------------------------------------
// Generators

const NSET: &[u32] = &[0, 1, 2, 3, 7, 20, 72];

fn narg(set: &'static [u32]) -> BoxedStrategy<NArg> {
    prop_oneof![
        2 => Just(NArg::Omit),
        5 => any::<u16>().prop_map(move |k| NArg::Lit(pick(set, k))),
        2 => any::<u16>().prop_map(move |k| NArg::Star(pick(set, k))),
    ]
    .boxed()
}

fn narg_range(lo: u32, hi: u32) -> BoxedStrategy<NArg> {
    prop_oneof![
        5 => (lo..=hi).prop_map(NArg::Lit),
        2 => (lo..=hi).prop_map(NArg::Star),
    ]
    .boxed()
}

fn lit_text(newlines: bool) -> BoxedStrategy<String> {
    let mut palette: Vec<char> = "abcxyzABZ019 ,.;:!?%*+-/\\'\"()[]{}|_`#<=>é λ日😀".chars().collect();
    if newlines {
        palette.push('\n');
        palette.push('\t');
    }
    proptest::collection::vec(any::<u16>(), 0..=6).prop_map(move |ks| ks.into_iter().map(|k| pick(&palette, k)).collect::<String>()).boxed()
}

fn clean_atom() -> BoxedStrategy<String> {
    atom_text_strategy().prop_map(|s| s.replace('\0', "0")).boxed()
}

fn ground_term() -> BoxedStrategy<T> {
    let cfg = TermCfg { depth: 3, size: 12, nvars: 0, tricky_atoms: true, floats: true, bigints: true, strings: true, rationals: false, partial_lists: true };
    term_strategy(cfg).prop_map(|t| strip_nul(&t)).boxed()
}

fn strip_nul(t: &T) -> T {
    match t {
        T::Atom(a) => T::Atom(a.replace('\0', "0")),
        T::Str(s) => T::Str(s.replace('\0', "0")),
        T::PList(items, tail) => T::PList(items.iter().map(strip_nul).collect(), Box::new(strip_nul(tail))),
        T::Cmp(n, args) => {
            let n = n.replace('\0', "0");
            T::Cmp(n, args.iter().map(strip_nul).collect())
        }
        other => other.clone(),
    }
}

fn simple_term() -> BoxedStrategy<T> {
    prop_oneof![
        ident_strategy().prop_map(T::Atom),
        (-99i64..=99).prop_map(term::int),
        (ident_strategy(), ident_strategy()).prop_map(|(f, a)| term::cmp(&f, vec![T::Atom(a)])),
    ]
    .boxed()
}

fn int_arg() -> BoxedStrategy<IBig> {
    prop_oneof![
        5 => int_strategy(),
        2 => (-1_000_000i64..=1_000_000).prop_map(IBig::from),
        2 => (-1000i64..=-1).prop_map(IBig::from),
    ]
    .boxed()
}

fn f_arg() -> BoxedStrategy<FArg> {
    prop_oneof![
        // +-2^55 is excluded by construction (open finding: floor/truncate/round of that double panics)
        6 => float_strategy().prop_map(|f| FArg::Fl(if f.abs() == 36028797018963968.0 { f * 1.5 } else { f })),
        // short decimals: ties and near-ties of the decimal rounding
        3 => (-100_000i64..=100_000, 0u32..=5).prop_map(|(m, s)| FArg::Fl(m as f64 / 10f64.powi(s as i32))),
        // integers beyond the float range legitimately raise float_overflow
        2 => int_strategy().prop_filter("fits a double", |i| bit_len(i) <= 1000).prop_map(FArg::In),
    ]
    .boxed()
}

/// directives that produce text (any argument values)
fn text_item(newlines: bool) -> BoxedStrategy<Item> {
    prop_oneof![
        3 => lit_text(newlines).prop_map(Item::Lit),
        1 => Just(Item::Tilde),
        2 => ground_term().prop_map(Item::W),
        2 => ground_term().prop_map(Item::Q),
        2 => clean_atom().prop_map(Item::A),
        2 => string_content_strategy().prop_map(Item::S),
        6 => (narg(NSET), any::<u16>(), int_arg()).prop_map(|(n, k, v)| Item::D { n, k: pick(&['d', 'd', 'D', 'U'], k), v }),
        2 => (narg(NSET), int_arg()).prop_map(|(n, v)| Item::L { n, v }),
        4 => (prop_oneof![1 => Just(NArg::Omit), 6 => narg_range(2, 36)], any::<bool>(), int_arg()).prop_map(|(n, up, v)| Item::R { n, up, v }),
        5 => (narg(NSET), f_arg()).prop_map(|(n, v)| Item::F { n, v }),
        1 => narg(&[0, 1, 2, 3]).prop_map(Item::Nl),
        1 => ground_term().prop_map(Item::Ign),
    ]
    .boxed()
}

/// short single-line texts for column layouts
fn col_text_item() -> BoxedStrategy<Item> {
    prop_oneof![
        4 => lit_text(false).prop_map(Item::Lit),
        2 => simple_term().prop_map(Item::W),
        1 => simple_term().prop_map(Item::Q),
        2 => ident_strategy().prop_map(Item::A),
        1 => lit_text(false).prop_map(Item::S),
        2 => (narg(&[0, 1, 2]), any::<u16>(), (-99_999i64..=99_999).prop_map(IBig::from)).prop_map(|(n, k, v)| Item::D { n, k: pick(&['d', 'D', 'U'], k), v }),
        1 => (narg(&[0, 1, 2]), (-1000i32..=1000).prop_map(|m| FArg::Fl(m as f64 / 8.0))).prop_map(|(n, v)| Item::F { n, v }),
        1 => Just(Item::Tilde),
    ]
    .boxed()
}

fn fill_item() -> BoxedStrategy<Item> {
    prop_oneof![
        3 => Just(Item::Fill(None)),
        2 => any::<u16>().prop_map(|k| Item::Fill(Some(pick(&['.', '-', '*', '0', 'x', ' ', '~', 't', 'é', '`'], k)))),
    ]
    .boxed()
}

#[derive(Clone, Debug)]
struct Seg {
    els: Vec<Item>,
    stop: u8,
    delta: u32,
    star: bool,
    newline: bool,
}

fn seg() -> BoxedStrategy<Seg> {
    (proptest::collection::vec(prop_oneof![3 => col_text_item(), 2 => fill_item()], 0..=4), 0u8..=9, prop_oneof![4 => 0u32..=12, 1 => 0u32..=40], any::<bool>(), proptest::bool::weighted(0.2))
        .prop_map(|(els, stop, delta, star, newline)| Seg { els, stop, delta, star, newline })
        .boxed()
}

fn col_items() -> BoxedStrategy<Vec<Item>> {
    (proptest::collection::vec(seg(), 1..=4), proptest::collection::vec(col_text_item(), 0..=1))
        .prop_map(|(segs, trail)| {
            let mut items = vec![];
            let mut tab: u32 = 0;
            for s in segs {
                // rough width of the segment's text, to aim the stop so that most cells fit
                let mut w = 0u32;
                for e in &s.els {
                    w += match e {
                        Item::Lit(t) | Item::S(t) | Item::A(t) => t.chars().count() as u32,
                        Item::Fill(_) => 0,
                        _ => 3,
                    };
                }
                items.extend(s.els);
                let mk = |n: u32| if s.star { NArg::Star(n) } else { NArg::Lit(n) };
                match s.stop {
                    0 => {
                        items.push(Item::ColHere);
                        tab += w;
                    }
                    1..=4 => {
                        let n = tab + w + s.delta;
                        items.push(Item::Col(mk(n)));
                        tab = n;
                    }
                    5 => {
                        // absolute column unrelated to the position (may lie behind)
                        items.push(Item::Col(mk(s.delta)));
                        tab = s.delta;
                    }
                    6..=8 => {
                        items.push(Item::Plus(mk(w + s.delta)));
                        tab += w + s.delta;
                    }
                    _ => {
                        items.push(Item::Plus(mk(s.delta)));
                        tab += s.delta;
                    }
                }
                if s.newline {
                    items.push(Item::Nl(NArg::Omit));
                    tab = 0;
                }
            }
            items.extend(trail);
            items
        })
        .boxed()
}

fn bad_item() -> BoxedStrategy<Item> {
    let letters: &'static [char] = &['c', 'e', 'g', 'p', 'z', 'k', 'W', 'Q', 'A', 'S', 'F', 'N', 'I', 'T', 'x', '@', '!', ' ', 'E', 'G', 'b', 'o', 'X'];
    let non_int = prop_oneof![
        float_strategy().prop_map(T::Float),
        Just(T::Float(2.0)),
        any::<u16>().prop_map(|k| T::Atom(pick(&["foo", "bar", "abc", "hello world", "[]", "x1"], k).to_string())),
    ];
    let non_atom = prop_oneof![
        (ident_strategy(), simple_term()).prop_map(|(f, a)| term::cmp(&f, vec![a])),
        proptest::collection::vec(simple_term(), 1..=3).prop_map(term::list),
        (1usize..=4).prop_map(|n| T::Str("abcd"[..n].to_string())),
        (-99i64..=99).prop_map(term::int),
        float_strategy().prop_map(T::Float),
    ];
    let non_string = prop_oneof![
        any::<u16>().prop_map(|k| T::Atom(pick(&["foo", "abc", "a", "{}"], k).to_string())),
        (-99i64..=99).prop_map(term::int),
        proptest::collection::vec((97i64..=122).prop_map(term::int), 1..=4).prop_map(term::list),
        proptest::collection::vec(any::<u16>().prop_map(|k| T::Atom(pick(&["ab", "foo", "xyz"], k).to_string())), 1..=3).prop_map(term::list),
        (ident_strategy(), simple_term()).prop_map(|(f, a)| term::cmp(&f, vec![a])),
        float_strategy().prop_map(T::Float),
    ];
    prop_oneof![
        4 => (proptest::option::weighted(0.3, 0u32..=20), any::<u16>(), proptest::option::weighted(0.7, simple_term())).prop_map(move |(n, k, arg)| Item::Bad(Bad::Letter { n, c: pick(letters, k), arg })),
        3 => (any::<u16>(), non_int).prop_map(|(k, arg)| Item::Bad(Bad::NonInt { k: pick(&['d', 'd', 'D', 'U', 'L', 'r', 'R'], k), arg })),
        2 => non_atom.prop_map(|t| Item::Bad(Bad::NonAtom(t))),
        2 => non_string.prop_map(|t| Item::Bad(Bad::NonString(t))),
        2 => (any::<u16>(), any::<bool>(), int_arg()).prop_map(|(k, up, v)| Item::Bad(Bad::Radix { n: pick(&[0, 1, 37, 38, 64, 100], k), up, v })),
    ]
    .boxed()
}

pub fn case_strategy() -> BoxedStrategy<Case> {
    let dir = (proptest::collection::vec(text_item(true), 1..=8), proptest::bool::weighted(0.25)).prop_map(|(items, compiled)| Case { items, adj: Adj::None, compiled });
    let col = (col_items(), proptest::bool::weighted(0.25)).prop_map(|(items, compiled)| Case { items, adj: Adj::None, compiled });
    let any_item = || prop_oneof![3 => text_item(false), 1 => fill_item(), 1 => narg_range(0, 30).prop_map(Item::Col), 1 => narg_range(0, 12).prop_map(Item::Plus)];
    let err_item = (proptest::collection::vec(any_item(), 0..=3), bad_item(), proptest::collection::vec(any_item(), 0..=2), proptest::bool::weighted(0.25)).prop_map(|(mut a, b, c, compiled)| {
        a.push(b);
        a.extend(c);
        Case { items: a, adj: Adj::None, compiled }
    });
    let err_adj = (proptest::collection::vec(any_item(), 1..=4), prop_oneof![Just(Adj::DropLast), simple_term().prop_map(Adj::Extra)], proptest::bool::weighted(0.25)).prop_map(|(items, adj, compiled)| Case { items, adj, compiled });
    prop_oneof![10 => dir, 6 => col, 3 => err_item, 2 => err_adj].boxed()
}

// ---------------------------------------------------------------------------------------------
// Check

pub struct Env {
    pub cs: CapSession,
    pub n: u64,
}

pub fn mk_env() -> Env {
    let mut cs = CapSession::new(&["format", "dcgs", "lists"]);
    assert!(cs.s.consult(C36_PL, "c36"), "c36.pl failed to load");
    Env { cs, n: 0 }
}

#[derive(Debug)]
enum Res {
    Ok(String),
    Failed,
    Ex(T),
}

fn decode_res(t: &T) -> Option<Res> {
    match t {
        T::Atom(a) if a == "failed" => Some(Res::Failed),
        T::Cmp(n, a) if n == "ok" && a.len() == 1 => chars_of(&a[0]).map(Res::Ok),
        T::Cmp(n, a) if n == "ex" && a.len() == 1 => Some(Res::Ex(a[0].clone())),
        _ => None,
    }
}

fn is_error_ball(t: &T) -> bool {
    matches!(t, T::Cmp(n, a) if n == "error" && a.len() == 2)
}

thread_local! {
    /// set per case: the case has a ~f argument that is the double +-2^55 (open finding: floor/
    /// truncate/round of exactly that double trips the Fixnum range assertion)
    static HAS_F_2POW55: std::cell::Cell<bool> = const { std::cell::Cell::new(false) };
}

fn outcome_problem(o: &Outcome, what: &str) -> Option<Verdict> {
    match o {
        Outcome::Panic(m) => {
            let loc = m.split_whitespace().next().unwrap_or("?");
            let sig = if HAS_F_2POW55.with(|c| c.get()) && loc.contains("src/parser/ast.rs") { format!("panic:{loc}:~f-of-float-2^55") } else { format!("panic:{loc}") };
            Some(Verdict::fail(sig, format!("{what}: {m}")))
        }
        Outcome::Harness(m) => Some(Verdict::Discard(format!("harness:{}", m.chars().take(40).collect::<String>()))),
        _ => None,
    }
}

fn judge_item(env: &mut Env, it: &Item, obs: &str) -> Result<(), Verdict> {
    let bad = |class: &str, exp: &str| Err(Verdict::fail(class.to_string(), format!("{} with {:?} gave {} expected {}", it.frag().0, it.frag().1.iter().map(|a| a.text()).collect::<Vec<_>>(), short(obs), exp)));
    match it {
        Item::Tilde => {
            if obs != "~" {
                return bad("text:~~", "\"~\"");
            }
        }
        Item::A(a) => {
            if obs != a {
                return bad("text:~a", &short(a));
            }
        }
        Item::S(s) => {
            if obs != s {
                return bad("text:~s", &short(s));
            }
        }
        Item::Ign(_) => {
            if !obs.is_empty() {
                return bad("text:~i", "\"\"");
            }
        }
        Item::Nl(n) => {
            let e = "\n".repeat(n.val(1) as usize);
            if obs != e {
                return bad("text:~n", &short(&e));
            }
        }
        Item::W(t) | Item::Q(t) => {
            let q = matches!(it, Item::Q(_));
            let _ = env.cs.take();
            let o = env.cs.s.ask_once(&format!("vp_dec({}, T), {}(T), flush_output", t.enc_text(), if q { "writeq" } else { "write" }), "[]");
            if let Some(v) = outcome_problem(&o, "write reference") {
                return Err(v);
            }
            if !matches!(&o, Outcome::Sols(v) if v.len() == 1) {
                return Err(Verdict::Discard("write-reference-failed".into()));
            }
            let Ok(reference) = String::from_utf8(env.cs.take()) else { return Err(Verdict::Discard("write-reference-not-utf8".into())) };
            if obs != reference {
                return bad(if q { "text:~q" } else { "text:~w" }, &short(&reference));
            }
        }
        Item::D { n, k, v } => {
            let nn = n.val(0);
            let e = model_d(nn, *k, v);
            if obs != e {
                if is_neg(v) && obs == sign_as_digit_d(nn, *k, v) {
                    let nd = iabs(v).to_string().len() as u32;
                    if nn > 0 && nd <= nn {
                        if tolerated("text-sign-counted-as-digit:Nd-padding") {
                            return Ok(());
                        }
                        return bad("text-sign-counted-as-digit:Nd-padding", &short(&e));
                    }
                    if *k != 'd' {
                        if tolerated("text-sign-counted-as-digit:DU-grouping") {
                            return Ok(());
                        }
                        return bad("text-sign-counted-as-digit:DU-grouping", &short(&e));
                    }
                }
                return bad(&format!("text:~{}{k}", if nn > 0 { "N" } else { "" }), &short(&e));
            }
        }
        Item::L { n, v } => {
            if let Err(why) = judge_l(n.val(0), v, obs) {
                return bad("text:~L", &why);
            }
        }
        Item::R { n, up, v } => {
            let e = model_radix(n.val(8), *up, v);
            if obs != e {
                return bad(if *up { "text:~R" } else { "text:~r" }, &short(&e));
            }
        }
        Item::F { n, v } => {
            if let Err(why) = judge_f(n.val(6), v, obs) {
                return bad("text:~f", &why);
            }
        }
        _ => {}
    }
    Ok(())
}

pub fn check(env: &mut Env, case: &Case) -> Verdict {
    let items = &case.items;
    if items.iter().any(|it| matches!(it, Item::Col(NArg::Omit) | Item::Plus(NArg::Omit))) {
        return Verdict::Discard("undocumented-omitted-column".into());
    }
    if items.iter().any(|it| matches!(it, Item::F { v: FArg::In(i), .. } if bit_len(i) > 1000)) {
        return Verdict::Discard("~f-integer-beyond-float-range".into());
    }
    HAS_F_2POW55.with(|c| c.set(items.iter().any(|it| matches!(it, Item::F { v: FArg::Fl(f), .. } if f.abs() == 36028797018963968.0))));
    // build format string and argument list
    let mut fs = String::new();
    let mut args: Vec<T> = vec![];
    let mut pairs: Vec<T> = vec![];
    let mut single_idx: Vec<usize> = vec![];
    for (i, it) in items.iter().enumerate() {
        let (f, a) = it.frag();
        fs.push_str(&f);
        args.extend(a.clone());
        if it.single() {
            pairs.push(term::cmp("-", vec![T::Str(f), term::list(a)]));
            single_idx.push(i);
        }
    }
    let mut adj_kind: Option<&str> = None;
    match &case.adj {
        Adj::None => {}
        Adj::DropLast => {
            if !args.is_empty() {
                args.pop();
                adj_kind = Some("too-few-arguments");
            }
        }
        Adj::Extra(t) => {
            args.push(t.clone());
            adj_kind = Some("too-many-arguments");
        }
    }
    let bad_kinds: Vec<String> = items.iter().filter(|it| it.is_bad()).map(|it| it.kind()).collect();
    let expect_err = adj_kind.is_some() || !bad_kinds.is_empty();
    let err_kind = bad_kinds.first().cloned().or(adj_kind.map(|s| s.to_string())).unwrap_or_default();
    let float_args: Vec<T> = args.iter().filter(|a| matches!(a, T::Float(_))).cloned().collect();

    // path A: the pure nonterminal, whole string and every directive on its own
    let enc = term::list(vec![T::Str(fs.clone()), term::list(args.clone()), term::list(pairs), term::list(float_args.clone())]).enc_text();
    let o = env.cs.s.ask_once(&format!("vp_dec({enc}, [Fs, Args, Pairs, Fl]), c36_run(Fs, Args, Pairs, Rr)"), "Rr-Fl");
    if let Some(v) = outcome_problem(&o, &format!("format_({}, ..)", short(&fs))) {
        return v;
    }
    let (whole, each) = match &o {
        Outcome::Sols(v) if v.len() == 1 => match &v[0] {
            T::Cmp(m, a) if m == "-" && a.len() == 2 => {
                // floats must have crossed the boundary bit-exactly
                let back = items_of(&a[1]).unwrap_or_default();
                if back.len() != float_args.len() || !back.iter().zip(&float_args).all(|(x, y)| x.eq_struct(y)) {
                    return Verdict::Discard("float-transport".into());
                }
                match &a[0] {
                    T::Cmp(r, ra) if r == "r" && ra.len() == 2 => {
                        let Some(w) = decode_res(&ra[0]) else { return Verdict::Discard("harness:undecodable-whole".into()) };
                        let Some(es) = items_of(&ra[1]) else { return Verdict::Discard("harness:undecodable-each".into()) };
                        let es: Option<Vec<Res>> = es.iter().map(decode_res).collect();
                        let Some(es) = es else { return Verdict::Discard("harness:undecodable-each".into()) };
                        (w, es)
                    }
                    _ => return Verdict::Discard("harness:shape".into()),
                }
            }
            _ => return Verdict::Discard("harness:shape".into()),
        },
        other => return Verdict::Discard(format!("harness:c36_run {}", other.short().chars().take(60).collect::<String>())),
    };
    if each.len() != single_idx.len() {
        return Verdict::Discard("harness:each-length".into());
    }

    // every directive on its own
    let mut texts: Vec<Option<String>> = vec![None; items.len()];
    for (r, &i) in each.iter().zip(&single_idx) {
        let it = &items[i];
        let (f, a) = it.frag();
        let show = || format!("format_({}, [{}])", short(&f), a.iter().map(|x| x.text()).collect::<Vec<_>>().join(","));
        if it.is_bad() {
            match r {
                Res::Ex(b) if is_error_ball(b) => {}
                Res::Ex(b) => return Verdict::fail(format!("non-error-ball:{}", it.kind()), format!("{} threw {}", show(), b.text())),
                Res::Failed => return Verdict::fail(format!("no-error:{}:failed", it.kind()), format!("{} failed silently, an error is required", show())),
                Res::Ok(s) => return Verdict::fail(format!("no-error:{}", it.kind()), format!("{} produced {} instead of raising an error", show(), short(s))),
            }
        } else {
            match r {
                Res::Ok(s) => {
                    if let Err(v) = judge_item(env, it, s) {
                        return v;
                    }
                    texts[i] = Some(s.clone());
                }
                Res::Failed => return Verdict::fail(format!("unexpected-failure:{}", it.kind()), format!("{} failed", show())),
                Res::Ex(b) => return Verdict::fail(format!("unexpected-error:{}", it.kind()), format!("{} raised {}", show(), b.text())),
            }
        }
    }

    // the whole string
    let show_whole = || format!("format_({}, [{}])", short(&fs), args.iter().map(|x| x.text()).collect::<Vec<_>>().join(","));
    let mut comp_stats = (0u32, 0u32, 0u32);
    let whole_text: Option<String> = if expect_err {
        match &whole {
            Res::Ex(b) if is_error_ball(b) => None,
            Res::Ex(b) => return Verdict::fail(format!("non-error-ball:whole:{err_kind}"), format!("{} threw {}", show_whole(), b.text())),
            Res::Failed => return Verdict::fail(format!("no-error:whole:{err_kind}:failed"), format!("{} failed silently, an error is required", show_whole())),
            Res::Ok(s) => return Verdict::fail(format!("no-error:whole:{err_kind}"), format!("{} produced {} instead of raising an error", show_whole(), short(s))),
        }
    } else {
        match &whole {
            Res::Ok(s) => {
                let c = compose(items, &texts);
                let chars: Vec<char> = s.chars().collect();
                if !match_toks(&c.toks, &chars) {
                    let mode = if c.loose_cells > 0 { "loose" } else if c.exact_cells > 0 { "columns" } else { "concat" };
                    return Verdict::fail(format!("compose:{mode}"), format!("{} gave {} which is not the documented composition {:?}", show_whole(), short(s), c.toks.iter().take(12).collect::<Vec<_>>()));
                }
                comp_stats = (c.exact_cells, c.loose_cells, c.multi_fill);
                Some(s.clone())
            }
            Res::Failed => return Verdict::fail("unexpected-failure:whole", format!("{} failed", show_whole())),
            Res::Ex(b) => {
                // open finding: `~|` re-runs the goals of the pending ~w/~q elements, whose second
                // write_term_to_chars/3 call finds its output argument bound
                let formal_is_uninst = matches!(b, T::Cmp(n, a) if n == "error" && a.len() == 2 && matches!(&a[0], T::Cmp(f, _) if f == "uninstantiation_error"));
                if formal_is_uninst && colhere_after_write(items) {
                    if tolerated("colhere-after-write:uninstantiation_error") {
                        return Verdict::pass(true, &["known:colhere-after-write"]);
                    }
                    return Verdict::fail("colhere-after-write:uninstantiation_error", format!("{} raised {} although every directive alone succeeded", show_whole(), b.text()));
                }
                return Verdict::fail("unexpected-error:whole", format!("{} raised {} although every directive alone succeeded", show_whole(), b.text()));
            }
        }
    };

    // path B: format/2 onto the output stream
    let _ = env.cs.take();
    let enc2 = term::list(vec![T::Str(fs.clone()), term::list(args.clone())]).enc_text();
    let o = env.cs.s.ask_once(&format!("vp_dec({enc2}, [Fs, Args]), c36_stream(Fs, Args, Rr)"), "Rr");
    if let Some(v) = outcome_problem(&o, &format!("format({}, ..)", short(&fs))) {
        return v;
    }
    let out = env.cs.take();
    let r = match &o {
        Outcome::Sols(v) if v.len() == 1 => v[0].clone(),
        other => return Verdict::Discard(format!("harness:c36_stream {}", other.short().chars().take(60).collect::<String>())),
    };
    match (&whole_text, &r) {
        (None, T::Cmp(n, a)) if n == "ex" && a.len() == 1 && is_error_ball(&a[0]) => {
            if !out.is_empty() {
                return Verdict::fail(format!("error-output:stream:{err_kind}"), format!("format({}, ..) raised {} but wrote {}", short(&fs), a[0].text(), short(&String::from_utf8_lossy(&out))));
            }
        }
        (None, other) => return Verdict::fail(format!("no-error:stream:{err_kind}"), format!("format({}, ..) gave {} (output {}) instead of raising an error", short(&fs), other.text(), short(&String::from_utf8_lossy(&out)))),
        (Some(w), T::Atom(a)) if a == "ok" => {
            if out != w.as_bytes() {
                return Verdict::fail("stream-differs", format!("format({}, ..) wrote {} but format_//2 describes {}", short(&fs), short(&String::from_utf8_lossy(&out)), short(w)));
            }
        }
        (Some(_), other) => return Verdict::fail("stream-differs:outcome", format!("format({}, ..) gave {} although format_//2 succeeded", short(&fs), other.text())),
    }

    // path C: literal format string in a consulted clause (goal expansion / partial evaluation)
    if case.compiled {
        env.n += 1;
        let name = format!("c36c_{}", env.n);
        let vars: Vec<String> = (0..args.len()).map(|i| format!("V{i}")).collect();
        let prog = format!("{name}([{}], Cs) :- phrase(format_({}, [{}]), Cs).\n", vars.join(","), T::Str(fs.clone()).text(), vars.join(","));
        if !env.cs.s.consult(&prog, &name) {
            env.cs.s.poisoned = true;
            return Verdict::Discard("consult-rejected".into());
        }
        let enc3 = term::list(args.clone()).enc_text();
        let o = env.cs.s.ask_once(&format!("vp_dec({enc3}, Args), catch(({name}(Args, Cs) -> Rr = ok(Cs) ; Rr = failed), Ee, Rr = ex(Ee))"), "Rr");
        if let Some(v) = outcome_problem(&o, &format!("compiled format_({}, ..)", short(&fs))) {
            return v;
        }
        let r = match &o {
            Outcome::Sols(v) if v.len() == 1 => decode_res(&v[0]),
            _ => None,
        };
        let Some(r) = r else { return Verdict::Discard("harness:compiled-shape".into()) };
        match (&whole_text, &r) {
            (None, Res::Ex(b)) if is_error_ball(b) => {}
            (None, other) => return Verdict::fail(format!("no-error:compiled:{err_kind}"), format!("clause with literal format_({}, ..) gave {:?} instead of raising an error", short(&fs), other)),
            (Some(w), Res::Ok(s)) if s == w => {}
            (Some(w), other) => return Verdict::fail("compiled-differs", format!("clause with literal format_({}, [{}]) gave {:?} but the run-time call describes {}", short(&fs), args.iter().map(|x| x.text()).collect::<Vec<_>>().join(","), other, short(w))),
        }
    }

    // classes and the non-trivial rule
    let mut classes: Vec<String> = vec![];
    let mut nontrivial = expect_err;
    for it in items {
        classes.push(it.kind());
        match it {
            Item::D { n, v, .. } | Item::L { n, v } | Item::R { n, v, .. } => {
                if *n != NArg::Omit {
                    nontrivial = true;
                }
                if matches!(n, NArg::Star(_)) {
                    classes.push("star".into());
                }
                if is_neg(v) {
                    nontrivial = true;
                    classes.push("negative".into());
                }
                if bit_len(v) > 55 {
                    nontrivial = true;
                    classes.push("bignum".into());
                }
            }
            Item::F { n, v } => {
                if *n != NArg::Omit {
                    nontrivial = true;
                }
                if matches!(n, NArg::Star(_)) {
                    classes.push("star".into());
                }
                classes.push(if matches!(v, FArg::Fl(_)) { "f-float" } else { "f-integer" }.into());
            }
            Item::Nl(n) => {
                if *n != NArg::Omit {
                    nontrivial = true;
                }
            }
            Item::ColHere | Item::Col(_) | Item::Plus(_) => nontrivial = true,
            _ => {}
        }
    }
    classes.sort();
    classes.dedup();
    if expect_err {
        classes.push(format!("error:{err_kind}"));
    }
    if comp_stats.0 > 0 {
        classes.push("columns-exact".into());
    }
    if comp_stats.1 > 0 {
        classes.push("columns-loose".into());
    }
    if comp_stats.2 > 0 {
        classes.push("columns-multi-fill".into());
    }
    if case.compiled {
        classes.push("compiled-path".into());
    }
    let cl: Vec<&str> = classes.iter().map(|s| s.as_str()).collect();
    Verdict::pass(nontrivial, &cl)
}

pub struct C36;

impl Prop for C36 {
    fn id(&self) -> &'static str {
        "C36"
    }
    fn rule(&self) -> &'static str {
        "format strings of 1-8 items over literal text and every documented directive (~w ~q ~a ~s ~d ~Nd ~ND ~NU ~NL ~f ~Nf ~Nr ~NR ~n ~Nn ~i ~~ ~t ~`Ct ~| ~N| ~N+, N in {omitted,0,1,2,3,7,20,72,*}) with matching arguments (ground terms, atoms, strings, boundary-biased integers incl. bignums and negatives, any finite float), column layouts of 1-4 cells with 0-4 texts/fill points per cell incl. overflowing texts, and error cases (undocumented letter, ill-typed argument, radix outside 2..36, one argument too few/too many); each directive is evaluated alone and judged against the doc table, the whole string against the composition of those texts under the column rules, through phrase(format_//2), format/2 onto a captured stream and (1/4 of cases) a consulted clause with a literal format string; non-trivial = a directive with a numeric argument or a column stop, a bignum/negative argument, or an error case; distinct by case encoding"
    }
    fn assumptions(&self) -> Vec<String> {
        vec![
            "~w/~q are compared with write/1 and writeq/1 of the same machine (the printer is C15/C55's subject)".into(),
            "~Nf: accepted = canonical decimal with N fraction digits within 10^-N/2 + |F|*2^-51 of the argument (either tie direction), exact for integers; for N = 0 the forms '3', '3.' and '3.0' are all accepted (the library deliberately prints '3.0', the docs say 'N digits after the decimal point')".into(),
            "~NL: accepted = the decimal numeral cut into non-empty lines of at most N digits, optional '_' continuation mark before each newline (docs only promise 'at most N digits on a line')".into(),
            "columns: exact while every cell so far on the line ended exactly at its stop; pads distributed with each fill point getting at least floor(space/k) (the docs do not say where the remainder goes); after an overflowing text or a stop without fill point only 'same texts in order, pads of the fill character' is asserted".into(),
            "~a with a number is treated as ill-typed (docs: 'must be an atom'); ~+ and ~| with N omitted are only generated in the documented forms (~N+ always with N)".into(),
            "arguments reach Prolog through vp_dec/2 (code lists), floats are echoed back and compared bit-for-bit".into(),
        ]
    }
    fn run_shard(&self, cfg: &ShardCfg) -> ShardResult {
        let mut d = Driver::new(cfg, "C36");
        let n = cfg.share(cfg.tier.pick(40_000, 2_000_000));
        tolerate_on(true);
        d.run("fmt", 0, n, 400, case_strategy(), &mk_env, &check);
        tolerate_on(false);
        drain_tolerated(&mut d.res.excluded_known);
        d.finish()
    }
    fn replay(&self, _kind: &str, case: &Value) -> Verdict {
        replay_case::<Case, Env>(case, &mk_env, &check)
    }
}
