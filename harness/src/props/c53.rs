//! C53 — library(ugraphs) results match graph-theoretic definitions.
//!
//! Model: a graph is a set of vertices (ranks in the standard order of a per-case universe of
//! vertex terms) and a set of directed edges between them; every predicate's result must be the
//! canonical S-representation (vertices in standard order, each with its sorted neighbour set) of
//! the graph its definition / doc comment in src/lib/ugraphs.pl describes.
use crate::engine::*;
use crate::gen::pick;
use crate::session::{Outcome, Session};
use crate::term::{atom, cmp, int, list, std_cmp, T};
use proptest::prelude::*;
use serde::{Deserialize, Serialize};
use serde_json::Value;
use std::collections::BTreeSet;

type VSet = BTreeSet<usize>;
type ESet = BTreeSet<(usize, usize)>;

#[derive(Clone, Debug, Serialize, Deserialize)]
pub struct Case {
    /// distinct vertex terms; vertices are referred to by index into this list
    pub universe: Vec<T>,
    pub verts: Vec<u8>,
    pub edges: Vec<(u8, u8)>,
    pub verts2: Vec<u8>,
    pub edges2: Vec<(u8, u8)>,
    /// vertex-list argument of add_vertices/del_vertices (duplicates, vertices not in the graph)
    pub arg_verts: Vec<u8>,
    /// edge-list argument of add_edges/del_edges
    pub arg_edges: Vec<(u8, u8)>,
    pub probe: u8,
}

fn pool() -> Vec<T> {
    vec![
        int(1),
        int(2),
        int(3),
        int(4),
        int(5),
        int(-1),
        int(0),
        int(10),
        // no one-character atoms: a list literal that starts with characters and continues with other
        // terms (e.g. [a,1]) is built by the reader as a partial string with a list tail, which sort/2,
        // keysort/2 reject with type_error(list, ..) (defect of MachineState::try_from_partial_string,
        // outside library(ugraphs); reported separately)
        atom("aa"),
        atom("bb"),
        atom("cc"),
        atom("[]"),
        atom("Bb"),
        cmp("f", vec![atom("aa")]),
        cmp("f", vec![atom("bb")]),
        cmp("g", vec![int(1), atom("aa")]),
        cmp("-", vec![atom("aa"), atom("bb")]),
        cmp("-", vec![int(1), list(vec![int(2)])]),
        list(vec![int(1)]),
        T::Str("ab".into()),
        int(36028797018963968i64),
    ]
}

fn universe_strategy() -> BoxedStrategy<Vec<T>> {
    let p = pool();
    let n = p.len();
    prop_oneof![
        // plain small integers (the shape of the documentation's examples)
        3 => (1usize..=8).prop_map(|k| (1..=k as i64).map(int).collect::<Vec<T>>()),
        // mixed vertex terms
        5 => proptest::collection::vec(any::<u16>(), 1..=8).prop_map(move |ks| {
            let mut out: Vec<T> = vec![];
            for k in ks {
                let t = pick(&p, k);
                if !out.iter().any(|x| x.identical(&t)) {
                    out.push(t);
                }
            }
            let _ = n;
            out
        }),
    ]
    .boxed()
}

pub fn case_strategy() -> BoxedStrategy<Case> {
    let e = || proptest::collection::vec((0u8..8, 0u8..8), 0..=12);
    let v = || proptest::collection::vec(0u8..8, 0..=6);
    (universe_strategy(), v(), e(), v(), e(), v(), proptest::collection::vec((0u8..8, 0u8..8), 0..=6), 0u8..8, any::<u8>())
        .prop_map(|(universe, verts, edges, verts2, edges2, arg_verts, arg_edges, probe, shape)| {
            let n = universe.len() as u8;
            let m = |x: u8| x % n;
            let me = |v: Vec<(u8, u8)>| v.into_iter().map(|(a, b)| (a % n, b % n)).collect::<Vec<_>>();
            let mut edges = me(edges);
            // shape bias: DAGs (edges forward in index order), sparse graphs
            match shape % 4 {
                0 => edges = edges.into_iter().filter(|(a, b)| a != b).map(|(a, b)| if a < b { (a, b) } else { (b, a) }).collect(),
                1 => edges.truncate(3),
                _ => {}
            }
            let verts: Vec<u8> = verts.into_iter().map(m).collect();
            let mut arg_verts: Vec<u8> = arg_verts.into_iter().map(m).collect();
            // most vertex-list arguments are duplicate-free and inside the graph (the two known
            // defects of add_vertices/del_vertices need a duplicate / an outside vertex)
            if (shape >> 2) % 4 != 0 {
                let mut seen = vec![];
                arg_verts.retain(|x| if seen.contains(x) { false } else { seen.push(*x); true });
            }
            if (shape >> 4) % 4 != 0 {
                arg_verts.retain(|x| verts.contains(x) || edges.iter().any(|(a, b)| a == x || b == x));
            }
            Case {
                universe,
                verts,
                edges,
                verts2: verts2.into_iter().map(m).collect(),
                edges2: me(edges2),
                arg_verts,
                arg_edges: me(arg_edges),
                probe: probe % n,
            }
        })
        .boxed()
}

pub struct Env {
    pub s: Session,
}

pub fn mk_env() -> Env {
    Env { s: Session::new(&["ugraphs"]) }
}

/// the model of one graph
#[derive(Clone, Debug, PartialEq)]
struct G {
    v: VSet,
    e: ESet,
}

impl G {
    fn new(verts: &[usize], edges: &[(usize, usize)]) -> G {
        let mut v: VSet = verts.iter().cloned().collect();
        let e: ESet = edges.iter().cloned().collect();
        for (a, b) in &e {
            v.insert(*a);
            v.insert(*b);
        }
        G { v, e }
    }
    fn succ(&self, x: usize) -> Vec<usize> {
        self.e.iter().filter(|(a, _)| *a == x).map(|(_, b)| *b).collect()
    }
    /// paths of length >= 1
    fn closure(&self) -> ESet {
        let mut e = self.e.clone();
        loop {
            let mut add = vec![];
            for (a, b) in &e {
                for (c, d) in &e {
                    if b == c && !e.contains(&(*a, *d)) {
                        add.push((*a, *d));
                    }
                }
            }
            if add.is_empty() {
                return e;
            }
            e.extend(add);
        }
    }
    fn cyclic(&self) -> bool {
        self.closure().iter().any(|(a, b)| a == b)
    }
    fn components(&self) -> usize {
        // weakly connected components
        let mut comp: Vec<usize> = self.v.iter().cloned().collect();
        let idx = |x: usize, comp: &Vec<usize>| comp.iter().position(|y| *y == x).unwrap();
        let vs: Vec<usize> = comp.clone();
        let mut label: Vec<usize> = (0..vs.len()).collect();
        let mut changed = true;
        while changed {
            changed = false;
            for (a, b) in &self.e {
                let (ia, ib) = (idx(*a, &vs), idx(*b, &vs));
                let m = label[ia].min(label[ib]);
                if label[ia] != m || label[ib] != m {
                    label[ia] = m;
                    label[ib] = m;
                    changed = true;
                }
            }
        }
        comp.clear();
        let set: BTreeSet<usize> = label.into_iter().collect();
        set.len()
    }
}

struct Ctx {
    /// universe sorted in standard order: rank -> term
    terms: Vec<T>,
}

impl Ctx {
    fn vt(&self, r: usize) -> T {
        self.terms[r].clone()
    }
    fn vlist(&self, rs: &[usize]) -> T {
        list(rs.iter().map(|r| self.vt(*r)).collect())
    }
    fn edge(&self, a: usize, b: usize) -> T {
        cmp("-", vec![self.vt(a), self.vt(b)])
    }
    fn elist(&self, es: &[(usize, usize)]) -> T {
        list(es.iter().map(|(a, b)| self.edge(*a, *b)).collect())
    }
    fn srep(&self, g: &G) -> T {
        list(g.v.iter().map(|x| cmp("-", vec![self.vt(*x), self.vlist(&g.succ(*x))])).collect())
    }
}

fn one(o: &Outcome) -> Option<&T> {
    match o {
        Outcome::Sols(v) if v.len() == 1 => Some(&v[0]),
        _ => None,
    }
}

fn expect_term(env: &mut Env, pred: &str, goal: &str, want: &T) -> Option<Verdict> {
    let o = env.s.ask(goal, "Res");
    match &o {
        Outcome::Panic(m) => Some(Verdict::fail(format!("panic:{}", m.split_whitespace().next().unwrap_or("?")), format!("{goal} panicked: {m}"))),
        Outcome::Harness(m) => Some(Verdict::Discard(format!("harness:{}", m.chars().take(40).collect::<String>()))),
        _ => match one(&o) {
            Some(t) if t.identical(want) => None,
            Some(_) => Some(Verdict::fail(format!("wrong-result:{pred}"), format!("{goal} gave {} expected {}", o.short(), want.norm().text()))),
            None => {
                let class = match &o {
                    Outcome::Sols(v) if v.is_empty() => "unexpected-failure",
                    Outcome::Sols(_) => "not-deterministic",
                    _ => "unexpected-error",
                };
                Some(Verdict::fail(format!("{class}:{pred}"), format!("{goal} gave {} expected the single answer {}", o.short(), want.norm().text())))
            }
        },
    }
}

fn expect_fail(env: &mut Env, pred: &str, goal: &str) -> Option<Verdict> {
    let o = env.s.ask(goal, "Res");
    match &o {
        Outcome::Panic(m) => Some(Verdict::fail(format!("panic:{}", m.split_whitespace().next().unwrap_or("?")), format!("{goal} panicked: {m}"))),
        Outcome::Harness(m) => Some(Verdict::Discard(format!("harness:{}", m.chars().take(40).collect::<String>()))),
        Outcome::Sols(v) if v.is_empty() => None,
        _ => Some(Verdict::fail(format!("unexpected-success:{pred}"), format!("{goal} gave {} expected failure", o.short()))),
    }
}

fn as_items(t: &T) -> Option<Vec<T>> {
    match t {
        T::PList(items, tail) if tail.is_nil() => Some(items.clone()),
        t if t.is_nil() => Some(vec![]),
        _ => None,
    }
}

pub fn check(env: &mut Env, c: &Case) -> Verdict {
    if c.universe.is_empty() {
        return Verdict::Discard("empty-universe".into());
    }
    // ranks in standard order
    let mut order: Vec<usize> = (0..c.universe.len()).collect();
    order.sort_by(|a, b| std_cmp(&c.universe[*a], &c.universe[*b]));
    let mut rank = vec![0usize; c.universe.len()];
    for (r, i) in order.iter().enumerate() {
        rank[*i] = r;
    }
    let cx = Ctx { terms: order.iter().map(|i| c.universe[*i].clone()).collect() };
    let rk = |x: u8| rank[x as usize % c.universe.len()];
    let verts: Vec<usize> = c.verts.iter().map(|x| rk(*x)).collect();
    let edges: Vec<(usize, usize)> = c.edges.iter().map(|(a, b)| (rk(*a), rk(*b))).collect();
    let verts2: Vec<usize> = c.verts2.iter().map(|x| rk(*x)).collect();
    let edges2: Vec<(usize, usize)> = c.edges2.iter().map(|(a, b)| (rk(*a), rk(*b))).collect();
    let arg_verts: Vec<usize> = c.arg_verts.iter().map(|x| rk(*x)).collect();
    let arg_edges: Vec<(usize, usize)> = c.arg_edges.iter().map(|(a, b)| (rk(*a), rk(*b))).collect();
    let probe = rk(c.probe);

    let g = G::new(&verts, &edges);
    let g2 = G::new(&verts2, &edges2);
    let gt = cx.srep(&g).text();
    let g2t = cx.srep(&g2).text();

    // a known finding seen in this case (tolerated in the oracle so that the other predicates are still checked)
    let mut known_seen: Option<Verdict> = None;
    macro_rules! must {
        ($e:expr) => {
            if let Some(v) = $e {
                return v;
            }
        };
    }

    // vertices_edges_to_ugraph/3: raw vertex and edge lists (duplicates, any order)
    must!(expect_term(env, "vertices_edges_to_ugraph", &format!("vertices_edges_to_ugraph({}, {}, Res)", cx.vlist(&verts).text(), cx.elist(&edges).text()), &cx.srep(&g)));
    // vertices/2, edges/2
    must!(expect_term(env, "vertices", &format!("vertices({gt}, Res)"), &cx.vlist(&g.v.iter().cloned().collect::<Vec<_>>())));
    must!(expect_term(env, "edges", &format!("edges({gt}, Res)"), &cx.elist(&g.e.iter().cloned().collect::<Vec<_>>())));
    // add_vertices/3
    {
        let mut w = g.clone();
        w.v.extend(arg_verts.iter().cloned());
        let goal = format!("add_vertices({gt}, {}, Res)", cx.vlist(&arg_verts).text());
        let mut verdict = expect_term(env, "add_vertices", &goal, &cx.srep(&w));
        if let Some(Verdict::Fail { signature, .. }) = &verdict {
            // root cause class of a known defect: a vertex listed twice in the argument is added twice
            // (msort_/2 keeps duplicates); recognised only when removing repeated entries gives the model's graph
            let has_dup = {
                let mut seen = VSet::new();
                arg_verts.iter().any(|x| !seen.insert(*x))
            };
            if signature == "wrong-result:add_vertices" && has_dup {
                let o = env.s.ask(&goal, "Res");
                if let Some(items) = one(&o).and_then(as_items) {
                    // keep the first entry of every vertex
                    let key = |t: &T| match t {
                        T::Cmp(n, kv) if n == "-" && kv.len() == 2 => kv[0].clone(),
                        other => other.clone(),
                    };
                    let mut dedup: Vec<T> = vec![];
                    for it in items {
                        if !dedup.last().map(|l: &T| key(l).identical(&key(&it))).unwrap_or(false) {
                            dedup.push(it);
                        }
                    }
                    if list(dedup).identical(&cx.srep(&w)) {
                        let v = Verdict::fail("duplicate-vertex:add_vertices", format!("{goal} gave {} expected {} (a vertex that occurs twice in the argument list is entered twice)", o.short(), cx.srep(&w).norm().text()));
                        if is_known_open("duplicate-vertex:add_vertices") {
                            known_seen = known_seen.or(Some(v));
                            verdict = None;
                        } else {
                            verdict = Some(v);
                        }
                    }
                }
            }
        }
        must!(verdict);
    }
    // del_vertices/3: the vertices and every edge from or to them disappear
    {
        let del: VSet = arg_verts.iter().cloned().collect();
        let w = G { v: g.v.difference(&del).cloned().collect(), e: g.e.iter().filter(|(a, b)| !del.contains(a) && !del.contains(b)).cloned().collect() };
        let goal = format!("del_vertices({gt}, {}, Res)", cx.vlist(&arg_verts).text());
        let mut verdict = expect_term(env, "del_vertices", &goal, &cx.srep(&w));
        if matches!(&verdict, Some(Verdict::Fail { signature, .. }) if signature == "wrong-result:del_vertices") {
            // root cause class of a known defect: a listed vertex survives (with its remaining edges) when a
            // smaller listed vertex that is not in the graph precedes it; recognised only when dropping the
            // surviving listed vertices gives the model's graph
            let o = env.s.ask(&goal, "Res");
            if let Some(items) = one(&o).and_then(as_items) {
                let is_deleted = |t: &T| match t {
                    T::Cmp(n, kv) if n == "-" && kv.len() == 2 => del.iter().any(|d| cx.vt(*d).identical(&kv[0])),
                    _ => false,
                };
                let survivors = items.iter().filter(|t| is_deleted(t)).count();
                let rest: Vec<T> = items.into_iter().filter(|t| !is_deleted(t)).collect();
                if survivors > 0 && list(rest).identical(&cx.srep(&w)) {
                    let v = Verdict::fail("vertex-survives:del_vertices", format!("{goal} gave {} expected {} (a vertex of the list is not deleted)", o.short(), cx.srep(&w).norm().text()));
                    if is_known_open("vertex-survives:del_vertices") {
                        known_seen = known_seen.or(Some(v));
                        verdict = None;
                    } else {
                        verdict = Some(v);
                    }
                }
            }
        }
        must!(verdict);
    }
    // add_edges/3 (end points become vertices), del_edges/3 (no vertex is deleted)
    {
        let mut w = g.clone();
        for (a, b) in &arg_edges {
            w.e.insert((*a, *b));
            w.v.insert(*a);
            w.v.insert(*b);
        }
        must!(expect_term(env, "add_edges", &format!("add_edges({gt}, {}, Res)", cx.elist(&arg_edges).text()), &cx.srep(&w)));
        let mut w = g.clone();
        for e in &arg_edges {
            w.e.remove(e);
        }
        must!(expect_term(env, "del_edges", &format!("del_edges({gt}, {}, Res)", cx.elist(&arg_edges).text()), &cx.srep(&w)));
    }
    // neighbours/3, neighbors/3
    for pred in ["neighbours", "neighbors"] {
        let goal = format!("{pred}({}, {gt}, Res)", cx.vt(probe).text());
        if g.v.contains(&probe) {
            must!(expect_term(env, pred, &goal, &cx.vlist(&g.succ(probe))));
        } else {
            must!(expect_fail(env, pred, &goal));
        }
    }
    // transpose_ugraph/2 and its involution
    {
        let w = G { v: g.v.clone(), e: g.e.iter().map(|(a, b)| (*b, *a)).collect() };
        must!(expect_term(env, "transpose_ugraph", &format!("transpose_ugraph({gt}, Res)"), &cx.srep(&w)));
        must!(expect_term(env, "transpose_ugraph", &format!("transpose_ugraph({gt}, R0), transpose_ugraph(R0, Res)"), &cx.srep(&g)));
    }
    // compose/3: x-z iff x-y in G1 and y-z in G2; vertices of both
    {
        let mut w = G { v: g.v.union(&g2.v).cloned().collect(), e: ESet::new() };
        for (a, b) in &g.e {
            for (c2, d) in &g2.e {
                if b == c2 {
                    w.e.insert((*a, *d));
                }
            }
        }
        must!(expect_term(env, "compose", &format!("compose({gt}, {g2t}, Res)"), &cx.srep(&w)));
    }
    // ugraph_union/3
    {
        let w = G { v: g.v.union(&g2.v).cloned().collect(), e: g.e.union(&g2.e).cloned().collect() };
        must!(expect_term(env, "ugraph_union", &format!("ugraph_union({gt}, {g2t}, Res)"), &cx.srep(&w)));
    }
    // transitive_closure/2: paths of length >= 1 (the doc example: 1-[2,3] does not get 1)
    {
        let w = G { v: g.v.clone(), e: g.closure() };
        must!(expect_term(env, "transitive_closure", &format!("transitive_closure({gt}, Res)"), &cx.srep(&w)));
    }
    // reachable/3: "including Vertex"
    if g.v.contains(&probe) {
        let cl = g.closure();
        let mut r: VSet = cl.iter().filter(|(a, _)| *a == probe).map(|(_, b)| *b).collect();
        r.insert(probe);
        must!(expect_term(env, "reachable", &format!("reachable({}, {gt}, Res)", cx.vt(probe).text()), &cx.vlist(&r.into_iter().collect::<Vec<_>>())));
    }
    // complement/2: an edge between all vertices that are not connected, no self loops
    {
        let mut w = G { v: g.v.clone(), e: ESet::new() };
        for a in &g.v {
            for b in &g.v {
                if a != b && !g.e.contains(&(*a, *b)) {
                    w.e.insert((*a, *b));
                }
            }
        }
        must!(expect_term(env, "complement", &format!("complement({gt}, Res)"), &cx.srep(&w)));
    }
    // top_sort/2: any valid topological order; fails iff the graph has a cycle.
    // top_sort/3: difference-list version (which of the two list arguments is the open tail is
    // not documented: either is accepted)
    let cyclic = g.cyclic();
    for arity in [2, 3] {
        let goal = if arity == 2 { format!("top_sort({gt}, Res)") } else { format!("top_sort({gt}, A, B), Res = A-B") };
        let pred = if arity == 2 { "top_sort" } else { "top_sort3" };
        if cyclic {
            must!(expect_fail(env, pred, &goal));
            continue;
        }
        let o = env.s.ask(&goal, "Res");
        if let Outcome::Panic(m) = &o {
            return Verdict::fail(format!("panic:{}", m.split_whitespace().next().unwrap_or("?")), format!("{goal} panicked: {m}"));
        }
        let Some(r) = one(&o) else {
            let class = match &o {
                Outcome::Sols(v) if v.is_empty() => "unexpected-failure",
                Outcome::Sols(_) => "not-deterministic",
                _ => "unexpected-error",
            };
            return Verdict::fail(format!("{class}:{pred}"), format!("{goal} gave {} but the graph is acyclic", o.short()));
        };
        let items: Option<Vec<T>> = if arity == 2 {
            as_items(r)
        } else {
            match r {
                T::Cmp(n, ab) if n == "-" && ab.len() == 2 => match (&ab[0], &ab[1]) {
                    (T::Var(v), T::PList(items, tail)) | (T::PList(items, tail), T::Var(v)) if matches!(**tail, T::Var(w) if w == *v) => Some(items.clone()),
                    (T::Var(v), T::Var(w)) if v == w => Some(vec![]),
                    _ => None,
                },
                _ => None,
            }
        };
        let valid = match &items {
            Some(items) => {
                let pos = |x: usize| items.iter().position(|t| t.identical(&cx.vt(x)));
                items.len() == g.v.len() && g.v.iter().all(|x| pos(*x).is_some()) && g.e.iter().all(|(a, b)| pos(*a) < pos(*b))
            }
            None => false,
        };
        if !valid {
            return Verdict::fail(format!("wrong-result:{pred}"), format!("{goal} gave {} which is not a topological order of the vertices", o.short()));
        }
    }
    // connect_ugraph/3: Start is before every vertex and has an edge to every vertex
    {
        let goal = format!("connect_ugraph({gt}, S, G1), Res = S-G1");
        let o = env.s.ask(&goal, "Res");
        if let Outcome::Panic(m) = &o {
            return Verdict::fail(format!("panic:{}", m.split_whitespace().next().unwrap_or("?")), format!("{goal} panicked: {m}"));
        }
        let ok = match one(&o) {
            Some(T::Cmp(n, sg)) if n == "-" && sg.len() == 2 => {
                let (s, g1) = (&sg[0], &sg[1]);
                if g.v.is_empty() {
                    g1.is_nil()
                } else {
                    let all: Vec<usize> = g.v.iter().cloned().collect();
                    let mut want = vec![cmp("-", vec![s.clone(), cx.vlist(&all)])];
                    if let Some(items) = as_items(&cx.srep(&g)) {
                        want.extend(items);
                    }
                    s.is_ground() && std_cmp(s, &cx.vt(all[0])) == std::cmp::Ordering::Less && g1.identical(&list(want))
                }
            }
            _ => false,
        };
        if !ok {
            return Verdict::fail("wrong-result:connect_ugraph", format!("{goal} gave {}", o.short()));
        }
    }

    if let Some(v) = known_seen {
        return v;
    }
    let mut classes: Vec<&str> = vec![];
    let comps = g.components();
    if cyclic {
        classes.push("cyclic");
    } else {
        classes.push("dag");
    }
    if g.e.iter().any(|(a, b)| a == b) {
        classes.push("self-loop");
    }
    if comps >= 2 {
        classes.push("disconnected");
    }
    if g.v.is_empty() {
        classes.push("empty-graph");
    }
    if g.v.iter().any(|x| g.succ(*x).is_empty() && !g.e.iter().any(|(_, b)| b == x)) {
        classes.push("isolated-vertex");
    }
    if cx.terms.iter().any(|t| !matches!(t, T::Int(_))) {
        classes.push("mixed-vertex-terms");
    }
    if cx.terms.iter().any(|t| matches!(t, T::Cmp(n, _) if n == "-")) {
        classes.push("pair-as-vertex");
    }
    {
        let mut seen = VSet::new();
        if arg_verts.iter().any(|x| !seen.insert(*x)) {
            classes.push("duplicate-vertex-arg");
        }
        if arg_verts.iter().any(|x| !g.v.contains(x)) {
            classes.push("arg-vertex-not-in-graph");
        }
    }
    match g.v.len() {
        0..=3 => classes.push("size-0-3"),
        4..=6 => classes.push("size-4-6"),
        _ => classes.push("size-7-8"),
    }
    Verdict::pass(g.v.len() >= 4 && (cyclic || comps >= 2), &classes)
}

pub struct C53;

impl Prop for C53 {
    fn id(&self) -> &'static str {
        "C53"
    }
    fn rule(&self) -> &'static str {
        "graphs of 0-8 vertices over a per-case universe of vertex terms (small integers as in the documentation, or a mix of integers, atoms incl. [], compounds, lists, pairs a-b, a bignum) with random edge lists (duplicates, self loops, cycles; 1/4 forced DAGs, 1/4 sparse), a second graph, a vertex-list and an edge-list argument with duplicates and vertices outside the graph, and a probe vertex; every exported predicate (vertices_edges_to_ugraph, vertices, edges, add_vertices, del_vertices, add_edges, del_edges, neighbours, neighbors, transpose_ugraph + involution, compose, ugraph_union, transitive_closure, reachable, complement, top_sort/2,3, connect_ugraph) is called on the canonical S-representation and its single answer compared with an adjacency-set model (top_sort: validity, failure iff cyclic); non-trivial = >= 4 vertices and a cycle or >= 2 weakly connected components; distinct by case encoding"
    }
    fn assumptions(&self) -> Vec<String> {
        vec![
            "standard order of the vertex terms as modelled by term::std_cmp (C13 checks scryer's compare/3 separately)".into(),
            "graph arguments are proper S-representations (every neighbour is a vertex), which is what the +Graph arguments document".into(),
            "transitive_closure = paths of length >= 1, reachable includes the start vertex, complement has no self loops (doc comments and their examples)".into(),
        ]
    }
    fn run_shard(&self, cfg: &ShardCfg) -> ShardResult {
        let mut d = Driver::new(cfg, "C53");
        let n = cfg.share(cfg.tier.pick(6_000, 300_000));
        d.run("graph", 0, n, 500, case_strategy(), &mk_env, &check);
        d.finish()
    }
    fn replay(&self, _kind: &str, case: &Value) -> Verdict {
        replay_case::<Case, Env>(case, &mk_env, &check)
    }
}
