//! C13 — compare/3 implements the standard order of terms.
use crate::engine::*;
use crate::gen::*;
use crate::props::c10;
use crate::session::{Outcome, Session};
use crate::shared::rtree::{Cmp3, G};
use crate::shared::tb;
use crate::term::{self, T};
use dashu::integer::IBig;
use proptest::prelude::*;
use serde::{Deserialize, Serialize};
use serde_json::Value;
use std::collections::HashMap;

const C13_PL: &str = include_str!("../../prolog/c13.pl");

#[derive(Clone, Debug, Serialize, Deserialize)]
pub struct Case {
    /// two terms (pair) or three (triple)
    pub ts: Vec<T>,
    /// reader text instead of tb_builds/2
    pub text: bool,
    /// constructor seed (0 = plain)
    pub seed: u64,
}

// ---------------------------------------------------------------------------------------------
// generators

const ALPHA: &[char] = &['a', 'b', 'A', 'z', 'é', 'λ', '日', '😀', '\0', ' ', '_', '1', '\u{7f}', '\u{80}', '\u{ffff}', '\u{10000}'];

fn alpha_string(max: usize) -> BoxedStrategy<String> {
    proptest::collection::vec(any::<u16>().prop_map(|k| pick(ALPHA, k)), 0..=max).prop_map(|v| v.into_iter().collect::<String>()).boxed()
}

/// atoms sharing a prefix (lengths straddle the 6-byte inline limit), differing in the suffix
fn atom_pair() -> BoxedStrategy<(T, T)> {
    (alpha_string(8), alpha_string(3), alpha_string(3), any::<bool>())
        .prop_map(|(base, s1, s2, wrap)| {
            let a = T::Atom(format!("{base}{s1}"));
            let b = T::Atom(format!("{base}{s2}"));
            if wrap {
                (term::cmp("w", vec![T::Var(0), a]), term::cmp("w", vec![T::Var(0), b]))
            } else {
                (a, b)
            }
        })
        .boxed()
}

fn num_of(v: &IBig, kind: u8) -> T {
    let fix = |t: T| match t.norm() {
        T::Rat(n, d) if d == IBig::ONE => T::Int(n),
        o => o,
    };
    match kind % 7 {
        0 => T::Int(v.clone()),
        1 => T::Int(v + IBig::ONE),
        2 => T::Int(v - IBig::ONE),
        3 => match crate::num::ibig_to_f64(v) {
            Some(f) if f.is_finite() => T::Float(f),
            _ => T::Int(v.clone()),
        },
        4 => fix(T::Rat(v * IBig::from(3) + IBig::ONE, IBig::from(3))),
        5 => fix(T::Rat(v * IBig::from(2), IBig::from(2))),
        _ => match crate::num::ibig_to_f64(v) {
            Some(f) if f.is_finite() => T::Float(f + 0.5),
            _ => T::Float(0.0),
        },
    }
}

/// numbers of equal / neighbouring value across the classes Float < Integer/Rational
fn number_pair() -> BoxedStrategy<(T, T)> {
    (int_strategy(), any::<u8>(), any::<u8>(), any::<bool>())
        .prop_map(|(v, k1, k2, wrap)| {
            let (a, b) = (num_of(&v, k1), num_of(&v, k2));
            if wrap {
                (term::list(vec![T::Atom("k".into()), a]), term::list(vec![T::Atom("k".into()), b]))
            } else {
                (a, b)
            }
        })
        .boxed()
}

fn float_pair() -> BoxedStrategy<(T, T)> {
    (float_strategy(), float_strategy(), any::<u8>())
        .prop_map(|(f, g, k)| match k % 4 {
            0 => (T::Float(f), T::Float(g)),
            1 => (T::Float(f), T::Float(-f)),
            2 => (T::Float(f), T::Float(f64::from_bits(f.to_bits() ^ 1))),
            _ => (T::Float(f), T::Float(f)),
        })
        .prop_filter("finite", |(a, b)| matches!((a, b), (T::Float(x), T::Float(y)) if x.is_finite() && y.is_finite()))
        .boxed()
}

/// compounds differing by arity, name or one argument
fn compound_pair() -> BoxedStrategy<(T, T)> {
    let cfg = c10::small_cfg(false);
    (alpha_string(4), proptest::collection::vec(term_strategy(cfg.clone()), 1..=4), any::<u8>(), any::<u16>(), term_strategy(cfg), alpha_string(2))
        .prop_map(|(name, args, kind, pos, r, suffix)| {
            let a = T::Cmp(name.clone(), args.clone());
            let k = (pos as usize * args.len()) >> 16;
            let b = match kind % 6 {
                0 => {
                    let mut x = args.clone();
                    x.push(r);
                    T::Cmp(name, x)
                }
                1 if args.len() > 1 => {
                    let mut x = args.clone();
                    x.remove(k);
                    T::Cmp(name, x)
                }
                2 => T::Cmp(format!("{name}{suffix}"), args.clone()),
                3 => {
                    let mut x = args.clone();
                    x[k] = r;
                    T::Cmp(name, x)
                }
                4 if args.len() == 2 => T::PList(vec![args[0].clone()], Box::new(args[1].clone())),
                _ => {
                    let mut x = args.clone();
                    x[k] = r;
                    T::Cmp(format!("{suffix}{name}"), x)
                }
            };
            (a, b)
        })
        .boxed()
}

/// strings / lists / partial strings / '.'/2 denoting the same or nearly the same list
fn string_pair() -> BoxedStrategy<(T, T)> {
    let txt = prop_oneof![2 => alpha_string(20), 2 => c10::string_text()];
    (txt, any::<u8>(), any::<u16>(), any::<u8>(), any::<u16>(), any::<u16>(), any::<u8>())
        .prop_map(|(s, k1, p1, k2, p2, cpos, ckind)| {
            let a = c10::string_variant(&s, k1, p1, 0);
            // second string: same text or one character changed / dropped / added
            let mut cs: Vec<char> = s.chars().collect();
            if !cs.is_empty() {
                let i = (cpos as usize * cs.len()) >> 16;
                match ckind % 6 {
                    0 => cs[i] = pick(ALPHA, cpos.wrapping_mul(31)),
                    1 => {
                        cs.remove(i);
                    }
                    2 => cs.insert(i, pick(ALPHA, cpos.wrapping_mul(17))),
                    _ => {}
                }
            }
            let s2: String = cs.into_iter().collect();
            let b = c10::string_variant(&s2, k2, p2, if ckind & 64 != 0 { 0 } else { 1 });
            (a, b)
        })
        .boxed()
}

pub fn pair_strategy() -> BoxedStrategy<(T, T)> {
    prop_oneof![
        4 => string_pair(),
        2 => atom_pair(),
        2 => number_pair(),
        1 => float_pair(),
        2 => compound_pair(),
        3 => c10::mutation_pair(),
        2 => c10::skeleton_pair(),
        1 => c10::independent_pair(),
    ]
    .boxed()
}

fn mk_case(ts: Vec<T>, text: bool, seed: u64) -> Case {
    let text = text && !ts.iter().any(c10::has_rat);
    Case { ts, text, seed: if text { 0 } else { seed } }
}

fn seed_strategy() -> BoxedStrategy<u64> {
    prop_oneof![1 => Just(0u64), 5 => any::<u64>()].boxed()
}

pub fn pair_case() -> BoxedStrategy<Case> {
    (pair_strategy(), prop::bool::weighted(0.25), seed_strategy(), any::<bool>()).prop_map(|((a, b), text, seed, swap)| mk_case(if swap { vec![b, a] } else { vec![a, b] }, text, seed)).boxed()
}

pub fn triple_case() -> BoxedStrategy<Case> {
    let third = (pair_strategy(), any::<u8>(), any::<u16>(), term_strategy(c10::small_cfg(false))).prop_map(|((a, b), kind, pos, r)| {
        let c = match kind % 4 {
            0 => {
                let n = c10::node_count(&a);
                let mut k = (pos as usize * n) >> 16;
                c10::replace_nth(&a, &mut k, &r)
            }
            1 => {
                let n = c10::node_count(&b);
                let mut k = (pos as usize * n) >> 16;
                c10::replace_nth(&b, &mut k, &r)
            }
            2 => a.clone(),
            _ => r,
        };
        vec![a, b, c]
    });
    let nums = (int_strategy(), any::<u8>(), any::<u8>(), any::<u8>()).prop_map(|(v, a, b, c)| vec![num_of(&v, a), num_of(&v, b), num_of(&v, c)]);
    let atoms = (alpha_string(7), alpha_string(2), alpha_string(2), alpha_string(2)).prop_map(|(p, a, b, c)| vec![T::Atom(format!("{p}{a}")), T::Atom(format!("{p}{b}")), T::Atom(format!("{p}{c}"))]);
    let strs = (alpha_string(12), any::<[u8; 3]>(), any::<[u16; 3]>()).prop_map(|(s, k, p)| (0..3).map(|i| c10::string_variant(&s, k[i], p[i], i as u32)).collect::<Vec<T>>());
    (prop_oneof![5 => third, 1 => nums, 1 => atoms, 2 => strs], prop::bool::weighted(0.25), seed_strategy()).prop_map(|(ts, text, seed)| mk_case(ts, text, seed)).boxed()
}

// ---------------------------------------------------------------------------------------------
// oracle

#[derive(Clone, Copy, Debug, PartialEq)]
pub enum O {
    Lt,
    Eq,
    Gt,
    /// first difference is a pair of distinct variables: order not specified
    Vars,
}

fn model_cmp(g: &G, a: usize, b: usize) -> O {
    match g.cmp_lazy(a, b, 1_000_000) {
        Cmp3::Less => O::Lt,
        Cmp3::Greater => O::Gt,
        Cmp3::Equal => O::Eq,
        Cmp3::Vars(..) => O::Vars,
        Cmp3::Unknown => panic!("cmp_lazy budget exhausted on a finite term"),
    }
}

fn sym(t: &T) -> Option<O> {
    match t {
        T::Atom(a) if a == "<" => Some(O::Lt),
        T::Atom(a) if a == "=" => Some(O::Eq),
        T::Atom(a) if a == ">" => Some(O::Gt),
        _ => None,
    }
}

fn inv(o: O) -> O {
    match o {
        O::Lt => O::Gt,
        O::Gt => O::Lt,
        x => x,
    }
}

fn bits(t: &T) -> Option<Vec<bool>> {
    match t.norm() {
        T::PList(items, tail) if tail.is_nil() => items
            .iter()
            .map(|i| match i {
                T::Int(v) if *v == IBig::ONE => Some(true),
                T::Int(v) if *v == IBig::ZERO => Some(false),
                _ => None,
            })
            .collect(),
        _ => None,
    }
}

pub struct Env {
    pub s: Session,
}

pub fn mk_env() -> Env {
    Env { s: tb::session_with(&[], &[C13_PL]) }
}

fn query(c: &Case) -> (String, Vec<&'static str>) {
    let pred = if c.ts.len() == 2 { "c13_pair" } else { "c13_triple" };
    if c.text {
        let text = format!("{} .", T::Cmp("t".into(), c.ts.clone()).text());
        let codes: Vec<String> = text.chars().map(|ch| (ch as u32).to_string()).collect();
        (format!("{pred}_text([{}], Res)", codes.join(",")), vec![])
    } else {
        let mut bl = tb::Builder::new(c.seed);
        let refs: Vec<&T> = c.ts.iter().collect();
        let specs = bl.specs(&refs);
        (format!("{pred}_spec({specs}, Res)"), bl.ctors.into_iter().collect())
    }
}

/// depth of the first difference (0 = the roots differ); None when identical
fn diff_depth(a: &T, b: &T) -> Option<u32> {
    fn go(a: &T, b: &T, d: u32) -> Option<u32> {
        match (a, b) {
            (T::PList(ai, at), T::PList(bi, bt)) => {
                if let Some(x) = go(&ai[0], &bi[0], d + 1) {
                    return Some(x);
                }
                let ra = if ai.len() == 1 { (**at).clone() } else { T::PList(ai[1..].to_vec(), at.clone()) };
                let rb = if bi.len() == 1 { (**bt).clone() } else { T::PList(bi[1..].to_vec(), bt.clone()) };
                go(&ra, &rb, d + 1)
            }
            (T::Cmp(n, aa), T::Cmp(m, bb)) => {
                if n != m || aa.len() != bb.len() {
                    return Some(d);
                }
                aa.iter().zip(bb).find_map(|(x, y)| go(x, y, d + 1))
            }
            _ => {
                if tb::canon_zero(a).eq_struct(&tb::canon_zero(b)) {
                    None
                } else {
                    Some(d)
                }
            }
        }
    }
    go(&a.norm(), &b.norm(), 0)
}

pub fn check(env: &mut Env, c: &Case) -> Verdict {
    let n = c.ts.len();
    if n != 2 && n != 3 {
        return Verdict::Discard("bad-case".into());
    }
    let mut g = G::new();
    let mut vars: HashMap<u32, usize> = HashMap::new();
    let ids: Vec<usize> = c.ts.iter().map(|t| g.add_term(&t.norm(), &mut vars)).collect();
    let (q, ctors) = query(c);
    if std::env::var("VERIF_DEBUG_QUERY").is_ok() {
        eprintln!("QUERY: {q}");
    }
    let o = env.s.ask_once(&q, "Res");
    let desc = format!("{}{}", if c.text { "[text] " } else { "" }, c.ts.iter().map(|t| t.text()).collect::<Vec<_>>().join("  vs  "));
    let res = match &o {
        Outcome::Sols(v) if v.len() == 1 => v[0].clone(),
        Outcome::Panic(m) => return Verdict::fail(format!("panic:{}", m.split_whitespace().next().unwrap_or("?")), format!("{desc}: {m}")),
        Outcome::Harness(m) => return Verdict::Discard(format!("harness:{}", m.chars().take(40).collect::<String>())),
        other => return Verdict::fail("wrapper:no-answer", format!("{desc}: construction or comparison raised/failed: {}", other.short())),
    };
    let args = match &res {
        T::Cmp(r, a) if r == "r" => a.clone(),
        _ => return Verdict::Discard("harness:bad-res".into()),
    };
    let name = |o: O| match o {
        O::Lt => "<",
        O::Eq => "=",
        O::Gt => ">",
        O::Vars => "?",
    };
    let mut classes: Vec<String> = vec![];
    let mut nontrivial = false;
    // ordered pairs (i, j, observed i-vs-j, observed j-vs-i)
    let pairs: Vec<(usize, usize, usize, usize)> = if n == 2 { vec![(0, 1, 0, 1)] } else { vec![(0, 1, 0, 1), (0, 2, 2, 3), (1, 2, 4, 5)] };
    if args.len() < if n == 2 { 4 } else { 6 } {
        return Verdict::Discard("harness:bad-res-arity".into());
    }
    let mut obs: HashMap<(usize, usize), O> = HashMap::new();
    for (i, j, x, y) in &pairs {
        let (Some(oij), Some(oji)) = (sym(&args[*x]), sym(&args[*y])) else {
            return Verdict::fail("bad-order-symbol", format!("{desc}: compare/3 returned {} / {}", args[*x].text(), args[*y].text()));
        };
        let want = model_cmp(&g, ids[*i], ids[*j]);
        let pd = format!("{} vs {}", c.ts[*i].text(), c.ts[*j].text());
        if want != O::Vars && oij != want {
            return Verdict::fail(format!("wrong-order:{}-for-{}", name(oij), name(want)), format!("{desc}: compare(O, {pd}) gave {} expected {}", name(oij), name(want)));
        }
        if want == O::Vars && oij == O::Eq {
            return Verdict::fail("wrong-order:=-for-distinct-vars", format!("{desc}: compare(O, {pd}) gave = although the first difference is a pair of distinct variables"));
        }
        if oji != inv(oij) {
            return Verdict::fail(format!("antisymmetry:{}{}", name(oij), name(oji)), format!("{desc}: compare gives {} for ({pd}) but {} for the swapped pair", name(oij), name(oji)));
        }
        obs.insert((*i, *j), oij);
        classes.push(format!("expect:{}", name(want)));
        if let Some(d) = diff_depth(&c.ts[*i], &c.ts[*j]) {
            if d >= 2 {
                nontrivial = true;
                classes.push("diff-depth>=2".into());
            }
        }
    }
    if n == 2 {
        let o1 = obs[&(0, 1)];
        let (Some(ops), Some(modes)) = (bits(&args[2]), bits(&args[3])) else {
            return Verdict::Discard("harness:bad-bits".into());
        };
        if ops.len() != 6 || modes.len() != 3 {
            return Verdict::Discard("harness:bad-bits".into());
        }
        let want_ops = [o1 == O::Lt, o1 != O::Gt, o1 == O::Gt, o1 != O::Lt, o1 == O::Eq, o1 != O::Eq];
        let op_names = ["@<", "@=<", "@>", "@>=", "==", "\\=="];
        for k in 0..6 {
            if ops[k] != want_ops[k] {
                return Verdict::fail(format!("operator-mismatch:{}", op_names[k]), format!("{desc}: compare/3 gives {} but {} {}", name(o1), op_names[k], if ops[k] { "succeeds" } else { "fails" }));
            }
        }
        let want_modes = [o1 == O::Lt, o1 == O::Eq, o1 == O::Gt];
        for k in 0..3 {
            if modes[k] != want_modes[k] {
                return Verdict::fail(format!("bound-order-mismatch:{}", ["<", "=", ">"][k]), format!("{desc}: compare(O,A,B) gives {} but compare({},A,B) {}", name(o1), ["<", "=", ">"][k], if modes[k] { "succeeds" } else { "fails" }));
            }
        }
        // == iff identical terms
        let ident = g.bisim(ids[0], ids[1]);
        if ident != (o1 == O::Eq) {
            return Verdict::fail("identity-mismatch", format!("{desc}: compare gives {} but the terms are {}identical", name(o1), if ident { "" } else { "not " }));
        }
    } else {
        // transitivity of the observed relation
        let (ab, ac, bc) = (obs[&(0, 1)], obs[&(0, 2)], obs[&(1, 2)]);
        let le = |o: O| o != O::Gt;
        let ge = |o: O| o != O::Lt;
        let bad = (le(ab) && le(bc) && !(le(ac) && ((ab == O::Eq && bc == O::Eq) == (ac == O::Eq)))) || (ge(ab) && ge(bc) && !(ge(ac) && ((ab == O::Eq && bc == O::Eq) == (ac == O::Eq))));
        if bad {
            return Verdict::fail("intransitive", format!("{desc}: A?B {} , B?C {} , A?C {}", name(ab), name(bc), name(ac)));
        }
        classes.push("triple".into());
    }
    if c.text {
        classes.push("build:text".into());
    } else if c.seed == 0 {
        classes.push("build:plain".into());
    }
    let mixed_repr = !ctors.is_empty() && c.ts.iter().any(|t| matches!(t.norm(), T::PList(..) | T::Cmp(..)));
    for k in &ctors {
        classes.push(format!("ctor:{k}"));
    }
    if c.ts.iter().any(c10::has_string) {
        classes.push("has-string".into());
        if (c.text || !ctors.is_empty()) && c.ts.iter().filter(|t| c10::has_string(t)).count() >= 2 {
            nontrivial = true;
            classes.push("string-vs-string-repr".into());
        }
    }
    if ctors.iter().any(|k| matches!(*k, "ib" | "in" | "rat")) {
        nontrivial = true;
    }
    if mixed_repr && ctors.iter().any(|k| matches!(*k, "dot-functor" | "cf" | "cp" | "fa" | "as" | "rd")) {
        nontrivial = true;
    }
    let cl: Vec<&str> = classes.iter().map(|s| s.as_str()).collect();
    Verdict::pass(nontrivial, &cl)
}

pub struct C13;

impl Prop for C13 {
    fn id(&self) -> &'static str {
        "C13"
    }
    fn rule(&self) -> &'static str {
        "pairs (and triples) of terms: strings vs code-point-equal lists / partial strings with various tails / '.'/2 structures with one character changed, dropped or added (ASCII, 2-4 byte UTF-8, NUL); atoms sharing a prefix around the 6-byte inline limit; numbers of equal or neighbouring value as small/big integer, rational, float; compounds differing by arity, name or argument k; a term and a copy with a replaced subterm; common skeletons; realised through the reader or through tb_builds/2 with seed-chosen constructors (cons cells, atom_chars strings, partial_string/3 segmentations, functor/3, =.., copy/findall/assert copies, read_from_chars, bignum-computed integers). Checked: compare/3 = reference standard order (Var < Float < Integer/Rational < Atom < Compound; numbers by value; atoms by code points; compounds by arity, name, arguments; strings as lists; order of distinct variables only required to be consistent), swapped pair gives the inverse, @< @=< @> @>= == \\== and compare/3 with a bound order agree, == iff identical, transitivity on triples; non-trivial = first difference at depth >= 2, or two string-bearing terms in non-plain representations, or bignum/rational/number_codes built integers, or '.'/2-functor/copy constructors on compound terms; distinct by case encoding"
    }
    fn assumptions(&self) -> Vec<String> {
        vec!["the builder predicates (atom_codes/2, char_code/2, =../2, functor/3, arg/3, partial_string/3, copy_term/2, findall/3, assertz/retract, read_from_chars/2) construct the term they denote (C20/C23 check them)".into(), "0.0 and -0.0 compare equal (by value)".into()]
    }
    fn run_shard(&self, cfg: &ShardCfg) -> ShardResult {
        let mut d = Driver::new(cfg, "C13");
        let n = cfg.share(cfg.tier.pick(80_000, 3_200_000));
        d.run("pair", 0, n, 2000, pair_case(), &mk_env, &check);
        let m = cfg.share(cfg.tier.pick(20_000, 800_000));
        d.run("triple", 1, m, 2000, triple_case(), &mk_env, &check);
        d.finish()
    }
    fn replay(&self, _kind: &str, case: &Value) -> Verdict {
        replay_case::<Case, Env>(case, &mk_env, &check)
    }
}
