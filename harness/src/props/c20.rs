//! C20 — Strings behave exactly like the character lists they denote.
//!
//! A case is (string content, how the string is constructed, a near-equal partner list, an
//! operation). The operation is run twice: once on the string built by the constructor under test
//! (literal, atom_chars, number_chars, partial_string/3, append/3, findall copy, read_from_chars,
//! format_//2, asserted clause, copy_term, suffix of a longer string reached by head unification)
//! and once on the explicit list of one-character atoms built cell by cell; both results must be
//! the result the term model gives for lists of characters (printing operations: the two texts must
//! be equal). Operations that would depend on the age order of two distinct variables, or that do
//! not terminate on partial lists, are only applied when the model result is determined.
use crate::engine::*;
use crate::gen::pick;
use crate::session::{Outcome, Session};
use crate::term::{self, atom, cmp, int, list, nil, std_cmp, Subst, T};
use dashu::integer::IBig;
use proptest::prelude::*;
use serde::{Deserialize, Serialize};
use serde_json::Value;
use std::cmp::Ordering;

const C20_PL: &str = include_str!("../../prolog/c20.pl");

#[derive(Clone, Debug, Serialize, Deserialize)]
pub struct SCase {
    /// content of the string under test
    pub s: String,
    /// the string has an unbound tail
    pub s_var: bool,
    pub ctor: String,
    /// split point (append) / length of the dropped prefix (suffix)
    pub j: u16,
    /// content of the partner
    pub q: String,
    pub q_var: bool,
    pub qctor: String,
    pub op: String,
    pub k: u16,
}

pub const CTORS: &[&str] = &["lit", "lit", "partial3", "atom_chars", "number_chars", "append", "findall", "read", "format", "clause", "copy", "suffix", "univ", "plain"];
pub const QCTORS: &[&str] = &["plain", "plain", "lit", "partial3", "univ"];
pub const OPS: &[&str] = &[
    "unify", "unify_rev", "unify_oc", "unify_struct", "not_unify", "eq", "compare", "ordops", "length", "length_chk", "append_split", "append_sq", "append_qs", "append_prefix", "nth0", "nth1", "nth0_enum", "arg", "functor", "univ", "copy", "findall", "findall_nested",
    "members", "memberchk", "reverse", "assert", "index", "sort", "sort_terms", "keysort", "term_vars", "ground", "atom_back", "number_back", "walk", "head_tail", "writeq", "print_list", "is_list",
];

// ---------------------------------------------------------------------------------------------
// generators

fn char_strategy(class: u8) -> BoxedStrategy<char> {
    let ascii = prop_oneof![6 => (b'a'..=b'z').prop_map(|b| b as char), 2 => (b'0'..=b'9').prop_map(|b| b as char), 2 => any::<u16>().prop_map(|k| pick(&[' ', '"', '\\', '\'', '\n', '.', '|', '[', 'A', '_', '~', '\t', '\u{7f}'], k))];
    let multi = any::<u16>().prop_map(|k| pick(&['é', 'λ', 'я', '\u{80}', '\u{7ff}', '日', '語', '\u{800}', '\u{ffff}', '😀', '\u{10000}', '\u{10ffff}', 'e', '\u{301}'], k));
    match class {
        0 => ascii.boxed(),
        1 => prop_oneof![3 => ascii, 2 => multi].boxed(),
        2 => prop_oneof![3 => ascii, 1 => multi, 2 => Just('\0')].boxed(),
        3 => (b'0'..=b'9').prop_map(|b| b as char).boxed(),
        _ => prop_oneof![1 => ascii, 1 => Just('a')].boxed(),
    }
}

fn content_strategy() -> BoxedStrategy<String> {
    (prop_oneof![4 => Just(0u8), 3 => Just(1u8), 2 => Just(2u8), 1 => Just(3u8), 1 => Just(4u8)], prop_oneof![7 => 0usize..=24, 2 => 25usize..=64, 1 => 65usize..=200])
        .prop_flat_map(|(class, len)| proptest::collection::vec(char_strategy(class), len..=len))
        .prop_map(|v| v.into_iter().collect::<String>())
        .boxed()
}

/// partner content derived from the string content: equal or near-equal
fn partner(s: &str, rel: u8, pos: u16, c: char, other: &str) -> String {
    let chars: Vec<char> = s.chars().collect();
    match rel % 8 {
        0 | 1 | 2 => s.to_string(),
        3 => {
            if chars.is_empty() {
                return c.to_string();
            }
            let i = (pos as usize * chars.len()) >> 16;
            let mut v = chars.clone();
            v[i] = if v[i] == c { 'z' } else { c };
            v.into_iter().collect()
        }
        4 => chars[..chars.len().saturating_sub(1)].iter().collect(),
        5 => {
            let mut v = chars.clone();
            v.push(c);
            v.into_iter().collect()
        }
        6 => {
            // a proper prefix
            let i = (pos as usize * (chars.len() + 1)) >> 16;
            chars[..i].iter().collect()
        }
        _ => other.to_string(),
    }
}

pub fn scase_strategy() -> BoxedStrategy<SCase> {
    (content_strategy(), any::<u8>(), (any::<u16>(), any::<u16>(), any::<u16>(), any::<u16>(), any::<u16>()), (any::<u8>(), any::<u16>(), char_strategy(2), content_strategy()), any::<u8>())
        .prop_map(|(s, svar, (ctor, j, qctor, op, k), (rel, pos, c, other), qvar)| {
            let q = partner(&s, rel, pos, c, &other);
            avoid_findings(SCase { s_var: svar % 5 == 0, ctor: pick(CTORS, ctor).to_string(), j, q_var: qvar % 5 == 0, qctor: pick(QCTORS, qctor).to_string(), op: pick(OPS, op).to_string(), k, s, q })
        })
        .boxed()
}

// ---------------------------------------------------------------------------------------------
// building the terms in the query

fn codes(s: &str) -> String {
    let v: Vec<String> = s.chars().map(|c| (c as u32).to_string()).collect();
    format!("[{}]", v.join(","))
}

fn chars_term(s: &str, tail: T) -> T {
    let items: Vec<T> = s.chars().map(|c| T::Atom(c.to_string())).collect();
    if items.is_empty() {
        tail
    } else {
        T::PList(items, Box::new(tail))
    }
}

fn is_plain_number(s: &str) -> bool {
    !s.is_empty() && s.len() <= 60 && s.chars().all(|c| c.is_ascii_digit()) && (s == "0" || !s.starts_with('0'))
}

/// the constructor actually used (some need a particular content)
fn effective_ctor<'a>(ctor: &'a str, s: &str) -> &'a str {
    match ctor {
        "number_chars" if !is_plain_number(s) => "atom_chars",
        c => c,
    }
}

/// Goal text that binds variable `v` ("S" or "Q") to the list of characters `content`, with an
/// unbound tail when `var_tail`. `n` is the variable number used for a tail written in the text.
fn build(v: &str, ctor: &str, content: &str, var_tail: bool, j: u16, n: u32) -> String {
    let nchars = content.chars().count();
    let lit = T::Str(content.to_string()).text();
    // constructors that can produce the unbound tail themselves
    match ctor {
        "plain" => return format!("vp_dec({}, {v})", chars_term(content, if var_tail { T::Var(n) } else { nil() }).enc_text()),
        "lit" => {
            return if var_tail { format!("{v} = {}", chars_term(content, T::Var(n)).text()) } else { format!("{v} = {lit}") };
        }
        "partial3" => {
            let close = if var_tail { String::new() } else { format!(", {v}T = []") };
            return format!("vp_dec(s({}), {v}0), partial_string({v}0, {v}, {v}T){close}", codes(content));
        }
        "univ" => {
            return format!("vp_dec(s({}), {v}0), c20_mk({v}0, {}, {v})", codes(content), if var_tail { format!("V{n}") } else { "[]".to_string() });
        }
        _ => {}
    }
    let target = if var_tail { format!("{v}P") } else { v.to_string() };
    let base = match ctor {
        "atom_chars" => format!("atom_codes({v}A, {}), atom_chars({v}A, {target})", codes(content)),
        "number_chars" => format!("{v}N = {content}, number_chars({v}N, {target})"),
        "append" => {
            let i = (j as usize * (nchars + 1)) >> 16;
            let a: String = content.chars().take(i).collect();
            let b: String = content.chars().skip(i).collect();
            format!("{v}A = {}, {v}B = {}, append({v}A, {v}B, {target})", T::Str(a).text(), T::Str(b).text())
        }
        "findall" => format!("findall({v}X, {v}X = {lit}, [{target}])"),
        "read" => {
            let text = format!("{lit}.");
            format!("vp_dec(s({}), {v}Tx), read_from_chars({v}Tx, {target})", codes(&text))
        }
        "format" => format!("vp_dec(s({}), {v}0), phrase(format_(\"~s\", [{v}0]), {target})", codes(content)),
        "clause" => format!("retractall(c20lit({n}, _)), assertz(c20lit({n}, {lit})), c20lit({n}, {target})"),
        "copy" => format!("copy_term({lit}, {target})"),
        "suffix" => {
            let junk = (j % 10) as usize;
            let pre: String = "0123456789".chars().take(junk).collect();
            let drop: Vec<&str> = (0..junk).map(|_| "_").collect();
            let whole = T::Str(format!("{pre}{content}")).text();
            if junk == 0 {
                format!("{target} = {whole}")
            } else {
                format!("{v}W = {whole}, {v}W = [{}|{target}]", drop.join(","))
            }
        }
        other => panic!("unknown constructor {other}"),
    };
    if var_tail {
        format!("{base}, partial_string({target}, {v}, _)")
    } else {
        base
    }
}

// ---------------------------------------------------------------------------------------------
// model

#[derive(Clone, Debug)]
enum Exp {
    Val(T),
    /// a list whose element order is not asserted
    Bag(Vec<T>),
    Err(T),
    /// no model: the two representations must give the same result
    Meta,
}

fn tf(b: bool) -> T {
    atom(if b { "true" } else { "false" })
}

fn unif(a: &T, b: &T) -> Option<Subst> {
    let mut s = Subst::new();
    match term::unify(a, b, &mut s, true) {
        Ok(true) => Some(s),
        _ => None,
    }
}

fn rename(t: &T, by: u32) -> T {
    match t {
        T::Var(v) => T::Var(v + by),
        T::PList(items, tail) => T::PList(items.iter().map(|x| rename(x, by)).collect(), Box::new(rename(tail, by))),
        T::Cmp(n, args) => T::Cmp(n.clone(), args.iter().map(|x| rename(x, by)).collect()),
        o => o.clone(),
    }
}

fn split_list(t: &T) -> (Vec<T>, T) {
    match t.norm() {
        T::PList(items, tail) => (items, *tail),
        o => (vec![], o),
    }
}

fn sort_dedup(v: &[T]) -> Vec<T> {
    let mut s = v.to_vec();
    s.sort_by(std_cmp);
    s.dedup_by(|a, b| std_cmp(a, b) == Ordering::Equal);
    s
}

fn head_tail(t: &T) -> Option<(T, T)> {
    let (items, tail) = split_list(t);
    if items.is_empty() {
        return None;
    }
    let rest = if items.len() == 1 { tail } else { T::PList(items[1..].to_vec(), Box::new(tail)) };
    Some((items[0].clone(), rest))
}

// ---------------------------------------------------------------------------------------------
// open findings (see known/C20.json): the case classes they make fail are recognised here; the
// generator avoids them (all but a few witnesses) and `check` labels a failure inside such a class
// with the finding's signature.

/// a clause head holding a string with a NUL character does not unify with an equal packed string argument
const NUL_HEAD_SIG: &str = "clause-head-string:NUL";
/// compare/3, ==/2, sort/2 and =/2 of two packed strings read a wrong tail cell when the string that ends
/// first is entered at a byte offset that is not a multiple of 8 (panic types.rs:751, segfault, or a
/// unification that wrongly fails)
const UNALIGNED_CMP_SIG: &str = "pstr-compare:unaligned-offset";
/// findall/3 copies a suffix of a packed string from the enclosing cell boundary; when that boundary
/// falls inside a multi-byte character whose remaining bytes decode to code 0 the copy panics
/// (heap.rs push_pstr) or gains a spurious NUL character
const SUFFIX_COPY_SIG: &str = "findall-copy:suffix-at-continuation-byte";

fn is_packed(ctor: &str) -> bool {
    !matches!(ctor, "plain" | "univ")
}

/// some continuation byte b[i] of a multi-byte character, read as if it started a character, decodes to
/// code point 0: (b[i] & 0x1F) == 0 and (next byte, or the terminator, & 0x3F) == 0
fn suffix_copy_risky(s: &str) -> bool {
    let b = s.as_bytes();
    (1..b.len()).any(|i| (b[i] & 0xC0) == 0x80 && (b[i] & 0x1F) == 0 && (b.get(i + 1).copied().unwrap_or(0) & 0x3F) == 0)
}

/// replace the characters that make `suffix_copy_risky` true by their successor code point (same byte length)
fn derisk(s: &str) -> String {
    let mut cur: Vec<char> = s.chars().collect();
    for _ in 0..(4 * cur.len() + 4) {
        let text: String = cur.iter().collect();
        let b = text.as_bytes();
        let Some(i) = (1..b.len()).find(|&i| (b[i] & 0xC0) == 0x80 && (b[i] & 0x1F) == 0 && (b.get(i + 1).copied().unwrap_or(0) & 0x3F) == 0) else { return text };
        // the character that contains byte i
        let mut at = 0;
        for c in cur.iter_mut() {
            let n = c.len_utf8();
            if i < at + n {
                *c = char::from_u32(*c as u32 + 1).unwrap_or('x');
                break;
            }
            at += n;
        }
    }
    cur.iter().collect()
}

const CMP_OPS: &[&str] = &["compare", "ordops", "eq", "sort_terms", "keysort", "head_tail"];

/// signature of the open finding this (effective) case may run into, if any
fn finding_of(c: &SCase, op: &str, ctor: &str, s_var: bool) -> Option<&'static str> {
    // (the unaligned-offset finding UNALIGNED_CMP_SIG is fixed in the tree under test, commit 7936163:
    // its input class is generated again; the stored witness is a regression replay)
    let _ = (CMP_OPS, UNALIGNED_CMP_SIG, s_var);
    if matches!(op, "assert" | "index") && (c.s.contains('\0') || c.q.contains('\0')) {
        return Some(NUL_HEAD_SIG);
    }
    // (the suffix-copy finding SUFFIX_COPY_SIG is fixed in the tree under test, commit 64d8fe6: its
    // input class is generated again; the stored witness is a regression replay)
    let _ = (SUFFIX_COPY_SIG, ctor, suffix_copy_risky as fn(&str) -> bool, derisk as fn(&str) -> String, is_packed as fn(&str) -> bool);
    None
}

/// generator-side exclusion of the open findings
fn avoid_findings(mut c: SCase) -> SCase {
    for _ in 0..3 {
        let s_var = c.s_var && !c.s.is_empty();
        let q_var = c.q_var && !c.q.is_empty();
        let op = effective_op(&c, s_var, q_var).to_string();
        let ctor = effective_ctor(&c.ctor, &c.s).to_string();
        match finding_of(&c, &op, &ctor, s_var) {
            None => break,
            Some(_) if c.k % 8 == 0 => break, // witness
            Some(NUL_HEAD_SIG) => c.op = "unify".into(),
            Some(_) => {
                c.s = derisk(&c.s);
                c.q = derisk(&c.q);
            }
        }
    }
    c
}

/// operation actually applied: falls back to `unify` when the model result would not be determined
fn effective_op<'a>(c: &'a SCase, s_var: bool, q_var: bool) -> &'a str {
    let len = c.s.chars().count();
    let ok = match c.op.as_str() {
        "length" | "length_chk" | "append_sq" | "nth0" | "nth1" | "nth0_enum" | "members" | "memberchk" | "reverse" | "sort" | "atom_back" => !s_var,
        "append_split" => !s_var && len <= 40,
        "number_back" => !s_var && is_plain_number(&c.s),
        "append_qs" | "append_prefix" => !q_var,
        "compare" | "ordops" | "sort_terms" | "keysort" => !(s_var && q_var),
        _ => true,
    };
    if ok {
        c.op.as_str()
    } else {
        "unify"
    }
}

fn model(op: &str, s: &T, q: &T, k: i64) -> Exp {
    let (sc, st) = split_list(s);
    let (qc, _qt) = split_list(q);
    let yes2 = |sub: &Subst| cmp("yes", vec![term::resolve(s, sub), term::resolve(q, sub)]);
    match op {
        "unify" | "unify_rev" | "unify_oc" | "unify_struct" => Exp::Val(match unif(s, q) {
            Some(sub) => yes2(&sub),
            None => atom("no"),
        }),
        "not_unify" => Exp::Val(tf(unif(s, q).is_none())),
        "eq" => {
            let e = s.identical(q);
            Exp::Val(list(vec![tf(e), tf(e), tf(!e)]))
        }
        "compare" => {
            let sym = |o: Ordering| atom(match o { Ordering::Less => "<", Ordering::Equal => "=", Ordering::Greater => ">" });
            Exp::Val(cmp("/", vec![sym(std_cmp(s, q)), sym(std_cmp(q, s))]))
        }
        "ordops" => {
            let o = std_cmp(s, q);
            Exp::Val(list(vec![tf(o == Ordering::Less), tf(o != Ordering::Greater), tf(o == Ordering::Greater), tf(o != Ordering::Less)]))
        }
        "length" => Exp::Val(int(sc.len() as i64)),
        "length_chk" => Exp::Val(tf(k == sc.len() as i64)),
        "append_split" => Exp::Bag((0..=sc.len()).map(|i| cmp("-", vec![list(sc[..i].to_vec()), list(sc[i..].to_vec())])).collect()),
        "append_sq" => Exp::Val(T::PList(sc.clone(), Box::new(q.clone())).norm()),
        "append_qs" => Exp::Val(T::PList(qc.clone(), Box::new(s.clone())).norm()),
        "append_prefix" => {
            let pat = T::PList(qc.clone(), Box::new(T::Var(9))).norm();
            Exp::Val(match unif(s, &pat) {
                Some(sub) => cmp("yes", vec![term::resolve(&T::Var(9), &sub)]),
                None => atom("no"),
            })
        }
        "nth0" | "nth1" => {
            let i = if op == "nth0" { k } else { k - 1 };
            Exp::Val(if i >= 0 && (i as usize) < sc.len() { cmp("yes", vec![sc[i as usize].clone()]) } else { atom("no") })
        }
        "nth0_enum" => Exp::Bag(sc.iter().enumerate().map(|(i, c)| cmp("-", vec![int(i as i64), c.clone()])).collect()),
        "arg" | "arg_enum" => match head_tail(s) {
            None if s.is_nil() => Exp::Err(cmp("type_error", vec![atom("compound"), nil()])),
            None => Exp::Err(atom("instantiation_error")),
            Some((h, t)) => Exp::Val(if op == "arg" { cmp("-", vec![h, t]) } else { list(vec![cmp("-", vec![int(1), h]), cmp("-", vec![int(2), t])]) }),
        },
        "functor" => Exp::Val(if head_tail(s).is_some() { cmp("/", vec![atom("."), int(2)]) } else { cmp("/", vec![nil(), int(0)]) }),
        "univ" => Exp::Val(match head_tail(s) {
            Some((h, t)) => list(vec![atom("."), h, t]),
            None => list(vec![nil()]),
        }),
        "copy" => Exp::Val(cmp("-", vec![rename(s, 50), tf(s.is_ground())])),
        "findall" => Exp::Val(list(vec![rename(s, 50)])),
        "findall_nested" => Exp::Val(list(vec![rename(&cmp("g", vec![s.clone(), q.clone(), s.clone()]), 50)])),
        "members" => Exp::Val(list(sc.clone())),
        "memberchk" => Exp::Val(match qc.first() {
            Some(c) => tf(sc.iter().any(|x| x.eq_struct(c))),
            None => atom("none"),
        }),
        "reverse" => Exp::Val(list(sc.iter().rev().cloned().collect())),
        "assert" => {
            let stored = rename(s, 50);
            let m = unif(&stored, q).is_some();
            Exp::Val(cmp("r", vec![list(vec![rename(s, 60)]), tf(m), tf(m), if m { nil() } else { list(vec![rename(s, 70)]) }]))
        }
        "index" => {
            let heads = [atom("foo"), rename(s, 50), rename(q, 50), nil(), T::PList(vec![atom("x")], Box::new(rename(s, 50))).norm()];
            let hits = |t: &T| list(heads.iter().enumerate().filter(|(_, h)| unif(h, t).is_some()).map(|(i, _)| int(i as i64)).collect());
            Exp::Val(cmp("-", vec![hits(s), hits(q)]))
        }
        "sort" => Exp::Val(list(sort_dedup(&sc))),
        "sort_terms" => Exp::Val(list(sort_dedup(&[s.clone(), q.clone(), cmp("f", vec![s.clone()]), T::Str("m".into()), list(vec![atom("m")]), s.clone(), cmp("g", vec![q.clone()])]))),
        "keysort" => {
            let mut v = vec![(s.clone(), 1), (q.clone(), 2), (s.clone(), 3), (q.clone(), 4)];
            v.sort_by(|a, b| std_cmp(&a.0, &b.0));
            Exp::Val(list(v.into_iter().map(|(k, i)| cmp("-", vec![k, int(i)])).collect()))
        }
        "term_vars" => {
            let mut vs = vec![];
            cmp("f", vec![s.clone(), q.clone()]).vars(&mut vs);
            Exp::Val(cmp("t", vec![s.clone(), q.clone(), list(vs.into_iter().map(T::Var).collect())]))
        }
        "ground" => Exp::Val(tf(s.is_ground())),
        "atom_back" => {
            let text: String = sc.iter().map(|c| if let T::Atom(a) = c { a.clone() } else { String::new() }).collect();
            Exp::Val(cmp("a", vec![int(text.chars().count() as i64), list(text.chars().map(|c| int(c as u32 as i64)).collect())]))
        }
        "number_back" => {
            let text: String = sc.iter().map(|c| if let T::Atom(a) = c { a.clone() } else { String::new() }).collect();
            Exp::Val(T::Int(text.parse::<IBig>().expect("digits")))
        }
        "walk" => Exp::Val(T::PList(sc.clone(), Box::new(if st.is_nil() { nil() } else { atom("tail_var") })).norm()),
        "head_tail" => Exp::Val(match (head_tail(s), head_tail(q)) {
            (Some((h1, t1)), Some((h2, t2))) => list(vec![tf(h1.identical(&h2)), tf(t1.identical(&t2))]),
            _ => atom("none"),
        }),
        "is_list" => Exp::Val(tf(st.is_nil())),
        _ => Exp::Meta,
    }
}

pub struct Env {
    pub s: Session,
}

pub fn mk_env() -> Env {
    let mut s = Session::new(&["lists", "charsio", "format", "dcgs", "iso_ext", "error"]);
    assert!(s.consult(C20_PL, "c20"), "c20.pl failed to load");
    Env { s }
}

fn canon(t: &T) -> T {
    t.norm().canon_vars()
}

fn nontrivial(s: &str, var: bool) -> bool {
    let b = s.len();
    b % 8 == 0 || b % 8 == 7 || b >= 8 || var || s.chars().any(|c| c == '\0' || c.len_utf8() > 1)
}

pub fn check(env: &mut Env, c: &SCase) -> Verdict {
    let s_var = c.s_var && !c.s.is_empty();
    let q_var = c.q_var && !c.q.is_empty();
    let op = effective_op(c, s_var, q_var);
    let ctor = effective_ctor(&c.ctor, &c.s);
    let slen = c.s.chars().count();
    let k = ((c.k as usize * (slen + 2)) >> 16) as i64;
    let s_t = chars_term(&c.s, if s_var { T::Var(0) } else { nil() });
    let q_t = chars_term(&c.q, if q_var { T::Var(1) } else { nil() });
    let exp = model(op, &s_t, &q_t, k);
    let known = finding_of(c, op, ctor, s_var);
    let qb = build("Q", &c.qctor, &c.q, q_var, c.j, 1);
    let mut results: Vec<(String, Outcome, String)> = vec![];
    let reps: Vec<&str> = if ctor == "plain" { vec!["plain"] } else { vec![ctor, "plain"] };
    for rep in &reps {
        let goal = format!("{}, {}, c20_op({}, S, Q, {}, R)", build("S", rep, &c.s, s_var, c.j, 0), qb, op, k);
        let o = env.s.ask(&goal, "R");
        if let Outcome::Panic(m) = &o {
            if let Some(sig) = known {
                return Verdict::fail(sig, format!("{goal} panicked: {m}"));
            }
            return Verdict::fail(format!("panic:{}:{}", m.split_whitespace().next().unwrap_or("?"), op), format!("{goal} panicked: {m}"));
        }
        if let Outcome::Harness(m) = &o {
            return Verdict::Discard(format!("harness:{}", m.chars().take(40).collect::<String>()));
        }
        results.push((rep.to_string(), o, goal));
    }
    for (rep, o, goal) in &results {
        let ok = match (&exp, o) {
            (Exp::Meta, _) => true,
            (Exp::Val(w), Outcome::Sols(v)) => v.len() == 1 && canon(w).eq_struct(&canon(&v[0])),
            (Exp::Bag(w), Outcome::Sols(v)) => {
                v.len() == 1 && {
                    let (mut have, tail) = split_list(&v[0]);
                    let mut want: Vec<T> = w.iter().map(canon).collect();
                    have = have.iter().map(canon).collect();
                    have.sort_by(std_cmp);
                    want.sort_by(std_cmp);
                    tail.is_nil() && have.len() == want.len() && have.iter().zip(&want).all(|(a, b)| a.eq_struct(b))
                }
            }
            (Exp::Err(f), o) => o.formal().map(|g| canon(f).eq_struct(&canon(&g))).unwrap_or(false),
            _ => false,
        };
        if !ok {
            let want = match &exp {
                Exp::Val(w) => w.text(),
                Exp::Bag(w) => format!("(any order) {}", list(w.clone()).text()),
                Exp::Err(f) => format!("error {}", f.text()),
                Exp::Meta => String::new(),
            };
            let side = if rep == "plain" { "explicit-list" } else { "string" };
            if let Some(sig) = known {
                return Verdict::fail(sig, format!("{goal}\n  gave {}\n  expected {}", o.short().chars().take(700).collect::<String>(), want.chars().take(700).collect::<String>()));
            }
            return Verdict::fail(format!("wrong-{side}:{op}:{rep}"), format!("{goal}\n  gave {}\n  expected {}", o.short().chars().take(700).collect::<String>(), want.chars().take(700).collect::<String>()));
        }
    }
    if results.len() == 2 {
        // metamorphic: both representations give the same outcome (up to variable renaming)
        let same = match (&results[0].1, &results[1].1) {
            (Outcome::Sols(a), Outcome::Sols(b)) => a.len() == b.len() && a.iter().zip(b).all(|(x, y)| canon(x).eq_struct(&canon(y))),
            (Outcome::Ex(a), Outcome::Ex(b)) => match (results[0].1.formal(), results[1].1.formal()) {
                (Some(x), Some(y)) => canon(&x).eq_struct(&canon(&y)),
                _ => canon(a).eq_struct(&canon(b)),
            },
            _ => false,
        };
        if !same && !matches!(exp, Exp::Bag(_)) {
            if let Some(sig) = known {
                return Verdict::fail(sig, format!("{}\n  gave {}\nbut on the explicit list gave {}", results[0].2, results[0].1.short().chars().take(500).collect::<String>(), results[1].1.short().chars().take(500).collect::<String>()));
            }
            return Verdict::fail(format!("string-vs-list:{op}:{}", results[0].0), format!("{}\n  gave {}\nbut on the explicit list\n  {}\n  gave {}", results[0].2, results[0].1.short().chars().take(500).collect::<String>(), results[1].2, results[1].1.short().chars().take(500).collect::<String>()));
        }
    }
    let mut classes: Vec<String> = vec![format!("op:{op}"), format!("ctor:{ctor}"), format!("partner:{}", c.qctor)];
    if op != c.op {
        classes.push("op-remapped-to-unify".into());
    }
    if s_var {
        classes.push("partial-string".into());
    }
    if q_var {
        classes.push("partial-partner".into());
    }
    if c.s.contains('\0') {
        classes.push("has-NUL".into());
    }
    if c.s.chars().any(|ch| ch.len_utf8() > 1) {
        classes.push("multi-byte".into());
    }
    classes.push(format!("bytes-mod8:{}", c.s.len() % 8));
    if c.s.len() > 24 {
        classes.push("bytes>24".into());
    }
    classes.push(if c.s == c.q && s_var == q_var { "partner-equal".into() } else if c.s == c.q { "partner-equal-but-tail".into() } else { "partner-differs".to_string() });
    let cl: Vec<&str> = classes.iter().map(|s| s.as_str()).collect();
    Verdict::pass(nontrivial(&c.s, s_var), &cl)
}

pub struct C20;

impl Prop for C20 {
    fn id(&self) -> &'static str {
        "C20"
    }
    fn rule(&self) -> &'static str {
        "(string content, constructor, partner, operation): contents of 0..24 chars (every length) and up to 200 over ASCII, 2/3/4-byte characters and NUL (start/middle/end/consecutive); the string is built by one of 13 constructors (double-quoted literal in the query, literal with unbound tail, partial_string/3, atom_chars/2, number_chars/2, append/3 of two literals, findall/3 copy, read_from_chars/2, format_//2, asserted clause, copy_term/2, suffix of a longer literal reached through head unification at byte offsets 0..9, =../2) and optionally given an unbound tail; the partner (equal, one char changed at position k, one shorter, one longer, a prefix, unrelated; [] or unbound tail) is an explicit list built cell by cell (or another string); one of 41 operations (=, unify_with_occurs_check, \\=, ==, compare/3, @<.., length, append/3 in 4 modes incl. all splits, nth0/nth1, arg/functor/=.., copy_term, findall, assertz+call+retract, first-argument clause selection, sort, keysort keys, term_variables, ground, atom_chars/atom_length/atom_codes back, number_chars back, head-unification walk, writeq text) is run on the string AND on the explicit list of the same characters: both must equal the term model's result for lists of characters (printing: the two texts must be equal); non-trivial = byte length = 0 or 7 mod 8 or >= 8, or NUL, or multi-byte char, or partial string; distinct by case encoding"
    }
    fn assumptions(&self) -> Vec<String> {
        vec![
            "vp_dec/2 (clause-head list construction + char_code/2) builds the explicit list correctly; it is itself compared with the model in every case".into(),
            "term::unify / std_cmp are the reference algorithms over lists of one-character atoms".into(),
            "operations whose result depends on the age order of two distinct unbound tails are replaced by unification".into(),
        ]
    }
    fn run_shard(&self, cfg: &ShardCfg) -> ShardResult {
        let mut d = Driver::new(cfg, "C20");
        let n = cfg.share(cfg.tier.pick(40_000, 2_000_000));
        d.run("string", 0, n, 4000, scase_strategy(), &mk_env, &check);
        d.finish()
    }
    fn replay(&self, _kind: &str, case: &Value) -> Verdict {
        replay_case::<SCase, Env>(case, &mk_env, &check)
    }
}
