//! C43 — op/3 and current_op/3 maintain a consistent operator table.
//!
//! A case is a history of op/3 calls (valid and invalid), interleaved with current_op/3 queries
//! in various instantiation modes and with parse probes. The whole history runs inside ONE
//! query (prolog/c43.pl) so the harness's own query text is always read under the pristine
//! operator table. The model table is seeded from what the fresh machine reports.
use crate::engine::*;
use crate::gen::pick;
use crate::session::{Outcome, Session};
use crate::term::{atom, cmp, int, list, T};
use dashu::integer::IBig;
use proptest::prelude::*;
use serde::{Deserialize, Serialize};
use serde_json::Value;
use std::collections::BTreeMap;

/// Signatures carry no ':' (the driver shrinks within the text before the first ':'; with a
/// colon-free signature a failure can only shrink to a case with exactly the same signature, so an
/// unknown failure can never be minimised into a tolerated known one). Panics keep their form.
fn vfail(sig: impl Into<String>, detail: impl Into<String>) -> Verdict {
    Verdict::fail(nsig(&sig.into()), detail)
}
fn nsig(s: &str) -> String {
    if s.starts_with("panic:") {
        s.to_string()
    } else {
        s.trim_end_matches(':').replace(':', "/")
    }
}

pub const C43_PL: &str = include_str!("../../prolog/c43.pl");

#[derive(Clone, Debug, Serialize, Deserialize)]
pub enum Item {
    Op { p: T, t: T, n: T },
    Q { p: T, t: T, n: T },
    /// parse probe: shape index (see `probe_text`) and two operator names
    Parse { shape: u8, a: String, b: String },
}

#[derive(Clone, Debug, Serialize, Deserialize)]
pub struct Case {
    pub items: Vec<Item>,
}

// ---------------------------------------------------------------------------------------------
// model

pub const PRE: u8 = 0;
pub const INF: u8 = 1;
pub const POST: u8 = 2;

/// (name, class) -> (priority, specifier)
pub type Table = BTreeMap<(String, u8), (u32, String)>;

pub fn class_of(spec: &str) -> Option<u8> {
    match spec {
        "fx" | "fy" => Some(PRE),
        "xfx" | "xfy" | "yfx" => Some(INF),
        "xf" | "yf" => Some(POST),
        _ => None,
    }
}

fn inst() -> T {
    atom("instantiation_error")
}
fn type_err(ty: &str, culprit: &T) -> T {
    cmp("type_error", vec![atom(ty), culprit.clone()])
}
fn dom_err(d: &str, culprit: &T) -> T {
    cmp("domain_error", vec![atom(d), culprit.clone()])
}
fn perm_err(action: &str, name: &str) -> T {
    cmp("permission_error", vec![atom(action), atom("operator"), atom(name)])
}

pub struct OpExp {
    /// acceptable error Formals (empty = the call must succeed)
    pub errors: Vec<T>,
    /// table after a successful call (None = success is not acceptable)
    pub success: Option<Table>,
    /// acceptable tables after a rejected call
    pub err_tables: Vec<Table>,
    /// labels
    pub conflict: bool,
    pub removal: bool,
    pub partial_possible: bool,
}

fn as_prio(p: &T, errors: &mut Vec<T>) -> Option<u32> {
    match p {
        T::Var(_) => {
            errors.push(inst());
            None
        }
        T::Int(v) => {
            if *v >= IBig::ZERO && *v <= IBig::from(1200) {
                Some(u32::try_from(v).unwrap())
            } else {
                errors.push(dom_err("operator_priority", p));
                None
            }
        }
        _ => {
            errors.push(type_err("integer", p));
            None
        }
    }
}

fn as_spec(t: &T, errors: &mut Vec<T>) -> Option<String> {
    match t {
        T::Var(_) => {
            errors.push(inst());
            None
        }
        T::Atom(a) => {
            if class_of(a).is_some() {
                Some(a.clone())
            } else {
                errors.push(dom_err("operator_specifier", t));
                None
            }
        }
        _ => {
            errors.push(type_err("atom", t));
            None
        }
    }
}

/// ISO 8.14.3 (+Cor.2) model of op(P, T, Names) against table `tab`.
pub fn op_expect(tab: &Table, p: &T, t: &T, n: &T) -> OpExp {
    let mut errors: Vec<T> = vec![];
    let mut all_lenient = true;
    let pv = as_prio(p, &mut errors);
    let tv = as_spec(t, &mut errors);
    if !errors.is_empty() {
        all_lenient = false;
    }
    // the elements to process, then an optional structural error at the end of the list
    let mut els: Vec<T> = vec![];
    let mut tail_err: Option<T> = None;
    let single = !matches!(n, T::PList(..));
    match n {
        T::Var(_) => tail_err = Some(inst()),
        T::Atom(a) if a == "[]" => {
            // the empty list of names (ISO: succeeds) which Cor.2 also rejects as an operator name
            errors.push(perm_err("create", "[]"));
        }
        T::Atom(_) => els.push(n.clone()),
        T::PList(items, tail) => {
            els = items.clone();
            match &**tail {
                T::Atom(a) if a == "[]" => {}
                T::Var(_) => tail_err = Some(inst()),
                _ => tail_err = Some(type_err("list", n)),
            }
        }
        _ => tail_err = Some(type_err("list", n)),
    }
    let class = tv.as_deref().and_then(class_of);
    let mut w = tab.clone();
    let mut prefix_tables = vec![w.clone()];
    let mut stopped = pv.is_none() || tv.is_none();
    let (mut conflict, mut removal) = (false, false);
    for e in &els {
        // static badness (independent of the table)
        let mut stat: Option<(T, bool)> = None; // (error, lenient)
        match e {
            T::Var(_) => stat = Some((inst(), false)),
            T::Atom(a) => match a.as_str() {
                "," => stat = Some((perm_err("modify", ","), false)),
                "[]" | "{}" => stat = Some((perm_err("create", a), false)),
                "|" => {
                    let bad_class = class.is_some() && class != Some(INF);
                    let bad_prio = matches!(pv, Some(pp) if pp != 0 && pp < 1001);
                    if bad_class || bad_prio {
                        // removing a (necessarily absent) prefix/postfix bar changes nothing:
                        // success without change is accepted as well
                        let lenient = pv == Some(0) && !bad_prio;
                        stat = Some((perm_err("create", "|"), lenient));
                    }
                }
                _ => {}
            },
            _ => stat = Some((if single { type_err("list", n) } else { type_err("atom", e) }, false)),
        }
        if let Some((err, lenient)) = stat {
            errors.push(err);
            if !lenient {
                all_lenient = false;
                stopped = true;
            }
            continue;
        }
        if stopped {
            continue;
        }
        let (pp, cl, name) = (pv.unwrap(), class.unwrap(), match e { T::Atom(a) => a.clone(), _ => unreachable!() });
        if pp == 0 {
            if w.remove(&(name.clone(), cl)).is_some() {
                removal = true;
            }
        } else {
            let clash = (cl == INF && w.contains_key(&(name.clone(), POST))) || (cl == POST && w.contains_key(&(name.clone(), INF)));
            if clash {
                errors.push(perm_err("create", &name));
                all_lenient = false;
                conflict = true;
                stopped = true;
                continue;
            }
            w.insert((name, cl), (pp, tv.clone().unwrap()));
        }
        prefix_tables.push(w.clone());
    }
    if let Some(e) = tail_err {
        errors.push(e);
        all_lenient = false;
    }
    let success = if errors.is_empty() || all_lenient { Some(w) } else { None };
    let err_tables = if pv.is_none() || tv.is_none() { vec![tab.clone()] } else { prefix_tables };
    let partial_possible = err_tables.len() > 1;
    OpExp { errors, success, err_tables, conflict, removal, partial_possible }
}

/// current_op(P, T, N): Err(acceptable error formals) or Ok(sorted solutions)
pub fn q_expect(tab: &Table, p: &T, t: &T, n: &T) -> Result<Vec<(u32, String, String)>, Vec<T>> {
    let mut errors = vec![];
    match p {
        T::Var(_) => {}
        T::Int(v) if *v >= IBig::ZERO && *v <= IBig::from(1200) => {}
        T::Int(_) => errors.push(dom_err("operator_priority", p)),
        _ => {
            // ISO 8.14.4.3 a) says domain_error; the source cites the type error of op/3
            errors.push(type_err("integer", p));
            errors.push(dom_err("operator_priority", p));
        }
    }
    match t {
        T::Var(_) => {}
        T::Atom(a) if class_of(a).is_some() => {}
        T::Atom(_) => errors.push(dom_err("operator_specifier", t)),
        _ => {
            errors.push(type_err("atom", t));
            errors.push(dom_err("operator_specifier", t));
        }
    }
    match n {
        T::Var(_) | T::Atom(_) => {}
        _ => errors.push(type_err("atom", n)),
    }
    if !errors.is_empty() {
        return Err(errors);
    }
    let mut out = vec![];
    for ((name, _cl), (pp, sp)) in tab {
        let okp = match p {
            T::Int(v) => *v == IBig::from(*pp),
            _ => true,
        };
        let okt = match t {
            T::Atom(a) => a == sp,
            _ => true,
        };
        let okn = match n {
            T::Atom(a) => a == name,
            _ => true,
        };
        if okp && okt && okn {
            out.push((*pp, sp.clone(), name.clone()));
        }
    }
    out.sort();
    Ok(out)
}

// ---------------------------------------------------------------------------------------------
// parse probes

pub const SHAPES: &[&str] = &["A:a N b", "B:N a", "C:a N", "D:a N b N c", "E:a N b M c", "F:f(a N b)", "G:N a M b", "H:[a N b]", "I:N", "J:N(a,b)", "K:f(a N)", "L:f(N a)"];

fn src(name: &str) -> String {
    if name == "$x" {
        "'$x'".to_string()
    } else {
        name.to_string()
    }
}

/// None = this (shape, names) combination is not a probe (excluded by construction)
pub fn probe_text(shape: u8, a: &str, b: &str) -> Option<String> {
    let (n, m) = (src(a), src(b));
    let special = |x: &str| matches!(x, "," | "|");
    Some(match shape {
        0 => format!("a {n} b ."),
        1 => format!("{n} a ."),
        2 => format!("a {n} ."),
        3 => format!("a {n} b {n} c ."),
        4 => format!("a {n} b {m} c ."),
        5 => {
            if a == "," {
                return None;
            }
            format!("f(a {n} b) .")
        }
        6 => format!("{n} a {m} b ."),
        7 => {
            if special(a) {
                return None;
            }
            format!("[a {n} b] .")
        }
        8 => {
            if special(a) {
                return None;
            }
            format!("{n} .")
        }
        9 => {
            if special(a) || a == "[]" || a == "{}" {
                return None;
            }
            format!("{n}(a,b) .")
        }
        10 => {
            if special(a) {
                return None;
            }
            format!("f(a {n}) .")
        }
        11 => {
            if special(a) {
                return None;
            }
            format!("f({n} a) .")
        }
        _ => return None,
    })
}

/// the operator facts that decide the probe, for the failure signature
pub fn probe_ctx(tab: &Table, shape: u8, n: &str, m: &str) -> String {
    let d = |name: &str, cl: u8, bucket: bool| -> String {
        match get(tab, name, cl) {
            None => "none".to_string(),
            Some((p, s)) => {
                if bucket {
                    format!("{}-{s}", if p < 999 { "lt999" } else if p == 999 { "p999" } else if p == 1000 { "p1000" } else { "gt1000" })
                } else {
                    s.to_string()
                }
            }
        }
    };
    let rel = |x: Option<(u32, &str)>, y: Option<(u32, &str)>| -> &'static str {
        match (x, y) {
            (Some((p, _)), Some((q, _))) => {
                if p < q {
                    "lt"
                } else if p == q {
                    "eq"
                } else {
                    "gt"
                }
            }
            _ => "na",
        }
    };
    match shape {
        0 | 3 => d(n, INF, false),
        1 => d(n, PRE, false),
        2 => d(n, POST, false),
        4 => format!("{}-{}-{}", d(n, INF, false), rel(get(tab, n, INF), get(tab, m, INF)), d(m, INF, false)),
        5 | 7 => d(n, INF, true),
        6 => format!("{}-{}-{}", d(n, PRE, false), rel(get(tab, n, PRE), get(tab, m, INF)), d(m, INF, false)),
        10 => d(n, POST, true),
        11 => d(n, PRE, true),
        _ => "any".to_string(),
    }
}

#[derive(Debug)]
pub enum PExp {
    /// exactly this term
    Term(T),
    SyntaxError,
    /// any of these terms; `err` = a syntax error is accepted too
    Any(Vec<T>, bool),
}

fn f1(n: &str, x: T) -> T {
    cmp(n, vec![x])
}
fn f2(n: &str, x: T, y: T) -> T {
    cmp(n, vec![x, y])
}

fn get<'a>(tab: &'a Table, name: &str, cl: u8) -> Option<(u32, &'a str)> {
    tab.get(&(name.to_string(), cl)).map(|(p, s)| (*p, s.as_str()))
}

fn one_of(mut cands: Vec<T>) -> PExp {
    match cands.len() {
        0 => PExp::SyntaxError,
        1 => PExp::Term(cands.pop().unwrap()),
        _ => PExp::Any(cands, false),
    }
}

/// ISO 6.3.4 reading of the probe text under table `tab`.
pub fn probe_expect(tab: &Table, shape: u8, n: &str, m: &str) -> PExp {
    let (a, b, c) = (atom("a"), atom("b"), atom("c"));
    match shape {
        0 => match get(tab, n, INF) {
            Some(_) => PExp::Term(f2(n, a, b)),
            None => PExp::SyntaxError,
        },
        1 => match get(tab, n, PRE) {
            Some(_) => PExp::Term(f1(n, a)),
            None => PExp::SyntaxError,
        },
        2 => match get(tab, n, POST) {
            Some(_) => PExp::Term(f1(n, a)),
            None => PExp::SyntaxError,
        },
        3 | 4 => {
            let m = if shape == 3 { n } else { m };
            let (Some((pn, tn)), Some((pm, tm))) = (get(tab, n, INF), get(tab, m, INF)) else { return PExp::SyntaxError };
            let mut cands = vec![];
            if pn < pm || (pn == pm && tm == "yfx") {
                cands.push(f2(m, f2(n, a.clone(), b.clone()), c.clone()));
            }
            if pm < pn || (pm == pn && tn == "xfy") {
                cands.push(f2(n, a, f2(m, b, c)));
            }
            one_of(cands)
        }
        5 | 7 => match get(tab, n, INF) {
            Some((p, _)) if p <= 999 => {
                let inner = f2(n, a, b);
                PExp::Term(if shape == 5 { f1("f", inner) } else { list(vec![inner]) })
            }
            _ => PExp::SyntaxError,
        },
        6 => {
            let (Some((pn, tn)), Some((pm, tm))) = (get(tab, n, PRE), get(tab, m, INF)) else { return PExp::SyntaxError };
            let mut cands = vec![];
            if pn < pm || (pn == pm && tm == "yfx") {
                cands.push(f2(m, f1(n, a.clone()), b.clone()));
            }
            if pm < pn || (pm == pn && tn == "fy") {
                cands.push(f1(n, f2(m, a, b)));
            }
            one_of(cands)
        }
        8 => {
            let is_op = [PRE, INF, POST].iter().any(|cl| get(tab, n, *cl).is_some());
            if is_op {
                // ISO 6.3.1.3: an operator as an atom has priority 1201 (needs brackets); systems accept it bare
                PExp::Any(vec![atom(n)], true)
            } else {
                PExp::Term(atom(n))
            }
        }
        9 => PExp::Term(f2(n, a, b)),
        10 | 11 => match get(tab, n, if shape == 10 { POST } else { PRE }) {
            Some((p, _)) if p <= 999 => PExp::Term(f1("f", f1(n, a))),
            _ => PExp::SyntaxError,
        },
        _ => PExp::Any(vec![], true),
    }
}

// ---------------------------------------------------------------------------------------------
// generators

const NAMES: &[&str] = &["foo", "foo", "foo", "bar", "bar", "bar", "-", "-", "+", "=", "=", "dynamic", "mod", "$x", ",", "|", "|", "[]", "{}"];
const PLAIN_NAMES: &[&str] = &["foo", "foo", "bar", "bar", "-", "+", "=", "dynamic", "mod", "$x"];
const SPECS: &[&str] = &["xfx", "xfy", "yfx", "fy", "fx", "xf", "yf"];

fn name_strategy() -> BoxedStrategy<String> {
    any::<u16>().prop_map(|k| pick(NAMES, k).to_string()).boxed()
}

fn prio_strategy() -> BoxedStrategy<T> {
    let valid = any::<u16>().prop_map(|k| int(pick(&[0i64, 0, 0, 1, 200, 200, 200, 699, 700, 700, 999, 1000, 1001, 1105, 1200], k)));
    let invalid = any::<u16>().prop_map(|k| pick(&[int(1201), int(-1), T::Float(1.0), atom("foo"), T::Var(90), T::Int(IBig::from(1u8) << 70), int(65536 + 200), T::Float(0.0)], k));
    prop_oneof![12 => valid, 2 => invalid].boxed()
}

fn spec_strategy() -> BoxedStrategy<T> {
    let valid = any::<u16>().prop_map(|k| atom(pick(SPECS, k)));
    let invalid = any::<u16>().prop_map(|k| pick(&[atom("fxx"), T::Var(91), int(1), atom("yfy"), cmp("f", vec![atom("x")]), atom("xfx ")], k));
    prop_oneof![12 => valid, 2 => invalid].boxed()
}

fn names_strategy() -> BoxedStrategy<T> {
    let single = name_strategy().prop_map(|s| atom(&s));
    let el = prop_oneof![
        14 => name_strategy().prop_map(|s| atom(&s)),
        1 => Just(T::Var(92)),
        1 => any::<u16>().prop_map(|k| pick(&[int(1), cmp("f", vec![atom("x")]), T::Float(1.5)], k)),
    ];
    // '|' inside a list of several names is excluded by construction (known finding: the list
    // branch of op/3 does not apply the '|' restriction; the one-element list ['|'] keeps it visible)
    let debar = |v: Vec<T>| -> Vec<T> {
        if v.len() > 1 {
            v.into_iter().map(|x| if matches!(&x, T::Atom(a) if a == "|") { atom("bar") } else { x }).collect()
        } else {
            v
        }
    };
    let lst = proptest::collection::vec(el.clone(), 1..=3).prop_map(move |v| T::PList(debar(v), Box::new(crate::term::nil())));
    let partial = (proptest::collection::vec(el, 1..=2), any::<u16>()).prop_map(|(v, k)| T::PList(v, Box::new(pick(&[T::Var(93), atom("bar"), int(3)], k))));
    let non = any::<u16>().prop_map(|k| pick(&[T::Var(94), int(1), cmp("f", vec![atom("x")]), T::Float(1.5), cmp("foo", vec![atom("a"), atom("b")])], k));
    prop_oneof![12 => single, 5 => lst, 1 => partial, 1 => non].boxed()
}

fn op_item() -> BoxedStrategy<Item> {
    (prio_strategy(), spec_strategy(), names_strategy()).prop_map(|(p, t, n)| Item::Op { p, t, n }).boxed()
}

fn parse_item() -> BoxedStrategy<Item> {
    (0u8..SHAPES.len() as u8, name_strategy(), name_strategy())
        .prop_map(|(shape, a, b)| {
            // excluded combinations fall back to the always-defined infix shape
            if probe_text(shape, &a, &b).is_some() {
                Item::Parse { shape, a, b }
            } else {
                Item::Parse { shape: 0, a, b }
            }
        })
        .boxed()
}

/// current_op query. `all_modes` = also the modes with a bound priority and an unbound
/// specifier or name (a known finding lives there; the history kind stays clear of it).
fn q_item(all_modes: bool) -> BoxedStrategy<Item> {
    let p = prop_oneof![
        6 => Just(T::Var(0)),
        6 => any::<u16>().prop_map(|k| int(pick(&[200i64, 700, 400, 500, 1000, 1200, 1, 0, 1105], k))),
        1 => any::<u16>().prop_map(|k| pick(&[int(1201), int(-1), atom("foo"), T::Float(700.0), T::Int(IBig::from(1u8) << 70)], k)),
    ];
    let t = prop_oneof![
        6 => Just(T::Var(1)),
        6 => any::<u16>().prop_map(|k| atom(pick(SPECS, k))),
        1 => any::<u16>().prop_map(|k| pick(&[atom("fxx"), int(1), cmp("f", vec![atom("x")])], k)),
    ];
    let n = prop_oneof![
        6 => Just(T::Var(2)),
        6 => name_strategy().prop_map(|s| atom(&s)),
        1 => any::<u16>().prop_map(|k| pick(&[int(1), cmp("f", vec![atom("x")]), T::Float(1.5)], k)),
    ];
    (p, t, n)
        .prop_map(move |(p, t, n)| {
            let p_bound_valid = matches!(&p, T::Int(v) if *v >= IBig::ZERO && *v <= IBig::from(1200));
            let open = matches!(t, T::Var(_)) || matches!(n, T::Var(_));
            if !all_modes && p_bound_valid && open {
                Item::Q { p: T::Var(0), t, n }
            } else {
                Item::Q { p, t, n }
            }
        })
        .boxed()
}

pub fn hist_strategy() -> BoxedStrategy<Case> {
    let body = proptest::collection::vec(prop_oneof![16 => op_item(), 2 => parse_item(), 1 => q_item(false)], 1..=25);
    let tail_p = proptest::collection::vec(parse_item(), 0..=4);
    let tail_q = proptest::collection::vec(q_item(false), 0..=2);
    (body, tail_p, tail_q)
        .prop_map(|(mut items, p, q)| {
            items.extend(p);
            items.extend(q);
            Case { items }
        })
        .boxed()
}

pub fn modes_strategy() -> BoxedStrategy<Case> {
    (proptest::collection::vec(op_item(), 0..=6), proptest::collection::vec(q_item(true), 1..=4))
        .prop_map(|(mut items, q)| {
            items.extend(q);
            Case { items }
        })
        .boxed()
}

// ---------------------------------------------------------------------------------------------
// execution

pub struct Env {
    pub s: Session,
    pub ok: bool,
}

pub fn mk_env() -> Env {
    let mut s = Session::new(&[]);
    let ok = s.consult(C43_PL, "c43");
    Env { s, ok }
}

fn item_enc(it: &Item, idx: usize) -> Option<String> {
    // give every item its own variables
    let ren = |t: &T| -> T {
        match t {
            T::Var(v) => T::Var(*v + 100 * idx as u32),
            T::PList(items, tail) => T::PList(
                items.iter().map(|x| if let T::Var(v) = x { T::Var(*v + 100 * idx as u32) } else { x.clone() }).collect(),
                Box::new(if let T::Var(v) = &**tail { T::Var(*v + 100 * idx as u32) } else { (**tail).clone() }),
            ),
            other => other.clone(),
        }
    };
    Some(match it {
        Item::Op { p, t, n } => cmp("op", vec![ren(p), ren(t), ren(n)]).enc_text(),
        Item::Q { p, t, n } => cmp("q", vec![ren(p), ren(t), ren(n)]).enc_text(),
        Item::Parse { shape, a, b } => {
            let text = probe_text(*shape, a, b)?;
            cmp("parse", vec![list(text.chars().map(|c| int(c as u32)).collect())]).enc_text()
        }
    })
}

fn as_items(t: &T) -> Option<Vec<T>> {
    match t {
        T::Atom(a) if a == "[]" => Some(vec![]),
        T::PList(items, tail) if tail.is_nil() => Some(items.clone()),
        _ => None,
    }
}

/// decode a list of op(P,T,N) into triples
fn triples(t: &T) -> Option<Vec<(u32, String, String)>> {
    let mut out = vec![];
    for it in as_items(t)? {
        match it {
            T::Cmp(f, args) if f == "op" && args.len() == 3 => match (&args[0], &args[1], &args[2]) {
                (T::Int(p), T::Atom(s), T::Atom(n)) => out.push((u32::try_from(p).ok()?, s.clone(), n.clone())),
                _ => return None,
            },
            _ => return None,
        }
    }
    Some(out)
}

/// observed enumeration -> table; Err(reason) when it is not a well-formed table
fn to_table(obs: &[(u32, String, String)]) -> Result<Table, String> {
    let mut t = Table::new();
    for (p, s, n) in obs {
        let Some(cl) = class_of(s) else { return Err(format!("bad-specifier {s}")) };
        if *p == 0 || *p > 1200 {
            return Err(format!("bad-priority {p} for {n}"));
        }
        if t.insert((n.clone(), cl), (*p, s.clone())).is_some() {
            return Err(format!("duplicate entry for {n} class {cl}"));
        }
    }
    for (n, cl) in t.keys() {
        if *cl == INF && t.contains_key(&(n.clone(), POST)) {
            return Err(format!("{n} is infix and postfix"));
        }
    }
    Ok(t)
}

fn formal_of(ball: &T) -> Option<T> {
    match ball {
        T::Cmp(n, args) if n == "error" && args.len() == 2 => Some(args[0].clone()),
        _ => None,
    }
}

fn show_item(it: &Item) -> String {
    match it {
        Item::Op { p, t, n } => format!("op({},{},{})", p.text(), t.text(), n.text()),
        Item::Q { p, t, n } => format!("current_op({},{},{})", p.text(), t.text(), n.text()),
        Item::Parse { shape, a, b } => format!("read \"{}\"", probe_text(*shape, a, b).unwrap_or_default()),
    }
}

fn mode_of(p: &T, t: &T, n: &T) -> String {
    [p, t, n].iter().map(|x| if matches!(x, T::Var(_)) { 'u' } else { 'b' }).collect()
}

pub fn check(env: &mut Env, case: &Case) -> Verdict {
    if !env.ok {
        return Verdict::Discard("c43.pl rejected".into());
    }
    let mut encs = vec![];
    for (i, it) in case.items.iter().enumerate() {
        match item_enc(it, i + 1) {
            Some(e) => encs.push(e),
            None => return Verdict::Discard("excluded probe".into()),
        }
    }
    let goal = format!("c43_run([{}], Out)", encs.join(","));
    let o = env.s.ask_once(&goal, "Out");
    let out = match &o {
        Outcome::Sols(v) if v.len() == 1 => v[0].clone(),
        Outcome::Panic(m) => {
            let loc = m.split_whitespace().next().unwrap_or("?");
            return vfail(format!("panic:{loc}"), format!("history {} panicked: {m}", case.items.iter().map(show_item).collect::<Vec<_>>().join(", ")));
        }
        Outcome::Harness(m) => return Verdict::Discard(format!("harness:{}", m.chars().take(40).collect::<String>())),
        other => return vfail("driver:unexpected", format!("c43_run gave {}", other.short())),
    };
    let Some(results) = as_items(&out) else { return Verdict::Discard("harness:result-not-a-list".into()) };
    if results.len() != case.items.len() + 1 {
        return Verdict::Discard("harness:result-length".into());
    }
    // step 0: the table a fresh machine reports seeds the model
    let t0 = match &results[0] {
        T::Cmp(f, a) if f == "t" && a.len() == 1 => triples(&a[0]),
        _ => None,
    };
    let Some(t0) = t0 else { return vfail("table-initial:undecodable", format!("initial enumeration: {}", results[0].text())) };
    let mut tab = match to_table(&t0) {
        Ok(t) => t,
        Err(e) => return vfail("table-initial:malformed", format!("initial table: {e}")),
    };
    // `,` must be present and never changes; [] {} are never operators
    let comma0 = tab.get(&(",".to_string(), INF)).cloned();

    let mut classes: Vec<String> = vec![];
    let mut push = |c: &str, classes: &mut Vec<String>| {
        if !classes.iter().any(|x| x == c) {
            classes.push(c.to_string());
        }
    };
    let (mut accepted, mut rej_after_acc, mut removal, mut conflict) = (0u32, false, false, false);
    // failures in the modes with a bound priority are collected so that a known finding there
    // does not hide a different failure later in the same case
    let mut first_fail: Option<Verdict> = None;

    for (idx, it) in case.items.iter().enumerate() {
        let r = &results[idx + 1];
        let (rargs, rname) = match r {
            T::Cmp(f, a) => (a.clone(), f.clone()),
            _ => return Verdict::Discard("harness:result-shape".into()),
        };
        if rname != "r" {
            return Verdict::Discard("harness:result-shape".into());
        }
        let hist = || case.items[..=idx].iter().map(show_item).collect::<Vec<_>>().join(", ");
        match it {
            Item::Op { p, t, n } => {
                if rargs.len() != 2 {
                    return Verdict::Discard("harness:result-shape".into());
                }
                let exp = op_expect(&tab, p, t, n);
                let Some(obs) = triples(&rargs[1]) else { return vfail("table:undecodable", format!("after {}: {}", hist(), rargs[1].text())) };
                let obs_tab = match to_table(&obs) {
                    Ok(t) => t,
                    Err(e) => return vfail(format!("table:malformed:{}", e.split_whitespace().next().unwrap_or("?")), format!("after {}: {e}", hist())),
                };
                let is_list = matches!(n, T::PList(..));
                let shape = if is_list { "list" } else { "single" };
                match &rargs[0] {
                    T::Atom(a) if a == "yes" => match &exp.success {
                        Some(want) => {
                            if &obs_tab != want {
                                return vfail(format!("table-after-accepted:{shape}"), format!("after {}: table is {} but the model says {}", hist(), diff(&obs_tab, want), "(see diff: observed-only / model-only)"));
                            }
                            tab = want.clone();
                            accepted += 1;
                            push("accepted", &mut classes);
                            if exp.removal {
                                removal = true;
                                push("removal", &mut classes);
                            }
                            if is_list {
                                push("accepted-list", &mut classes);
                            }
                            if !exp.errors.is_empty() {
                                push("lenient-accepted", &mut classes);
                            }
                        }
                        None => {
                            return vfail(
                                format!("op-accepted-invalid:{}:{shape}", exp.errors[0].text()),
                                format!("{} succeeded; expected one of {:?} (history: {})", show_item(it), exp.errors.iter().map(|e| e.text()).collect::<Vec<_>>(), hist()),
                            );
                        }
                    },
                    T::Atom(a) if a == "no" => {
                        return vfail(format!("op-failed:{shape}"), format!("{} failed silently (history: {})", show_item(it), hist()));
                    }
                    T::Cmp(f, b) if f == "ex" && b.len() == 1 => {
                        let Some(formal) = formal_of(&b[0]) else { return vfail("op-non-iso-ball:", format!("{} threw {} (history: {})", show_item(it), b[0].text(), hist())) };
                        if exp.errors.is_empty() {
                            return vfail(format!("op-rejected-valid:{}:{shape}", formal.text()), format!("{} raised {}; the model accepts it (history: {})", show_item(it), formal.text(), hist()));
                        }
                        if !exp.errors.iter().any(|e| e.eq_struct(&formal)) {
                            return vfail(
                                format!("op-wrong-error:{}:{shape}", formal.text()),
                                format!("{} raised {}; expected one of {:?} (history: {})", show_item(it), formal.text(), exp.errors.iter().map(|e| e.text()).collect::<Vec<_>>(), hist()),
                            );
                        }
                        match exp.err_tables.iter().position(|c| c == &obs_tab) {
                            Some(k) => {
                                if k > 0 {
                                    push("rejected-prefix-applied", &mut classes);
                                }
                                tab = exp.err_tables[k].clone();
                            }
                            None => {
                                return vfail(format!("table-after-rejected:{shape}"), format!("after rejected {}: table changed: {} (history: {})", show_item(it), diff(&obs_tab, &tab), hist()));
                            }
                        }
                        push("rejected", &mut classes);
                        push(&format!("err:{}", match &formal { T::Cmp(f, a) => format!("{f}/{}", a[0].text()), other => other.text() }), &mut classes);
                        if accepted > 0 {
                            rej_after_acc = true;
                        }
                        if exp.conflict {
                            conflict = true;
                            push("class-conflict", &mut classes);
                        }
                        if exp.partial_possible {
                            push("rejected-list-with-valid-prefix", &mut classes);
                        }
                    }
                    other => return Verdict::Discard(format!("harness:op-result {}", other.text().chars().take(30).collect::<String>())),
                }
                if tab.get(&(",".to_string(), INF)) != comma0.as_ref() {
                    return vfail("comma-changed:", format!("',' changed after {}", hist()));
                }
            }
            Item::Q { p, t, n } => {
                let mode = mode_of(p, t, n);
                let exp = q_expect(&tab, p, t, n);
                let fail: Option<Verdict> = match (&exp, &rargs[0]) {
                    (Ok(want), T::Cmp(f, a)) if f == "ok" && a.len() == 1 => match triples(&a[0]) {
                        None => Some(vfail(format!("current_op-mode:{mode}:undecodable"), format!("{} gave {}", show_item(it), a[0].text()))),
                        Some(mut got) => {
                            got.sort();
                            if &got == want {
                                None
                            } else {
                                let what = if got.len() < want.len() { "missing" } else if got.len() > want.len() { "extra" } else { "different" };
                                Some(vfail(format!("current_op-mode:{mode}:{what}"), format!("{} gave {:?}; the table has {:?} (history: {})", show_item(it), got, want, hist())))
                            }
                        }
                    },
                    (Err(errs), T::Cmp(f, b)) if f == "ex" && b.len() == 1 => match formal_of(&b[0]) {
                        Some(formal) if errs.iter().any(|e| e.eq_struct(&formal)) => None,
                        _ => Some(vfail(format!("current_op-error:{mode}:wrong"), format!("{} raised {}; expected one of {:?}", show_item(it), b[0].text(), errs.iter().map(|e| e.text()).collect::<Vec<_>>()))),
                    },
                    (Ok(_), other) => Some(vfail(format!("current_op-mode:{mode}:raised"), format!("{} gave {} (history: {})", show_item(it), other.text(), hist()))),
                    (Err(errs), other) => Some(vfail(
                        format!("current_op-error:{mode}:none"),
                        format!("{} gave {}; expected one of {:?}", show_item(it), other.text().chars().take(200).collect::<String>(), errs.iter().map(|e| e.text()).collect::<Vec<_>>()),
                    )),
                };
                match fail {
                    None => {
                        push(&format!("q-mode-{mode}"), &mut classes);
                        if exp.is_err() {
                            push("q-error", &mut classes);
                        } else if !exp.as_ref().unwrap().is_empty() {
                            push("q-nonempty", &mut classes);
                        }
                    }
                    Some(v) => {
                        let known = matches!(&v, Verdict::Fail { signature, .. } if is_known_open(signature));
                        if !known {
                            return v;
                        }
                        if first_fail.is_none() {
                            first_fail = Some(v);
                        }
                    }
                }
            }
            Item::Parse { shape, a, b } => {
                let exp = probe_expect(&tab, *shape, a, b);
                let letter = &SHAPES[*shape as usize][..1];
                let text = probe_text(*shape, a, b).unwrap_or_default();
                let got: Result<T, String> = match &rargs[0] {
                    T::Cmp(f, x) if f == "ok" && x.len() == 1 => Ok(x[0].clone()),
                    T::Cmp(f, x) if f == "ex" && x.len() == 1 => match formal_of(&x[0]) {
                        Some(T::Cmp(e, _)) if e == "syntax_error" => Err("syntax_error".into()),
                        _ => return vfail(format!("parse:{letter}:non-syntax-error"), format!("reading \"{text}\" raised {} (history: {})", x[0].text(), hist())),
                    },
                    other => return vfail(format!("parse:{letter}:failed"), format!("reading \"{text}\" gave {} (history: {})", other.text(), hist())),
                };
                let ok = match (&exp, &got) {
                    (PExp::Term(w), Ok(g)) => g.norm().eq_struct(&w.norm()),
                    (PExp::SyntaxError, Err(_)) => true,
                    (PExp::Any(ws, _), Ok(g)) => ws.iter().any(|w| g.norm().eq_struct(&w.norm())),
                    (PExp::Any(_, e), Err(_)) => *e,
                    _ => false,
                };
                if !ok {
                    let what = match (&exp, &got) {
                        (PExp::SyntaxError, Ok(_)) => "read-should-reject",
                        (_, Err(_)) => "rejected-should-read",
                        _ => "wrong-term",
                    };
                    let ops: Vec<String> = tab.iter().filter(|((nm, _), _)| nm == a || nm == b).map(|((nm, _), (p, s))| format!("op({p},{s},{nm})")).collect();
                    let sig = nsig(&format!("parse:{letter}:{what}:{}", probe_ctx(&tab, *shape, a, b)));
                    let v = vfail(
                        sig.clone(),
                        format!("reading \"{text}\" gave {}; expected {:?}; operators of the names: {:?} (history: {})", match &got { Ok(g) => g.text(), Err(e) => e.clone() }, exp, ops, hist()),
                    );
                    if !is_known_open(&sig) {
                        return v;
                    }
                    if first_fail.is_none() {
                        first_fail = Some(v);
                    }
                    continue;
                }
                push(&format!("parse-{letter}-{}", if got.is_ok() { "term" } else { "error" }), &mut classes);
            }
        }
    }
    if let Some(v) = first_fail {
        return v;
    }
    let nontrivial = rej_after_acc || removal || conflict;
    let cls: Vec<&str> = classes.iter().map(|s| s.as_str()).collect();
    Verdict::pass(nontrivial, &cls)
}

fn diff(obs: &Table, want: &Table) -> String {
    let only_obs: Vec<String> = obs.iter().filter(|(k, v)| want.get(*k) != Some(*v)).map(|((n, _), (p, s))| format!("op({p},{s},{n})")).collect();
    let only_want: Vec<String> = want.iter().filter(|(k, v)| obs.get(*k) != Some(*v)).map(|((n, _), (p, s))| format!("op({p},{s},{n})")).collect();
    format!("observed-only {:?} / model-only {:?}", only_obs, only_want)
}

// ---------------------------------------------------------------------------------------------
// the culprit of the conflict error must be a plain atom

#[derive(Clone, Debug, Serialize, Deserialize)]
pub struct BallCase {
    pub first: String,
    pub second: String,
}

pub fn check_ball(env: &mut Env, c: &BallCase) -> Verdict {
    let goal = format!("catch((op(200,{},foo), op(200,{},foo), Res = none), error(permission_error(_,_,C),_), (atom_codes(C, Cs), atom_length(C, L), Res = Cs-L))", c.first, c.second);
    match env.s.ask_once(&goal, "Res") {
        Outcome::Sols(v) if v.len() == 1 => {
            let want = T::Cmp("-".into(), vec![list("foo".chars().map(|ch| int(ch as u32)).collect()), int(3)]);
            if v[0].norm().eq_struct(&want.norm()) {
                Verdict::pass(true, &["ball-culprit"])
            } else {
                vfail("ball-culprit:wrong", format!("culprit of the conflict error decodes to {}", v[0].text()))
            }
        }
        Outcome::Panic(m) => vfail(
            "ball-culprit:atom_codes-panic",
            format!("op(200,{},foo), op(200,{},foo) raises permission_error(create,operator,C); atom_codes(C,_) panics: {m}", c.first, c.second),
        ),
        other => vfail("ball-culprit:other", format!("{}", other.short())),
    }
}

pub struct C43;

impl Prop for C43 {
    fn id(&self) -> &'static str {
        "C43"
    }
    fn rule(&self) -> &'static str {
        "kind hist: histories of 1..25 op(P,T,Names) calls (P over 0,1,200,699,700,999,1000,1001,1105,1200 and invalid -1,1201,1.0,0.0,foo,unbound,2^70,65736; T over the 7 specifiers and fxx,yfy,unbound,1,f(x); Names over foo,bar,-,+,=,dynamic,mod,'$x',',','|',[],{} singly, in lists of 1..3, partial/improper lists, lists with unbound/non-atom elements, non-atoms) interleaved with current_op/3 queries and parse probes (10 text shapes over the same names), each history on a fresh machine inside one query; after every call the full current_op/3 enumeration must equal the ISO 8.14.3(+Cor.2) model table seeded from the table the fresh machine reported, errors must be among the applicable ISO errors, a rejected list call may have applied a valid prefix; kind modes: short histories followed by current_op/3 in all 8 instantiation modes incl. ill-typed arguments; non-trivial = history with a rejected call after an accepted one, or a removal of an existing operator, or an infix/postfix class conflict; distinct by case encoding"
    }
    fn assumptions(&self) -> Vec<String> {
        vec![
            "the reader parses canonical functional notation, integers and code lists under the pristine operator table (the whole history is one query)".into(),
            "atom_codes/char_code/functor/=.. used by the transport encoding".into(),
            "where ISO leaves the choice open the oracle accepts every option: which of several applicable errors is raised; whether a rejected list call applied its valid prefix; op(P,T,[]) succeeding or raising permission_error(create,operator,[]); current_op with a non-integer priority / non-atom specifier raising type_error or domain_error; a bare operator atom as a whole term reading as the atom or being rejected; same-priority xfy/yfx mixes reading either way".into(),
        ]
    }
    fn run_shard(&self, cfg: &ShardCfg) -> ShardResult {
        let mut d = Driver::new(cfg, "C43");
        if cfg.shard == 0 {
            let cases = vec![
                BallCase { first: "xfx".into(), second: "xf".into() },
                BallCase { first: "yf".into(), second: "xfy".into() },
            ];
            d.run_list("ball", cases, 1, &mk_env, &check_ball);
        }
        let n = cfg.share(cfg.tier.pick(2000, 100_000));
        d.run("hist", 0, n, 1, hist_strategy(), &mk_env, &check);
        let m = cfg.share(cfg.tier.pick(600, 30_000));
        d.run("modes", 1, m, 1, modes_strategy(), &mk_env, &check);
        d.finish()
    }
    fn replay(&self, kind: &str, case: &Value) -> Verdict {
        match kind {
            "ball" => replay_case::<BallCase, Env>(case, &mk_env, &check_ball),
            _ => replay_case::<Case, Env>(case, &mk_env, &check),
        }
    }
}
