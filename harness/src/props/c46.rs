//! C46 — clp(B) decides satisfiability and counts models exactly.
//!
//! A case is a short history of posts (sat/1, variable aliasing, binding to 0/1) over <= 6
//! Boolean variables followed by a query formula F. The truth table (<= 64 rows) is the oracle:
//!   * `posts, sat(F), labeling(Vs)`            enumerates exactly the models, each once;
//!   * `posts, sat(F), copy_term(Vs,Ws,Gs)`     succeeds iff a model exists; bindings + residual
//!                                              goals accept exactly the models; re-posting the
//!                                              residual goals on the copy and labeling gives the
//!                                              models again;
//!   * `posts, taut(F,T), labeling(Vs)`         T=1 iff the posts entail F, T=0 iff posts and F
//!                                              are unsatisfiable, fails otherwise; the models of
//!                                              the posts are untouched;
//!   * `posts, sat_count(F,N), labeling(Vs)`    N = number of assignments to the variables of F
//!                                              that make F true and can be extended to a model of
//!                                              the posts; the posts are untouched.
use crate::engine::*;
use crate::gen::pick;
use crate::session::Outcome;
use crate::term::{self, T};
use dashu::integer::IBig;
use proptest::prelude::*;
use serde::{Deserialize, Serialize};
use serde_json::Value;

pub const MAXV: u8 = 6;
pub const BIN_OPS: &[&str] = &["*", "+", "#", "=:=", "=\\=", "=<", ">=", "<", ">"];

#[derive(Clone, Debug, Serialize, Deserialize, PartialEq)]
pub enum Cs {
    I(i8),
    R(i8, i8),
}

#[derive(Clone, Debug, Serialize, Deserialize, PartialEq)]
pub enum F {
    V(u8),
    K(bool),
    Not(Box<F>),
    Bin(String, Box<F>, Box<F>),
    Or(Vec<F>),
    And(Vec<F>),
    Card(Vec<Cs>, Vec<F>),
}

#[derive(Clone, Debug, Serialize, Deserialize, PartialEq)]
pub enum Step {
    Sat(F),
    Alias(u8, u8),
    Bind(u8, bool),
}

#[derive(Clone, Debug, Serialize, Deserialize)]
pub struct Case {
    pub nvars: u8,
    pub steps: Vec<Step>,
    pub f: F,
    /// run `taut(F,T), labeling(Vs)` without first turning variables that are still plain
    /// (attribute-less) at that point into CLP(B) variables (known finding: such variables
    /// cannot be unified with 0/1 after taut/2)
    #[serde(default)]
    pub raw: bool,
}

fn vi(i: u8, n: u8) -> u8 {
    i % n.max(1)
}

pub fn bool_bin(op: &str, a: bool, b: bool) -> Option<bool> {
    Some(match op {
        "*" => a && b,
        "+" => a || b,
        "#" | "=\\=" => a != b,
        "=:=" => a == b,
        "=<" => !a || b,
        ">=" => a || !b,
        "<" => !a && b,
        ">" => a && !b,
        _ => return None,
    })
}

fn card_ok(cs: &[Cs], count: i32) -> bool {
    cs.iter().any(|c| match c {
        Cs::I(k) => *k as i32 == count,
        Cs::R(a, b) => (*a as i32) <= count && count <= (*b as i32),
    })
}

impl F {
    pub fn eval(&self, m: u32, n: u8) -> bool {
        match self {
            F::V(i) => (m >> vi(*i, n)) & 1 == 1,
            F::K(b) => *b,
            F::Not(a) => !a.eval(m, n),
            F::Bin(op, a, b) => bool_bin(op, a.eval(m, n), b.eval(m, n)).expect("known operator"),
            F::Or(fs) => fs.iter().any(|f| f.eval(m, n)),
            F::And(fs) => fs.iter().all(|f| f.eval(m, n)),
            F::Card(cs, fs) => card_ok(cs, fs.iter().filter(|f| f.eval(m, n)).count() as i32),
        }
    }
    pub fn to_t(&self, n: u8) -> T {
        match self {
            F::V(i) => T::Var(vi(*i, n) as u32),
            F::K(b) => term::int(*b as i32),
            F::Not(a) => term::cmp("~", vec![a.to_t(n)]),
            F::Bin(op, a, b) => term::cmp(op, vec![a.to_t(n), b.to_t(n)]),
            F::Or(fs) => term::cmp("+", vec![term::list(fs.iter().map(|f| f.to_t(n)).collect())]),
            F::And(fs) => term::cmp("*", vec![term::list(fs.iter().map(|f| f.to_t(n)).collect())]),
            F::Card(cs, fs) => term::cmp(
                "card",
                vec![
                    term::list(
                        cs.iter()
                            .map(|c| match c {
                                Cs::I(k) => term::int(*k as i32),
                                Cs::R(a, b) => term::cmp("-", vec![term::int(*a as i32), term::int(*b as i32)]),
                            })
                            .collect(),
                    ),
                    term::list(fs.iter().map(|f| f.to_t(n)).collect()),
                ],
            ),
        }
    }
    pub fn var_mask(&self, n: u8) -> u32 {
        match self {
            F::V(i) => 1 << vi(*i, n),
            F::K(_) => 0,
            F::Not(a) => a.var_mask(n),
            F::Bin(_, a, b) => a.var_mask(n) | b.var_mask(n),
            F::Or(fs) | F::And(fs) | F::Card(_, fs) => fs.iter().fold(0, |acc, f| acc | f.var_mask(n)),
        }
    }
    pub fn has_card(&self) -> bool {
        match self {
            F::V(_) | F::K(_) => false,
            F::Not(a) => a.has_card(),
            F::Bin(_, a, b) => a.has_card() || b.has_card(),
            F::Or(fs) | F::And(fs) => fs.iter().any(|f| f.has_card()),
            F::Card(..) => true,
        }
    }
    pub fn has_listform(&self) -> bool {
        match self {
            F::V(_) | F::K(_) => false,
            F::Not(a) => a.has_listform(),
            F::Bin(_, a, b) => a.has_listform() || b.has_listform(),
            F::Or(_) | F::And(_) => true,
            F::Card(_, fs) => fs.iter().any(|f| f.has_listform()),
        }
    }
    pub fn nodes(&self) -> usize {
        match self {
            F::V(_) | F::K(_) => 1,
            F::Not(a) => 1 + a.nodes(),
            F::Bin(_, a, b) => 1 + a.nodes() + b.nodes(),
            F::Or(fs) | F::And(fs) | F::Card(_, fs) => 1 + fs.iter().map(|f| f.nodes()).sum::<usize>(),
        }
    }
}

/// Parse a formula that came back from Prolog (residual goals). Variables keep their answer
/// numbering. None = not a Boolean expression of the documented syntax.
#[derive(Clone, Debug)]
pub enum RF {
    V(u32),
    K(bool),
    Not(Box<RF>),
    Bin(String, Box<RF>, Box<RF>),
    Or(Vec<RF>),
    And(Vec<RF>),
    Card(Vec<Cs>, Vec<RF>),
    Ex(u32, Box<RF>),
}

fn t_items(t: &T) -> Option<Vec<T>> {
    match t {
        T::Atom(a) if a == "[]" => Some(vec![]),
        T::PList(items, tail) if tail.is_nil() => Some(items.clone()),
        _ => None,
    }
}

fn t_small(t: &T) -> Option<i8> {
    match t {
        T::Int(i) => i8::try_from(i).ok(),
        _ => None,
    }
}

pub fn parse_rf(t: &T) -> Option<RF> {
    Some(match t {
        T::Var(v) => RF::V(*v),
        T::Int(i) if *i == IBig::ZERO => RF::K(false),
        T::Int(i) if *i == IBig::ONE => RF::K(true),
        T::Cmp(n, a) if n == "~" && a.len() == 1 => RF::Not(Box::new(parse_rf(&a[0])?)),
        T::Cmp(n, a) if n == "^" && a.len() == 2 => match &a[0] {
            T::Var(v) => RF::Ex(*v, Box::new(parse_rf(&a[1])?)),
            _ => return None,
        },
        T::Cmp(n, a) if a.len() == 2 && BIN_OPS.contains(&n.as_str()) => RF::Bin(n.clone(), Box::new(parse_rf(&a[0])?), Box::new(parse_rf(&a[1])?)),
        T::Cmp(n, a) if a.len() == 1 && (n == "+" || n == "*") => {
            let items = t_items(&a[0])?;
            let fs: Option<Vec<RF>> = items.iter().map(parse_rf).collect();
            if n == "+" {
                RF::Or(fs?)
            } else {
                RF::And(fs?)
            }
        }
        T::Cmp(n, a) if n == "card" && a.len() == 2 => {
            let mut cs = vec![];
            for c in t_items(&a[0])? {
                match &c {
                    T::Int(_) => cs.push(Cs::I(t_small(&c)?)),
                    T::Cmp(m, ab) if m == "-" && ab.len() == 2 => cs.push(Cs::R(t_small(&ab[0])?, t_small(&ab[1])?)),
                    _ => return None,
                }
            }
            let fs: Option<Vec<RF>> = t_items(&a[1])?.iter().map(parse_rf).collect();
            RF::Card(cs, fs?)
        }
        _ => return None,
    })
}

impl RF {
    pub fn eval(&self, env: &mut Vec<bool>) -> bool {
        match self {
            RF::V(i) => env[*i as usize],
            RF::K(b) => *b,
            RF::Not(a) => !a.eval(env),
            RF::Bin(op, a, b) => {
                let (x, y) = (a.eval(env), b.eval(env));
                bool_bin(op, x, y).expect("known operator")
            }
            RF::Or(fs) => {
                let mut r = false;
                for f in fs {
                    r |= f.eval(env);
                }
                r
            }
            RF::And(fs) => {
                let mut r = true;
                for f in fs {
                    r &= f.eval(env);
                }
                r
            }
            RF::Card(cs, fs) => {
                let mut c = 0;
                for f in fs {
                    if f.eval(env) {
                        c += 1;
                    }
                }
                card_ok(cs, c)
            }
            RF::Ex(v, f) => {
                let old = env[*v as usize];
                env[*v as usize] = false;
                let a = f.eval(env);
                env[*v as usize] = true;
                let b = f.eval(env);
                env[*v as usize] = old;
                a || b
            }
        }
    }
}

// ---------------------------------------------------------------------------------------------
// generators

fn cs_strategy() -> BoxedStrategy<Cs> {
    prop_oneof![
        3 => (-1i8..=5).prop_map(Cs::I),
        2 => (-1i8..=4, -1i8..=5).prop_map(|(a, b)| Cs::R(a, b)),
    ]
    .boxed()
}

pub fn formula_strategy() -> BoxedStrategy<F> {
    prop_oneof![2 => formula_sized(3, 8), 3 => formula_sized(5, 24), 2 => formula_sized(6, 48)].boxed()
}

fn formula_sized(depth: u32, size: u32) -> BoxedStrategy<F> {
    let leaf = prop_oneof![
        10 => (0u8..MAXV).prop_map(F::V),
        1 => any::<bool>().prop_map(F::K),
    ];
    leaf.prop_recursive(depth, size, 4, |inner| {
        prop_oneof![
            2 => inner.clone().prop_map(|a| F::Not(Box::new(a))),
            9 => (any::<u16>(), inner.clone(), inner.clone()).prop_map(|(k, a, b)| F::Bin(pick(BIN_OPS, k).to_string(), Box::new(a), Box::new(b))),
            1 => proptest::collection::vec(inner.clone(), 0..=4).prop_map(F::Or),
            1 => proptest::collection::vec(inner.clone(), 0..=4).prop_map(F::And),
            2 => (proptest::collection::vec(cs_strategy(), 0..=3), proptest::collection::vec(inner.clone(), 0..=5)).prop_map(|(c, f)| F::Card(c, f)),
        ]
    })
    .boxed()
}

fn step_strategy() -> BoxedStrategy<Step> {
    prop_oneof![
        8 => formula_strategy().prop_map(Step::Sat),
        1 => (0u8..MAXV, 0u8..MAXV).prop_map(|(a, b)| Step::Alias(a, b)),
        1 => (0u8..MAXV, any::<bool>()).prop_map(|(a, b)| Step::Bind(a, b)),
    ]
    .boxed()
}

pub fn case_strategy() -> BoxedStrategy<Case> {
    let nv = prop_oneof![1 => 1u8..=2, 3 => 3u8..=5, 3 => Just(6u8)];
    (nv, proptest::collection::vec(step_strategy(), 0..=3), formula_strategy(), 0u8..16).prop_map(|(nvars, steps, f, r)| Case { nvars, steps, f, raw: r == 15 }).boxed()
}

// ---------------------------------------------------------------------------------------------
// check

pub struct Env {
    pub p: crate::shared::pool::Pooled,
}

pub fn mk_env() -> Env {
    Env { p: crate::shared::pool::Pooled::new(&["clpb"]) }
}

const LIMIT: u64 = 30_000_000;

/// variables of F that are still plain Prolog variables (no CLP(B) attribute, not bound) when
/// the posts have run: not mentioned in a sat/1 post, not bound, and not aliased to such a one
fn fresh_vars(c: &Case, n: u8) -> Vec<u8> {
    let nn = n as usize;
    let mut parent: Vec<usize> = (0..nn).collect();
    let mut state = vec![0u8; nn]; // 0 plain, 1 clpb or bound
    fn find(p: &mut Vec<usize>, i: usize) -> usize {
        let mut r = i;
        while p[r] != r {
            r = p[r];
        }
        p[i] = r;
        r
    }
    for s in &c.steps {
        match s {
            Step::Sat(f) => {
                let vm = f.var_mask(n);
                for i in 0..nn {
                    if (vm >> i) & 1 == 1 {
                        let r = find(&mut parent, i);
                        state[r] = 1;
                    }
                }
            }
            Step::Alias(a, b) => {
                let (ra, rb) = (find(&mut parent, vi(*a, n) as usize), find(&mut parent, vi(*b, n) as usize));
                if ra != rb {
                    parent[ra] = rb;
                    state[rb] = state[rb].max(state[ra]);
                }
            }
            Step::Bind(a, _) => {
                let r = find(&mut parent, vi(*a, n) as usize);
                state[r] = 1;
            }
        }
    }
    let fv = c.f.var_mask(n);
    let mut out = vec![];
    for i in 0..nn {
        if (fv >> i) & 1 == 1 {
            let r = find(&mut parent, i);
            if state[r] == 0 {
                out.push(i as u8);
            }
        }
    }
    out
}

fn step_holds(st: &Step, m: u32, n: u8) -> bool {
    match st {
        Step::Sat(f) => f.eval(m, n),
        Step::Alias(a, b) => ((m >> vi(*a, n)) ^ (m >> vi(*b, n))) & 1 == 0,
        Step::Bind(a, b) => ((m >> vi(*a, n)) & 1 == 1) == *b,
    }
}

fn step_text(st: &Step, n: u8) -> String {
    match st {
        Step::Sat(f) => format!("sat({})", f.to_t(n).text()),
        Step::Alias(a, b) => format!("V{} = V{}", vi(*a, n), vi(*b, n)),
        Step::Bind(a, b) => format!("V{} = {}", vi(*a, n), *b as i32),
    }
}

fn mask_of(t: &T, n: u8) -> Option<u32> {
    let items = t_items(t)?;
    if items.len() != n as usize {
        return None;
    }
    let mut m = 0u32;
    for (i, it) in items.iter().enumerate() {
        match it {
            T::Int(v) if *v == IBig::ZERO => {}
            T::Int(v) if *v == IBig::ONE => m |= 1 << i,
            _ => return None,
        }
    }
    Some(m)
}

fn show_set(set: u64, n: u8) -> String {
    let mut out = vec![];
    for m in 0..(1u32 << n) {
        if (set >> m) & 1 == 1 {
            out.push((0..n).map(|i| if (m >> i) & 1 == 1 { '1' } else { '0' }).collect::<String>());
        }
    }
    format!("{{{}}}", out.join(","))
}

fn common(o: &Outcome, what: &str, q: &str) -> Option<Verdict> {
    match o {
        Outcome::Panic(m) => Some(Verdict::fail(format!("panic:{}", m.split_whitespace().next().unwrap_or("?")), format!("{what}: {q} panicked: {m}"))),
        Outcome::Harness(m) => Some(Verdict::Discard(format!("harness:{}", m.chars().take(40).collect::<String>()))),
        Outcome::Limit => Some(Verdict::Discard("inference-limit".into())),
        Outcome::Ex(b) => {
            let f = match o.formal() {
                Some(T::Cmp(n, _)) => n,
                Some(T::Atom(n)) => n,
                _ => "non-iso".into(),
            };
            Some(Verdict::fail(format!("error:{what}:{f}"), format!("{what}: {q} raised {}", b.text())))
        }
        Outcome::Sols(_) => None,
    }
}

/// solutions (each a 0/1 list for Vs, optionally paired with an extra value) -> multiset check
fn label_set(sols: &[T], n: u8, extra: bool) -> Result<(u64, Vec<T>), String> {
    let mut set = 0u64;
    let mut extras = vec![];
    for s in sols {
        let (x, l) = if extra {
            match s {
                T::Cmp(f, a) if f == "-" && a.len() == 2 => (Some(a[0].clone()), a[1].clone()),
                _ => return Err(format!("unexpected answer shape {}", s.text())),
            }
        } else {
            (None, s.clone())
        };
        let Some(m) = mask_of(&l, n) else { return Err(format!("labeling left a non-0/1 value: {}", l.text())) };
        if (set >> m) & 1 == 1 {
            return Err(format!("assignment {} enumerated twice", l.text()));
        }
        set |= 1 << m;
        if let Some(x) = x {
            extras.push(x);
        }
    }
    Ok((set, extras))
}

pub fn check(env: &mut Env, c: &Case) -> Verdict {
    env.p.begin_case();
    let n = c.nvars.clamp(1, MAXV);
    let total = 1u32 << n;
    let mut m0 = 0u64; // models of the posts
    let mut mf = 0u64; // models of the posts and F
    for m in 0..total {
        if c.steps.iter().all(|s| step_holds(s, m, n)) {
            m0 |= 1 << m;
            if c.f.eval(m, n) {
                mf |= 1 << m;
            }
        }
    }
    let vs = format!("[{}]", (0..n).map(|i| format!("V{i}")).collect::<Vec<_>>().join(","));
    let ws = format!("[{}]", (0..n).map(|i| format!("W{i}")).collect::<Vec<_>>().join(","));
    let mut prefix = c.steps.iter().map(|s| step_text(s, n)).collect::<Vec<_>>().join(", ");
    if prefix.is_empty() {
        prefix = "true".into();
    }
    let ft = c.f.to_t(n).text();

    // 1. sat + labeling
    let q1 = format!("{prefix}, sat({ft}), labeling({vs})");
    let o1 = env.p.s().ask_lim(&q1, &vs, LIMIT);
    if let Some(v) = common(&o1, "labeling", &q1) {
        return v;
    }
    if let Outcome::Sols(sols) = &o1 {
        match label_set(sols, n, false) {
            Err(e) => return Verdict::fail("labeling-shape:", format!("{q1}: {e}")),
            Ok((set, _)) => {
                if set != mf {
                    let cls = if mf == 0 {
                        "sat-of-unsat"
                    } else if set == 0 {
                        "unsat-of-sat"
                    } else if set & !mf != 0 {
                        "non-model"
                    } else {
                        "missing-model"
                    };
                    return Verdict::fail(format!("labeling-set:{cls}"), format!("{q1}: enumerated {} expected {}", show_set(set, n), show_set(mf, n)));
                }
            }
        }
    }

    // 2. sat without labeling: success iff satisfiable, bindings + residual goals == models
    let q2 = format!("{prefix}, sat({ft}), copy_term({vs},{ws},Gs), findall({ws}, (maplist(call,Gs), labeling({ws})), L)");
    let o2 = env.p.s().ask_lim(&q2, &format!("r({ws},Gs,L)"), LIMIT);
    if let Some(v) = common(&o2, "residual", &q2) {
        return v;
    }
    let mut forced_seen = false;
    if let Outcome::Sols(sols) = &o2 {
        if mf == 0 {
            if !sols.is_empty() {
                return Verdict::fail("sat-decision:sat-of-unsat", format!("{q2}: succeeded but the posted conjunction has no model; answer {}", sols[0].text()));
            }
        } else {
            if sols.len() != 1 {
                return Verdict::fail(format!("sat-decision:{}", if sols.is_empty() { "unsat-of-sat" } else { "nondeterministic" }), format!("{q2}: {} answers, expected exactly one (models {})", sols.len(), show_set(mf, n)));
            }
            let (wl, gs, l) = match &sols[0] {
                T::Cmp(r, a) if r == "r" && a.len() == 3 => (a[0].clone(), a[1].clone(), a[2].clone()),
                other => return Verdict::Discard(format!("harness:answer-shape {}", other.text().chars().take(30).collect::<String>())),
            };
            let Some(witems) = t_items(&wl) else { return Verdict::fail("residual-shape:vars", format!("{q2}: {}", wl.text())) };
            let Some(gitems) = t_items(&gs) else { return Verdict::fail("residual-shape:goals", format!("{q2}: {}", gs.text())) };
            let mut rfs = vec![];
            for g in &gitems {
                let f = match g {
                    T::Cmp(c, a) if c == ":" && a.len() == 2 && a[0] == term::atom("clpb") => match &a[1] {
                        T::Cmp(s, b) if s == "sat" && b.len() == 1 => parse_rf(&b[0]),
                        _ => None,
                    },
                    _ => None,
                };
                match f {
                    Some(f) => rfs.push(f),
                    None => return Verdict::fail("residual-shape:goal", format!("{q2}: residual goal {} is not clpb:sat(BooleanExpr)", g.text())),
                }
            }
            // variables of the answer
            let mut vars = vec![];
            wl.vars(&mut vars);
            gs.vars(&mut vars);
            let k = vars.iter().max().map(|m| *m as usize + 1).unwrap_or(0);
            if k > 14 {
                return Verdict::Discard("too-many-residual-variables".into());
            }
            let mut set = 0u64;
            let mut envb = vec![false; k];
            for a in 0..(1u32 << k) {
                for (i, e) in envb.iter_mut().enumerate() {
                    *e = (a >> i) & 1 == 1;
                }
                if rfs.iter().all(|f| f.eval(&mut envb)) {
                    let mut m = 0u32;
                    let mut ok = true;
                    for (i, w) in witems.iter().enumerate() {
                        match w {
                            T::Int(v) if *v == IBig::ZERO => {}
                            T::Int(v) if *v == IBig::ONE => m |= 1 << i,
                            T::Var(x) => {
                                if envb[*x as usize] {
                                    m |= 1 << i
                                }
                            }
                            _ => ok = false,
                        }
                    }
                    if !ok {
                        return Verdict::fail("residual-shape:binding", format!("{q2}: a variable was bound to a non-Boolean: {}", wl.text()));
                    }
                    set |= 1 << m;
                }
            }
            if set != mf {
                let cls = if set & !mf != 0 { "too-weak" } else { "too-strong" };
                return Verdict::fail(format!("residual-set:{cls}"), format!("{q2}: bindings {} with residual goals {} accept {} but the models are {}", wl.text(), gs.text(), show_set(set, n), show_set(mf, n)));
            }
            // every unbound variable that occurs in a posted formula must stay constrained to be Boolean
            let mut mentioned = c.f.var_mask(n);
            for s in &c.steps {
                if let Step::Sat(f) = s {
                    mentioned |= f.var_mask(n);
                }
            }
            let mut gvars = vec![];
            gs.vars(&mut gvars);
            for (i, w) in witems.iter().enumerate() {
                if let T::Var(x) = w {
                    if (mentioned >> i) & 1 == 1 && !gvars.contains(x) {
                        return Verdict::fail("residual-set:boolean-dropped", format!("{q2}: V{i} occurs in a posted formula, is unbound, and no residual goal mentions it: {} {}", wl.text(), gs.text()));
                    }
                }
            }
            // re-posting the residual goals on the copy
            let Some(litems) = t_items(&l) else { return Verdict::fail("residual-shape:repost", format!("{q2}: {}", l.text())) };
            match label_set(&litems, n, false) {
                Err(e) => return Verdict::fail("repost-shape:", format!("{q2}: {e}")),
                Ok((set2, _)) => {
                    if set2 != mf {
                        return Verdict::fail("repost-set:", format!("{q2}: re-posting the residual goals {} and labeling enumerated {} expected {}", gs.text(), show_set(set2, n), show_set(mf, n)));
                    }
                }
            }
            // forced values are propagated (domain consistency, as documented in clpb.pl)
            for (i, w) in witems.iter().enumerate() {
                let ones = (0..total).filter(|m| (mf >> m) & 1 == 1 && (m >> i) & 1 == 1).count();
                let all = mf.count_ones() as usize;
                if ones == 0 || ones == all {
                    forced_seen = true;
                    if matches!(w, T::Var(_)) {
                        return Verdict::fail("propagation:forced-not-bound", format!("{q2}: every model has V{i}={} but V{i} is still unbound: {} (models {})", (ones == all) as i32, wl.text(), show_set(mf, n)));
                    }
                }
            }
        }
    }

    // 3. taut/2 (decision only)
    let q3 = format!("{prefix}, taut({ft},T)");
    let o3 = env.p.s().ask_lim(&q3, "T", LIMIT);
    if let Some(v) = common(&o3, "taut", &q3) {
        return v;
    }
    let expect_t: Option<i32> = if m0 == 0 {
        None
    } else if mf == m0 {
        Some(1)
    } else if mf == 0 {
        Some(0)
    } else {
        None
    };
    if let Outcome::Sols(ts) = &o3 {
        match expect_t {
            None => {
                if !ts.is_empty() {
                    return Verdict::fail(format!("taut:should-fail-gave-{}", ts[0].text().chars().take(8).collect::<String>()), format!("{q3}: gave T={} but F is neither entailed nor refuted (posts have {} models, {} of them satisfy F)", ts[0].text(), m0.count_ones(), mf.count_ones()));
                }
            }
            Some(tv) => {
                if ts.is_empty() {
                    return Verdict::fail(format!("taut:failed-expected-{tv}"), format!("{q3}: failed, expected T={tv} (posts have {} models, {} satisfy F)", m0.count_ones(), mf.count_ones()));
                }
                if ts.len() != 1 || ts[0] != term::int(tv) {
                    return Verdict::fail(format!("taut:gave-{}-expected-{tv}", ts[0].text().chars().take(8).collect::<String>()), format!("{q3}: answers {} expected exactly T={tv}", o3.short()));
                }
            }
        }
    }

    // 4. sat_count/2
    let fv = c.f.var_mask(n);
    let mut proj = std::collections::HashSet::new();
    for m in 0..total {
        if (mf >> m) & 1 == 1 {
            proj.insert(m & fv);
        }
    }
    let expect_n = proj.len() as i64;
    let q4 = format!("{prefix}, sat_count({ft},N), labeling({vs})");
    let o4 = env.p.s().ask_lim(&q4, &format!("N-{vs}"), LIMIT);
    if let Some(v) = common(&o4, "sat_count", &q4) {
        return v;
    }
    if let Outcome::Sols(sols) = &o4 {
        match label_set(sols, n, true) {
            Err(e) => return Verdict::fail("count-shape:", format!("{q4}: {e}")),
            Ok((set, ns)) => {
                if let Some(bad) = ns.iter().find(|t| **t != term::int(expect_n)) {
                    let dir = match bad {
                        T::Int(b) if *b > IBig::from(expect_n) => "over",
                        T::Int(_) => "under",
                        _ => "non-integer",
                    };
                    return Verdict::fail(format!("count:{dir}"), format!("{q4}: N={} expected {expect_n}", bad.text()));
                }
                if set != m0 {
                    return Verdict::fail("count:side-effect", format!("{q4}: after sat_count/2 the posts enumerate {} expected {}", show_set(set, n), show_set(m0, n)));
                }
            }
        }
    }

    // 5. taut/2 leaves the posts (and the variables) usable: labeling afterwards enumerates the
    //    models of the posts. Variables of F that are still plain at that point are first made
    //    CLP(B) variables by posting the tautology +[1,V..] unless the case is `raw`
    //    (known finding taut-then-unify:fresh-variable).
    let fresh = fresh_vars(c, n);
    let guard = if fresh.is_empty() || c.raw { String::new() } else { format!("sat('+'([1,{}])), ", fresh.iter().map(|i| format!("V{i}")).collect::<Vec<_>>().join(",")) };
    if let Some(tv) = expect_t {
        let q5 = format!("{prefix}, {guard}taut({ft},T), labeling({vs})");
        let o5 = env.p.s().ask_lim(&q5, &format!("T-{vs}"), LIMIT);
        if let Some(v) = common(&o5, "taut-label", &q5) {
            return v;
        }
        if let Outcome::Sols(sols) = &o5 {
            match label_set(sols, n, true) {
                Err(e) => return Verdict::fail("taut-label-shape:", format!("{q5}: {e}")),
                Ok((set, ts)) => {
                    if set != m0 || ts.iter().any(|t| *t != term::int(tv)) {
                        let sig = if !fresh.is_empty() && c.raw && set & !m0 == 0 { "taut-then-unify:fresh-variable" } else { "taut-then-label:side-effect" };
                        return Verdict::fail(sig, format!("{q5}: after taut/2 (T={tv}) labeling enumerates {} expected the models of the posts {} (variables first seen by taut/2: {:?})", show_set(set, n), show_set(m0, n), fresh));
                    }
                }
            }
        }
    }

    // classes
    let mut classes: Vec<&str> = vec![];
    let has_card = c.f.has_card() || c.steps.iter().any(|s| matches!(s, Step::Sat(f) if f.has_card()));
    let has_list = c.f.has_listform() || c.steps.iter().any(|s| matches!(s, Step::Sat(f) if f.has_listform()));
    if has_card {
        classes.push("card");
    }
    if has_list {
        classes.push("list-form");
    }
    if c.steps.iter().any(|s| matches!(s, Step::Sat(_))) {
        classes.push("prior-sat-posts");
    }
    if c.steps.iter().any(|s| matches!(s, Step::Alias(a, b) if vi(*a, n) != vi(*b, n))) {
        classes.push("aliasing");
    }
    if c.steps.iter().any(|s| matches!(s, Step::Bind(..))) {
        classes.push("binding");
    }
    if m0 == 0 {
        classes.push("posts-unsat");
    } else if mf == 0 {
        classes.push("taut-0");
    } else if mf == m0 {
        classes.push("taut-1");
    } else {
        classes.push("taut-fails");
    }
    if mf == 0 {
        classes.push("unsat");
    }
    if forced_seen {
        classes.push("forced-variable");
    }
    if !fresh.is_empty() && expect_t.is_some() {
        classes.push(if c.raw { "taut-fresh-var-raw" } else { "taut-fresh-var-guarded" });
    }
    if expect_n as u32 != mf.count_ones() {
        classes.push("count-projects");
    }
    let fnodes = c.f.nodes() + c.steps.iter().map(|s| if let Step::Sat(f) = s { f.nodes() } else { 0 }).sum::<usize>();
    if fnodes >= 10 {
        classes.push("formulas>=10-nodes");
    }
    if fnodes >= 25 {
        classes.push("formulas>=25-nodes");
    }
    classes.push(match n {
        1..=2 => "vars-1-2",
        3..=5 => "vars-3-5",
        _ => "vars-6",
    });
    let nm = mf.count_ones();
    let nontrivial = (n >= 3 && nm > 0 && nm < total) || has_card;
    Verdict::pass(nontrivial, &classes)
}

pub struct C46;

impl Prop for C46 {
    fn id(&self) -> &'static str {
        "C46"
    }
    fn rule(&self) -> &'static str {
        "histories of 0..3 posts (sat/1 of a formula, aliasing Vi=Vj, binding Vi=0/1) over 1..6 variables followed by a query formula (<= ~25 nodes over ~ * + # =:= =\\= =< >= < > card/2 +[..] *[..] 0 1); each case runs sat+labeling, sat+copy_term/3 residuals (evaluated by truth table and re-posted), taut/2 and sat_count/2 (each followed by labeling to show the posts are untouched) and compares with the 2^n-row truth table; non-trivial = (n>=3 and 0 < #models < 2^n) or a card/2 occurs; distinct by case encoding"
    }
    fn assumptions(&self) -> Vec<String> {
        vec![
            "the reader parses canonical functional notation; findall/copy_term/3/call_with_inference_limit work (other properties)".into(),
            "sat_count/2 counts over the variables that syntactically occur in Expr (library documentation)".into(),
        ]
    }
    fn run_shard(&self, cfg: &ShardCfg) -> ShardResult {
        let mut d = Driver::new(cfg, "C46");
        let n = cfg.share(cfg.tier.pick(20_000, 800_000));
        d.run("history", 0, n, 1500, case_strategy(), &mk_env, &check);
        d.finish()
    }
    fn replay(&self, _kind: &str, case: &Value) -> Verdict {
        replay_case::<Case, Env>(case, &mk_env, &check)
    }
}
