//! C34 — Large and deeply nested terms never crash the process.
//!
//! Every case = (operation, shape, size) runs in a child process of its own (`vcheck child C34 op`)
//! on the main thread with the default 8 MiB stack, i.e. what a command-line user has. The child
//! builds the term inside Prolog (prolog/c34.pl), runs the operation and prints a small verdict;
//! the large term is never bound to a query variable. Texts for read_term/consult are produced
//! by the harness itself (not by writeq), so reader and writer are judged independently.
//! A child that dies from a signal / "has overflowed its stack" is a violation whose signature
//! carries (operation, shape, smallest failing size of the ladder).
use crate::engine::*;
use crate::session::{Outcome, Session};
use proptest::prelude::*;
use serde::{Deserialize, Serialize};
use serde_json::{json, Value};
use std::path::PathBuf;

pub const C34_PL: &str = include_str!("../../prolog/c34.pl");

pub const SHAPES: &[&str] = &["list", "nest_r", "nest_l", "nest_last", "conj", "string", "wide_chain", "opchain"];
pub const OPS: &[&str] = &[
    "build", "copy_term", "compare", "unify", "writeq", "write_canonical", "read_term", "read_from_chars", "assert", "consult", "findall", "sort", "length", "ground_vars", "univ_functor", "throw_catch", "atom_roundtrip", "number_roundtrip", "term_size",
];
pub const LADDER: &[u32] = &[1_000, 10_000, 100_000, 300_000, 1_000_000];

fn applicable(op: &str, shape: &str) -> bool {
    match op {
        "length" => matches!(shape, "list" | "string"),
        "atom_roundtrip" | "number_roundtrip" => shape == "string",
        _ => true,
    }
}

#[derive(Clone, Debug, Serialize, Deserialize)]
pub struct Case {
    pub op: String,
    pub shape: String,
    pub size: u32,
}

#[derive(Clone, Debug, Serialize, Deserialize)]
pub struct SeqCase {
    pub shape: u16,
    pub size: u32,
    pub ops: Vec<u16>,
}

/// the term of a shape as text (independent of scryer's writer)
pub fn shape_text(shape: &str, n: usize) -> String {
    let n = n.max(1);
    match shape {
        "list" => {
            let mut s = String::with_capacity(2 * n + 2);
            s.push('[');
            for i in 0..n {
                if i > 0 {
                    s.push(',');
                }
                s.push('a');
            }
            s.push(']');
            s
        }
        "nest_r" => format!("{}x{}", "f(".repeat(n), ")".repeat(n)),
        "nest_l" => format!("{}x{}", "g(".repeat(n), ",x)".repeat(n)),
        "nest_last" => format!("{}x{}", "h(x,".repeat(n), ")".repeat(n)),
        "conj" => format!("(a{})", ",a".repeat(n - 1)),
        "string" => format!("\"{}\"", "a".repeat(n)),
        "wide_chain" => {
            let k = (n / 256).max(1);
            let mut head = String::from("w(");
            for i in 1..=254 {
                head.push_str(&format!("{i},"));
            }
            format!("{}x{}", head.repeat(k), ")".repeat(k))
        }
        "opchain" => format!("1{}", "+1".repeat(n - 1)),
        _ => panic!("unknown shape {shape}"),
    }
}

static DIR_SEQ: std::sync::atomic::AtomicU64 = std::sync::atomic::AtomicU64::new(0);

/// a directory for the child's files, named and removed by the parent (a crashed child cannot tidy up)
fn scratch_dir_name() -> PathBuf {
    let n = DIR_SEQ.fetch_add(1, std::sync::atomic::Ordering::SeqCst);
    PathBuf::from(verif_dir()).join("scratch").join(format!("c34-{}-{n}", std::process::id()))
}

/// in the child: run the operations of one case on one machine, print one RESULT line per op
fn child_run(shape: &str, size: u32, ops: &[String], dir: PathBuf) -> i32 {
    std::fs::create_dir_all(&dir).ok();
    let mut s = Session::new(&[]);
    if !s.consult(C34_PL, "c34") {
        println!("RESULT harness:c34.pl-did-not-load");
        return 0;
    }
    for op in ops {
        let file = dir.join("t.pl");
        match op.as_str() {
            "read_term" | "read_from_chars" => {
                std::fs::write(&file, format!("{} .\n", shape_text(shape, size as usize))).expect("write term file");
            }
            "consult" => {
                // abolish what an earlier consult of this sequence defined (consult replaces it anyway)
                std::fs::write(&file, format!("c34_loaded({}).\n", shape_text(shape, size as usize))).expect("write program file");
            }
            _ => {}
        }
        let goal = format!("c34_run({op}, {shape}, {size}, '{}', V)", file.display());
        let o = s.ask_once(&goal, "V");
        let line = match &o {
            Outcome::Sols(v) if v.len() == 1 => v[0].text(),
            Outcome::Sols(_) => "harness:no-verdict".to_string(),
            Outcome::Panic(m) => format!("panic:{}", m.split_whitespace().next().unwrap_or("?")),
            other => format!("harness:{}", other.short().chars().take(80).collect::<String>()),
        };
        println!("RESULT {op} {line}");
        use std::io::Write;
        std::io::stdout().flush().ok();
        if s.poisoned {
            break;
        }
    }
    0
}

#[derive(Debug, Clone, PartialEq)]
enum Res {
    /// verdict text per op
    Done(Vec<(String, String)>),
    Crash(String, String),
    Timeout,
}

/// time budget of a child at the large sizes (set per tier by run_shard)
static BIG_TIMEOUT_S: std::sync::atomic::AtomicU64 = std::sync::atomic::AtomicU64::new(900);

fn timeout_for(size: u32) -> u64 {
    if size >= 300_000 {
        BIG_TIMEOUT_S.load(std::sync::atomic::Ordering::SeqCst)
    } else {
        300
    }
}

fn run_case(shape: &str, size: u32, ops: &[String]) -> Res {
    let dir = scratch_dir_name();
    let input = json!({"shape": shape, "size": size, "ops": ops, "dir": dir.to_string_lossy()});
    let o = run_child("C34", "ops", &input, timeout_for(size), &[]);
    let _ = std::fs::remove_dir_all(&dir);
    if o.timed_out {
        return Res::Timeout;
    }
    let done: Vec<(String, String)> = o
        .stdout
        .lines()
        .filter_map(|l| l.strip_prefix("RESULT "))
        .map(|l| {
            let mut it = l.splitn(2, ' ');
            (it.next().unwrap_or("").to_string(), it.next().unwrap_or("").to_string())
        })
        .collect();
    if o.crashed() || o.code != Some(0) {
        let kind = if o.stack_overflow() {
            "stack-overflow".to_string()
        } else if let Some(sig) = o.signal {
            match sig {
                11 => "sigsegv".to_string(),
                6 => "sigabrt".to_string(),
                9 => "sigkill".to_string(),
                n => format!("signal-{n}"),
            }
        } else {
            format!("exit-{}", o.code.unwrap_or(-1))
        };
        // the op that was running = the first one without a RESULT line
        let running = ops.get(done.len()).cloned().unwrap_or_else(|| "after-last-op".into());
        let tail: String = o.stderr.lines().rev().take(3).collect::<Vec<_>>().into_iter().rev().collect::<Vec<_>>().join(" | ");
        return Res::Crash(format!("{kind}:{running}"), tail);
    }
    Res::Done(done)
}

fn judge_verdict(op: &str, shape: &str, size: u32, v: &str) -> Result<Vec<String>, Verdict> {
    let at = format!("{op} on {shape} of size {size}");
    if v == "ok" {
        Ok(vec![])
    } else if v.starts_with("resource(") {
        // a Prolog resource error is an accepted outcome
        Ok(vec![format!("resource-error:{op}:{shape}")])
    } else if v == "failed" {
        Err(Verdict::fail(format!("wrong-verdict:{op}:{shape}"), format!("{at}: the operation failed or its result was not the expected term")))
    } else if let Some(p) = v.strip_prefix("panic:") {
        Err(Verdict::fail(format!("panic:{p}:{op}:{shape}"), format!("{at}: Rust panic at {p}")))
    } else if v.starts_with("err(") {
        Err(Verdict::fail(format!("unexpected-error:{op}:{shape}:{v}"), format!("{at}: raised {v} (only resource errors are acceptable)")))
    } else {
        Err(Verdict::Discard(format!("harness:{}", v.chars().take(60).collect::<String>())))
    }
}

/// signature of a crash: (kind, op, shape, smallest failing ladder size). A known finding
/// "fails from size s on" covers every observed floor >= s.
fn crash_signature(kind_op: &str, shape: &str, floor: u32) -> String {
    for s in LADDER.iter().filter(|s| **s <= floor) {
        let cand = format!("crash:{kind_op}:{shape}:min-size-{s}");
        if is_known_open(&cand) {
            return cand;
        }
    }
    format!("crash:{kind_op}:{shape}:min-size-{floor}")
}

pub fn check(_e: &mut (), c: &Case) -> Verdict {
    if !applicable(&c.op, &c.shape) {
        return Verdict::Discard("not-applicable".into());
    }
    let ops = vec![c.op.clone()];
    match run_case(&c.shape, c.size, &ops) {
        Res::Timeout => Verdict::Discard(format!("timeout:{}:{}:{}", c.op, c.shape, c.size)),
        Res::Done(done) => {
            let Some((_, v)) = done.first() else { return Verdict::Discard("harness:no-result-line".into()) };
            match judge_verdict(&c.op, &c.shape, c.size, v) {
                Ok(extra) => {
                    let size_class = format!("size-{}", c.size);
                    let mut cl: Vec<&str> = vec![size_class.as_str()];
                    for e in &extra {
                        cl.push(e);
                    }
                    Verdict::pass(c.size >= 100_000, &cl)
                }
                Err(v) => v,
            }
        }
        Res::Crash(kind_op, tail) => {
            // smallest failing size of the ladder (descending from the failing size)
            let mut floor = c.size;
            for s in LADDER.iter().rev().filter(|s| **s < c.size) {
                match run_case(&c.shape, *s, &ops) {
                    Res::Crash(..) => floor = *s,
                    _ => break,
                }
            }
            Verdict::fail(crash_signature(&kind_op, &c.shape, floor), format!("{} on a {} term: the process died ({kind_op}) at size {}; smallest failing size of the ladder {:?}: {floor}; stderr: {tail}", c.op, c.shape, c.size, LADDER))
        }
    }
}

pub fn check_seq(_e: &mut (), c: &SeqCase) -> Verdict {
    let shape = crate::gen::pick(SHAPES, c.shape).to_string();
    let ops: Vec<String> = c.ops.iter().map(|k| crate::gen::pick(OPS, *k).to_string()).filter(|o| applicable(o, &shape) && o != "consult").collect();
    if ops.is_empty() {
        return Verdict::Discard("no-applicable-op".into());
    }
    match run_case(&shape, c.size, &ops) {
        Res::Timeout => Verdict::Discard("timeout:seq".into()),
        Res::Done(done) => {
            for (op, v) in &done {
                if let Err(v) = judge_verdict(op, &shape, c.size, v) {
                    return match v {
                        Verdict::Fail { signature, detail } => Verdict::Fail { signature: format!("seq:{signature}"), detail: format!("{detail} (in the sequence {ops:?})") },
                        v => v,
                    };
                }
            }
            Verdict::pass(c.size >= 100_000, &["op-sequence"])
        }
        Res::Crash(kind_op, tail) => Verdict::fail(crash_signature(&kind_op, &shape, c.size), format!("sequence {ops:?} on a {shape} term of size {}: the process died ({kind_op}); stderr: {tail}", c.size)),
    }
}

fn all_pairs(sizes: &[u32]) -> Vec<Case> {
    let mut v = vec![];
    for size in sizes {
        for op in OPS {
            for shape in SHAPES {
                if applicable(op, shape) {
                    v.push(Case { op: op.to_string(), shape: shape.to_string(), size: *size });
                }
            }
        }
    }
    v
}

pub struct C34;

impl Prop for C34 {
    fn id(&self) -> &'static str {
        "C34"
    }
    fn rule(&self) -> &'static str {
        "catalogue: operations {build, copy_term, ==/compare, =, write_term_to_chars+writeq, write_canonical, read_term from a file, read_term_from_chars, assertz/asserta+call+retract, consult of a file holding the term as a fact, findall/bagof, sort/msort, length, ground/term_variables/acyclic_term, =../functor/arg, throw/catch, atom_chars/atom_codes round trip, number_chars round trip, a Prolog-level traversal} x shapes {long list, f(f(..)), g(g(..),x), h(x,h(x,..)), long conjunction, long string, chain of arity-255 nodes, 1+1+..} at sizes 10^4 and 10^6 (quick) or the whole ladder 10^3..10^6 (thorough, plus random operation sequences on one term); each case in a child process on an 8 MiB main-thread stack; the verdict (result equals an independently built term) is computed inside Prolog; non-trivial = size >= 10^5; distinct by (operation, shape, size)"
    }
    fn assumptions(&self) -> Vec<String> {
        vec![
            "the child inherits the default 8 MiB main-thread stack (ulimit -s 8192)".into(),
            "a child that exceeds its time budget (300 s; 900 s from 3*10^5 nodes in the thorough tier) is counted as a discard, never as a violation".into(),
            "an overflow that needs a shape or operation outside the catalogue is not found".into(),
        ]
    }
    fn case_timeout_s(&self, _tier: Tier) -> u64 {
        // a case is a child process with its own time budget (300 s / 900 s, counted as a discard when
        // exceeded): the engine's per-case hang detection must stay well above that
        2000
    }
    fn watchdog_s(&self, tier: Tier) -> u64 {
        tier.pick(7200, 28800)
    }
    fn run_shard(&self, cfg: &ShardCfg) -> ShardResult {
        let mut total = ShardResult::default();
        BIG_TIMEOUT_S.store(cfg.tier.pick(300, 900), std::sync::atomic::Ordering::SeqCst);
        let sizes: Vec<u32> = cfg.tier.pick(vec![10_000, 1_000_000], LADDER.to_vec());
        let cases: Vec<Case> = all_pairs(&sizes).into_iter().enumerate().filter(|(i, _)| (*i as u32) % cfg.nshards == cfg.shard).map(|(_, c)| c).collect();
        // run_list stops at the first unknown failure; the pairs are independent, so each gets
        // its own driver and the search goes on
        for c in cases {
            let mut one = Driver::new(cfg, "C34");
            one.run_list("op", vec![c], 1, &|| (), &check);
            total.merge(one.finish());
        }
        let n_seq = cfg.share(cfg.tier.pick(0, 600));
        if n_seq > 0 && total.failures.is_empty() {
            let strat = (any::<u16>(), prop_oneof![Just(10_000u32), Just(100_000u32), Just(300_000u32), Just(1_000_000u32)], proptest::collection::vec(any::<u16>(), 2..=4)).prop_map(|(shape, size, ops)| SeqCase { shape, size, ops });
            let mut d = Driver::new(cfg, "C34");
            d.run("seq", 1, n_seq, 1, strat, &|| (), &check_seq);
            total.merge(d.finish());
        }
        total.exhaustive = true;
        total
    }
    fn replay(&self, kind: &str, case: &Value) -> Verdict {
        match kind {
            "seq" => replay_case::<SeqCase, ()>(case, &|| (), &check_seq),
            _ => replay_case::<Case, ()>(case, &|| (), &check),
        }
    }
    fn child(&self, mode: &str, input: &Value) -> i32 {
        if mode != "ops" {
            return 2;
        }
        let shape = input["shape"].as_str().unwrap_or("list").to_string();
        let size = input["size"].as_u64().unwrap_or(1000) as u32;
        let ops: Vec<String> = input["ops"].as_array().map(|a| a.iter().filter_map(|x| x.as_str().map(|s| s.to_string())).collect()).unwrap_or_default();
        let dir = PathBuf::from(input["dir"].as_str().unwrap_or("/tmp/c34-child"));
        child_run(&shape, size, &ops, dir)
    }
}
