//! C24 — Cyclic terms are processed correctly and always terminate.
use crate::engine::*;
use crate::gen::pick;
use crate::session::Session;
use crate::shared::rtree::{Cmp3, G, N};
use crate::shared::stepq::{run_steps, Step};
use crate::shared::tb;
use crate::term::{self, T};
use dashu::integer::IBig;
use proptest::prelude::*;
use scryer_prolog::Term;
use serde::{Deserialize, Serialize};
use serde_json::Value;
use std::collections::{HashMap, HashSet};

const C24_PL: &str = include_str!("../../prolog/c24.pl");
const BUDGET: usize = 40;

/// one node of the equation system `V_i = rhs_i` (indices are 0-based here, 1-based in Prolog)
#[derive(Clone, Debug, Serialize, Deserialize, PartialEq)]
pub enum Nd {
    /// structure name(kids...)
    F(String, Vec<usize>),
    /// list cell [H|T]
    L(usize, usize),
    /// partial string segment with the given characters whose tail is node T
    S(String, usize),
    A(String),
    I(i64),
    /// stays unbound
    V,
    /// alias V_i = V_j (variable chains)
    R(usize),
}

#[derive(Clone, Debug, Serialize, Deserialize)]
pub struct Case {
    pub nodes: Vec<Nd>,
    /// order in which the equations are solved (a permutation of 0..n)
    pub order: Vec<usize>,
    pub ra: usize,
    pub rb: usize,
    /// operations (names of c24_op/5) in execution order
    pub ops: Vec<String>,
    /// 0 = roots as solved by the equations, 1 = copy_term/2 copy of the roots, 2 = read from text (reader layout, back edges closed afterwards)
    #[serde(default)]
    pub layout: u8,
}

pub const OPS: &[&str] = &["unfold_a", "unfold_b", "acyclic_a", "acyclic_b", "ground_a", "ground_b", "tvars_a", "tvars_b", "eq", "neq", "cmp", "cmp_swap", "lt", "copy", "unify"];

// ---------------------------------------------------------------------------------------------
// generators

fn node_strategy(n: usize) -> BoxedStrategy<Nd> {
    let idx = move || 0..n;
    prop_oneof![
        5 => (any::<u16>(), proptest::collection::vec(idx(), 1..=3)).prop_map(|(k, kids)| Nd::F(pick(&["f", "g", "h"], k).to_string(), kids)),
        4 => (idx(), idx()).prop_map(|(h, t)| Nd::L(h, t)),
        2 => (any::<u16>(), idx()).prop_map(|(k, t)| Nd::S(pick(&["a", "ab", "abc", "abcdefgh", "é", "a\0b"], k).to_string(), t)),
        2 => any::<u16>().prop_map(|k| Nd::A(pick(&["a", "b", "[]"], k).to_string())),
        1 => (0i64..3).prop_map(Nd::I),
        2 => Just(Nd::V),
        2 => idx().prop_map(Nd::R),
    ]
    .boxed()
}

fn shuffle(n: usize, seed: u64) -> Vec<usize> {
    let mut v: Vec<usize> = (0..n).collect();
    if seed == 0 {
        return v;
    }
    let mut r = tb::Rng::new(seed);
    for i in (1..n).rev() {
        let j = r.below(i as u64 + 1) as usize;
        v.swap(i, j);
    }
    v
}

fn ops_strategy() -> BoxedStrategy<Vec<String>> {
    // acyclic_term/1 only in a third of the cases (see known finding), everything else freely
    (proptest::collection::vec(any::<u16>(), 3..=9), 0u8..3)
        .prop_map(|(ks, acyc)| {
            let mut out = vec!["noop".to_string()];
            for k in ks {
                let op = pick(OPS, k);
                if op.starts_with("acyclic") && acyc != 0 {
                    continue;
                }
                out.push(op.to_string());
            }
            out
        })
        .boxed()
}

/// a random graph with two random roots
fn random_graph() -> BoxedStrategy<(Vec<Nd>, usize, usize)> {
    (1usize..=7).prop_flat_map(|n| (proptest::collection::vec(node_strategy(n), n), 0..n, 0..n)).boxed()
}

/// a graph and a partially unrolled copy of it: node i+n mirrors node i, its children point to
/// originals or copies at random (bisimilar by construction); optionally one copy is altered
fn unrolled_graph() -> BoxedStrategy<(Vec<Nd>, usize, usize)> {
    (1usize..=5)
        .prop_flat_map(|n| (proptest::collection::vec(node_strategy(n), n), 0..n, any::<u64>(), prop::option::weighted(0.4, (0..n, any::<u8>()))))
        .prop_map(|(nodes, root, seed, alter)| {
            let n = nodes.len();
            let mut r = tb::Rng::new(seed | 1);
            let mut all = nodes.clone();
            for nd in &nodes {
                let mut m = |k: usize| if r.below(2) == 0 { k } else { k + n };
                let c = match nd {
                    Nd::F(name, kids) => Nd::F(name.clone(), kids.iter().map(|k| m(*k)).collect()),
                    Nd::L(h, t) => Nd::L(m(*h), m(*t)),
                    Nd::S(s, t) => Nd::S(s.clone(), m(*t)),
                    Nd::A(a) => Nd::A(a.clone()),
                    Nd::I(i) => Nd::I(*i),
                    // the copy of a variable (or of an alias) is the variable itself
                    Nd::V => Nd::R(all.len() - n),
                    Nd::R(j) => Nd::R(m(*j)),
                };
                all.push(c);
            }
            // fix the V copies: node i+n of a V node i must alias node i
            for i in 0..n {
                if nodes[i] == Nd::V {
                    all[i + n] = Nd::R(i);
                }
            }
            if let Some((k, how)) = alter {
                let i = k + n;
                all[i] = match (&all[i], how % 4) {
                    (Nd::F(name, kids), 0) => Nd::F(format!("{name}x"), kids.clone()),
                    (Nd::F(name, kids), 1) => {
                        let mut kk = kids.clone();
                        kk.push(k);
                        Nd::F(name.clone(), kk)
                    }
                    (Nd::S(s, t), _) => Nd::S(format!("{s}b"), *t),
                    (Nd::A(_), _) => Nd::A("zz".into()),
                    (Nd::I(v), _) => Nd::I(v + 1),
                    (_, 2) => Nd::A("c".into()),
                    (other, _) => other.clone(),
                };
            }
            (all, root, root + n)
        })
        .boxed()
}

pub fn case_strategy() -> BoxedStrategy<Case> {
    (prop_oneof![2 => random_graph(), 3 => unrolled_graph()], prop_oneof![1 => Just(0u64), 3 => any::<u64>()], ops_strategy(), 0u8..=2)
        .prop_map(|((nodes, ra, rb), oseed, ops, layout)| {
            let order = shuffle(nodes.len(), oseed);
            Case { nodes, order, ra, rb, ops, layout }
        })
        .boxed()
}

// ---------------------------------------------------------------------------------------------
// model

pub struct Model {
    pub g: G,
    pub vars: Vec<usize>,
    pub a: usize,
    pub b: usize,
}

pub fn build_model(c: &Case) -> Model {
    let mut g = G::new();
    let n = c.nodes.len();
    let vars: Vec<usize> = (0..n).map(|_| g.var()).collect();
    for &i in &c.order {
        let rhs = match &c.nodes[i] {
            Nd::F(name, kids) => Some(g.push(N::Fn(name.clone(), kids.iter().map(|k| vars[*k]).collect()))),
            Nd::L(h, t) => Some(g.push(N::Fn(".".into(), vec![vars[*h], vars[*t]]))),
            Nd::S(s, t) => {
                let mut tl = vars[*t];
                for ch in s.chars().rev() {
                    let h = g.push(N::Atomic(T::Atom(ch.to_string())));
                    tl = g.push(N::Fn(".".into(), vec![h, tl]));
                }
                Some(tl)
            }
            Nd::A(a) => Some(g.push(N::Atomic(T::Atom(a.clone())))),
            Nd::I(v) => Some(g.push(N::Atomic(T::Int(IBig::from(*v))))),
            Nd::V => None,
            Nd::R(j) => Some(vars[*j]),
        };
        if let Some(r) = rhs {
            let ok = g.unify(vars[i], r);
            assert!(ok, "equation system must be solvable");
        }
    }
    Model { a: vars[c.ra], b: vars[c.rb], g, vars }
}

fn codes(s: &str) -> String {
    let v: Vec<String> = s.chars().map(|c| (c as u32).to_string()).collect();
    format!("[{}]", v.join(","))
}

/// Text of `r(t(A,B), [Var-Path,...])` for layout 2 (see c24.pl): every node of the model graph is
/// written inline at its first pre-order occurrence and as the variable `N<id>` afterwards.
pub fn graph_text(g: &G, a: usize, b: usize) -> String {
    fn go(g: &G, x: usize, path: &mut Vec<usize>, seen: &mut HashMap<usize, Vec<usize>>, again: &mut Vec<usize>, out: &mut String) {
        let x = g.find(x);
        match &g.nodes[x] {
            N::Var => out.push_str(&format!("N{x}")),
            N::Atomic(t) => out.push_str(&t.text()),
            N::Fn(name, kids) => {
                if seen.contains_key(&x) {
                    if !again.contains(&x) {
                        again.push(x);
                    }
                    out.push_str(&format!("N{x}"));
                    return;
                }
                seen.insert(x, path.clone());
                if name == "." && kids.len() == 2 {
                    out.push('[');
                    path.push(1);
                    go(g, kids[0], path, seen, again, out);
                    path.pop();
                    out.push('|');
                    path.push(2);
                    go(g, kids[1], path, seen, again, out);
                    path.pop();
                    out.push(']');
                } else {
                    out.push_str(&term::write_atom(name));
                    out.push('(');
                    for (i, k) in kids.iter().enumerate() {
                        if i > 0 {
                            out.push(',');
                        }
                        path.push(i + 1);
                        go(g, *k, path, seen, again, out);
                        path.pop();
                    }
                    out.push(')');
                }
            }
            N::Ref(_) => unreachable!(),
        }
    }
    let mut seen = HashMap::new();
    let mut again = vec![];
    let mut out = String::from("r(t(");
    let mut path = vec![1];
    go(g, a, &mut path, &mut seen, &mut again, &mut out);
    out.push(',');
    let mut path = vec![2];
    go(g, b, &mut path, &mut seen, &mut again, &mut out);
    out.push_str("),[");
    for (i, x) in again.iter().enumerate() {
        if i > 0 {
            out.push(',');
        }
        let p: Vec<String> = seen[x].iter().map(|k| k.to_string()).collect();
        out.push_str(&format!("'-'(N{x},[{}])", p.join(",")));
    }
    out.push_str("]) .");
    out
}

pub fn query(c: &Case, m: &Model) -> String {
    let mut eqs = vec![];
    for &i in &c.order {
        let nd = match &c.nodes[i] {
            Nd::F(name, kids) => format!("f({},[{}])", codes(name), kids.iter().map(|k| (k + 1).to_string()).collect::<Vec<_>>().join(",")),
            Nd::L(h, t) => format!("l({},{})", h + 1, t + 1),
            Nd::S(s, t) => format!("s({},{})", codes(s), t + 1),
            Nd::A(a) => format!("a({})", codes(a)),
            Nd::I(v) => format!("i({v})"),
            Nd::V => "v".to_string(),
            Nd::R(j) => format!("r({})", j + 1),
        };
        eqs.push(format!("{}-{nd}", i + 1));
    }
    let layout = c.layout % 3;
    let text = if layout == 2 { codes(&graph_text(&m.g, m.a, m.b)) } else { "[]".to_string() };
    format!("c24_steps([{}], {}, {}, {}, {layout}, {text}, {BUDGET}, [{}], R).", eqs.join(","), c.nodes.len(), c.ra + 1, c.rb + 1, c.ops.join(","))
}

// ---------------------------------------------------------------------------------------------
// check

pub struct Env {
    pub s: Session,
}

pub fn mk_env() -> Env {
    Env { s: tb::session_with(&[], &[C24_PL]) }
}

fn valid(c: &Case) -> bool {
    let n = c.nodes.len();
    if n == 0 || n > 24 || c.ra >= n || c.rb >= n || c.order.len() != n {
        return false;
    }
    let mut seen = vec![false; n];
    for &i in &c.order {
        if i >= n || seen[i] {
            return false;
        }
        seen[i] = true;
    }
    let ok = |k: &usize| *k < n;
    c.nodes.iter().all(|nd| match nd {
        Nd::F(name, kids) => !name.is_empty() && !kids.is_empty() && kids.iter().all(ok),
        Nd::L(h, t) => ok(h) && ok(t),
        Nd::S(s, t) => !s.is_empty() && ok(t),
        Nd::R(j) => ok(j),
        _ => true,
    }) && c.ops.iter().all(|o| o == "noop" || OPS.contains(&o.as_str()))
}

fn atom_of(t: &Term) -> Option<&str> {
    match t {
        Term::Atom(a) => Some(a.as_str()),
        _ => None,
    }
}

fn ord_name(o: &Cmp3) -> &'static str {
    match o {
        Cmp3::Less => "<",
        Cmp3::Greater => ">",
        Cmp3::Equal => "=",
        Cmp3::Vars(..) => "vars",
        Cmp3::Unknown => "unknown",
    }
}

fn variant_t(a: &T, b: &T) -> bool {
    a.variant(b)
}

pub fn check(env: &mut Env, c: &Case) -> Verdict {
    if !valid(c) {
        return Verdict::Discard("bad-case".into());
    }
    let m = build_model(c);
    let g = &m.g;
    let q = query(c, &m);
    if std::env::var("VERIF_DEBUG_QUERY").is_ok() {
        eprintln!("QUERY: {q}");
    }
    // collect the steps
    let mut results: Vec<(String, Term)> = vec![];
    let mut hashes: Vec<u64> = vec![];
    let mut prefix = 0usize;
    let mut bad: Option<String> = None;
    let expected_steps = 1 + 2 * c.ops.len();
    let r = run_steps(&mut env.s.machine, &q, expected_steps + 4, &mut |i, step, view| {
        let Step::Answer(b) = step else {
            bad = Some(format!("step {i}: not an answer with bindings"));
            return false;
        };
        let Some(rv) = b.get("R") else {
            bad = Some(format!("step {i}: no binding for R"));
            return false;
        };
        match rv {
            Term::Integer(z) if *z == IBig::ZERO => {
                if i == 0 {
                    prefix = view.verif_footprint().heap_cells;
                }
                hashes.push(view.verif_heap_prefix_hash(prefix));
                // stop at once when an operation other than =/2 changed the heap below the
                // baseline top: later operations would run on a damaged term
                let k = hashes.len() - 1;
                if k >= 1 && hashes[k] != hashes[0] && c.ops.get(k - 1).map(|o| o != "unify").unwrap_or(false) {
                    return false;
                }
            }
            Term::Compound(n, args) if n == "res" && args.len() == 2 => {
                results.push((atom_of(&args[0]).unwrap_or("?").to_string(), args[1].clone()));
            }
            other => {
                bad = Some(format!("step {i}: unexpected R = {other:?}"));
                return false;
            }
        }
        true
    });
    let desc = format!("nodes {:?} order {:?} A=#{} B=#{} layout {}", c.nodes, c.order, c.ra, c.rb, c.layout);
    // an operation that left the heap changed is reported as such even when a later operation
    // crashed on the damaged term
    let heap_changed = |hashes: &Vec<u64>| -> Option<Verdict> {
        for k in 0..c.ops.len() {
            if k + 1 < hashes.len() && c.ops[k] != "unify" && hashes[k + 1] != hashes[0] {
                let op = &c.ops[k];
                if op == "noop" {
                    return Some(Verdict::Discard("harness:hash-baseline-unstable".into()));
                }
                let what = if op.starts_with("acyclic") { "acyclic_term" } else { op.trim_end_matches("_a").trim_end_matches("_b") };
                return Some(Verdict::fail(format!("heap-changed:{what}"), format!("{desc}: the {prefix} heap cells that existed before {op} differ afterwards (ops {:?})", c.ops)));
            }
        }
        None
    };
    let nsteps = match r {
        Err(p) => {
            env.s.poisoned = true;
            if let Some(v) = heap_changed(&hashes) {
                return v;
            }
            return Verdict::fail(format!("panic:{}", p.split_whitespace().next().unwrap_or("?")), format!("{desc} ops {:?}: {p}", c.ops));
        }
        Ok(n) => n,
    };
    if let Some(v) = heap_changed(&hashes) {
        env.s.poisoned = true;
        return v;
    }
    if let Some(b) = bad {
        return Verdict::fail("steps:malformed", format!("{desc} ops {:?}: {b}", c.ops));
    }
    if nsteps != expected_steps || results.len() != c.ops.len() || hashes.len() != c.ops.len() + 1 {
        return Verdict::fail("steps:count", format!("{desc} ops {:?}: {nsteps} solutions instead of {expected_steps} (an operation failed, threw or left a choice point)", c.ops));
    }
    let h0 = hashes[0];
    let bis = g.bisim(m.a, m.b);
    let lazy = g.cmp_lazy(m.a, m.b, 50_000);
    let mut cmp_seen: Option<String> = None;
    let mut classes: Vec<String> = vec![];
    for (k, op) in c.ops.iter().enumerate() {
        let (rop, res) = &results[k];
        if rop != op {
            return Verdict::fail("steps:order", format!("{desc}: result {k} is for {rop}, expected {op}"));
        }
        if let Term::Compound(n, a) = res {
            if n == "ex" && a.len() == 1 {
                return Verdict::fail(format!("raised:{op}"), format!("{desc}: {op} raised {:?}", a[0]));
            }
        }
        if atom_of(res) == Some("failed") {
            return Verdict::fail(format!("failed:{op}"), format!("{desc}: {op} failed"));
        }
        // heap prefix bit-identical after every operation except unification
        if op != "unify" && hashes[k + 1] != h0 {
            if op == "noop" {
                return Verdict::Discard("harness:hash-baseline-unstable".into());
            }
            let what = if op.starts_with("acyclic") { "acyclic_term" } else { op.trim_end_matches("_a").trim_end_matches("_b") };
            return Verdict::fail(format!("heap-changed:{what}"), format!("{desc}: the {prefix} heap cells that existed before {op} differ afterwards (ops {:?})", c.ops));
        }
        let root = |x: &str| if x.ends_with("_b") { m.b } else { m.a };
        let yn = |want: bool| -> Option<Verdict> {
            let got = atom_of(res);
            if got != Some(if want { "yes" } else { "no" }) {
                Some(Verdict::fail(format!("wrong-answer:{}", op.trim_end_matches("_a").trim_end_matches("_b")), format!("{desc}: {op} gave {got:?}, expected {}", if want { "yes" } else { "no" })))
            } else {
                None
            }
        };
        let unf = |gg: &G, id: usize, res: &Term, what: &str| -> Option<Verdict> {
            let got = match term::decode(res) {
                Ok(t) => t.norm(),
                Err(e) => return Some(Verdict::Discard(format!("harness:decode:{}", e.chars().take(30).collect::<String>()))),
            };
            let mut k = BUDGET;
            let want = gg.unfold_budget(id, &mut k).norm();
            if !variant_t(&got, &want) {
                Some(Verdict::fail(format!("wrong-unfolding:{what}"), format!("{desc}: {op}: unfolding (budget {BUDGET}) {} expected {}", got.text(), want.text())))
            } else {
                None
            }
        };
        let v = match op.as_str() {
            "noop" => None,
            "unfold_a" | "unfold_b" => unf(g, root(op), res, "build"),
            "acyclic_a" | "acyclic_b" => yn(g.acyclic(root(op))),
            "ground_a" | "ground_b" => yn(g.ground(root(op))),
            "tvars_a" | "tvars_b" => {
                let mut g2 = g.clone();
                let r0 = root(op);
                let vs = g2.vars(r0);
                let mut tl = g2.push(N::Atomic(term::nil()));
                for v in vs.iter().rev() {
                    tl = g2.push(N::Fn(".".into(), vec![*v, tl]));
                }
                let t = g2.push(N::Fn("t".into(), vec![r0, tl]));
                unf(&g2, t, res, "term_variables")
            }
            "eq" => yn(bis),
            "neq" => yn(!bis),
            "cmp" | "cmp_swap" | "lt" => {
                let got = atom_of(res).unwrap_or("?").to_string();
                if op == "lt" {
                    // consistency with compare/3 is checked when both are present
                    if let Some(cs) = &cmp_seen {
                        if (got == "yes") != (cs == "<") {
                            return Verdict::fail("order-inconsistent:lt", format!("{desc}: compare gave {cs} but @< {got}"));
                        }
                    }
                    if bis && got == "yes" {
                        return Verdict::fail("wrong-answer:lt", format!("{desc}: A @< B holds for bisimilar terms"));
                    }
                    None
                } else {
                    let (want_lazy, flip) = if op == "cmp" { (lazy.clone(), false) } else { (lazy.clone(), true) };
                    let norm = |s: &str| -> String {
                        if !flip {
                            s.to_string()
                        } else {
                            match s {
                                "<" => ">".into(),
                                ">" => "<".into(),
                                o => o.into(),
                            }
                        }
                    };
                    let as_ab = norm(&got); // the answer expressed for (A,B)
                    if !matches!(got.as_str(), "<" | "=" | ">") {
                        return Verdict::fail("wrong-answer:compare", format!("{desc}: {op} gave {got}"));
                    }
                    if (as_ab == "=") != bis {
                        return Verdict::fail("wrong-answer:compare-eq", format!("{desc}: {op} gave {got} but the terms are {}bisimilar", if bis { "" } else { "not " }));
                    }
                    if matches!(want_lazy, Cmp3::Less | Cmp3::Greater) && as_ab != ord_name(&want_lazy) {
                        return Verdict::fail("wrong-answer:compare-order", format!("{desc}: {op} gave {got}; the first pre-order difference is finite and says A {} B", ord_name(&want_lazy)));
                    }
                    if let Some(prev) = &cmp_seen {
                        if *prev != as_ab {
                            return Verdict::fail("order-inconsistent:compare", format!("{desc}: compare/3 answers for (A,B) and (B,A) or repeated calls disagree: {prev} vs {as_ab}"));
                        }
                    }
                    cmp_seen = Some(as_ab);
                    None
                }
            }
            "copy" => {
                // duplicate every node: the copy shares no variable with the original
                let mut g2 = g.clone();
                let off = g2.nodes.len();
                for i in 0..off {
                    let nd = match &g.nodes[i] {
                        N::Var => N::Var,
                        N::Atomic(t) => N::Atomic(t.clone()),
                        N::Fn(n, kids) => N::Fn(n.clone(), kids.iter().map(|k| k + off).collect()),
                        N::Ref(x) => N::Ref(x + off),
                    };
                    g2.nodes.push(nd);
                }
                let t1 = g2.push(N::Fn("t".into(), vec![m.a, m.b]));
                let t2 = g2.push(N::Fn("t".into(), vec![m.a + off, m.b + off]));
                let p = g2.push(N::Fn("p".into(), vec![t1, t2]));
                unf(&g2, p, res, "copy_term")
            }
            "unify" => {
                let mut g2 = g.clone();
                let ok = g2.unify(m.a, m.b);
                match res {
                    Term::Atom(a) if a == "no" => {
                        if ok {
                            Some(Verdict::fail("wrong-answer:unify-fails", format!("{desc}: A = B failed but the graphs are unifiable")))
                        } else {
                            None
                        }
                    }
                    Term::Compound(n, a) if n == "yes" && a.len() == 2 => {
                        if !ok {
                            Some(Verdict::fail("wrong-answer:unify-succeeds", format!("{desc}: A = B succeeded but the graphs are not unifiable")))
                        } else if atom_of(&a[0]) != Some("yes") {
                            Some(Verdict::fail("wrong-answer:unify-not-identical", format!("{desc}: A = B succeeded but A \\== B afterwards")))
                        } else {
                            let t = g2.push(N::Fn("t".into(), vec![m.a, m.b]));
                            unf(&g2, t, &a[1], "unify")
                        }
                    }
                    other => Some(Verdict::fail("wrong-answer:unify", format!("{desc}: unify gave {other:?}"))),
                }
            }
            _ => None,
        };
        if let Some(v) = v {
            return v;
        }
        classes.push(format!("op:{}", op.trim_end_matches("_a").trim_end_matches("_b")));
    }

    // classes / non-trivial rule
    let cyc_a = !g.acyclic(m.a);
    let cyc_b = !g.acyclic(m.b);
    let mut indeg: HashMap<usize, usize> = HashMap::new();
    let mut reach: HashSet<usize> = HashSet::new();
    let mut stack = vec![m.a, m.b];
    let mut through_list = false;
    while let Some(x) = stack.pop() {
        let x = g.find(x);
        if !reach.insert(x) {
            continue;
        }
        if let N::Fn(n, kids) = &g.nodes[x] {
            if n == "." {
                through_list = true;
            }
            for k in kids {
                *indeg.entry(g.find(*k)).or_default() += 1;
                stack.push(*k);
            }
        }
    }
    let shared = indeg.values().any(|d| *d >= 2);
    let cyclic = cyc_a || cyc_b;
    if cyclic {
        classes.push("cyclic".into());
    } else {
        classes.push("finite".into());
    }
    if cyc_a != cyc_b {
        classes.push("one-cyclic".into());
    }
    if bis {
        classes.push("bisimilar".into());
    }
    classes.push(format!("first-diff:{}", ord_name(&lazy)));
    if c.nodes.iter().any(|n| matches!(n, Nd::S(..))) {
        classes.push("has-pstr".into());
    }
    if c.nodes.iter().any(|n| matches!(n, Nd::R(..))) {
        classes.push("has-alias".into());
    }
    classes.push(format!("layout:{}", c.layout % 3));
    let cl: Vec<&str> = classes.iter().map(|s| s.as_str()).collect();
    Verdict::pass(cyclic && (shared || through_list), &cl)
}

pub struct C24;

impl Prop for C24 {
    fn id(&self) -> &'static str {
        "C24"
    }
    fn rule(&self) -> &'static str {
        "term graphs of 1-10 nodes (structures of arity 1-3, list cells, partial-string segments whose tail is bound back into the graph, atoms, integers, unbound variables, variable-alias chains; arbitrary back-edges) realised by solving the equation system V_i = rhs_i with =/2 in a generated order, with two roots A and B: random graphs, or a graph and a partially unrolled copy (bisimilar by construction), optionally altered at one node; per case 3-9 operations out of bounded unfolding (functor/arg), acyclic_term/1, ground/1, term_variables/2, ==, \\==, compare/3 both ways, @<, copy_term/2, =/2, each run in its own solution of one query and compared with graph algorithms (finiteness, bisimulation, rational-tree unification, variable order, lazy pre-order standard order when the first difference is at a finite position, copies up to renaming); after every operation except =/2 the hash of all heap cells that existed before it must be unchanged (mark/forwarding bits, reversed pointers); every operation must terminate (30 s stall monitor, confirmed alone in a fresh process with a 300 s budget); non-trivial = a cycle is reachable and some node has two incoming edges or the graph goes through a list/string cell; distinct by case encoding"
    }
    fn assumptions(&self) -> Vec<String> {
        vec![
            "functor/3 and arg/3 (used by the bounded unfolding that observes the terms) work on cyclic terms".into(),
            "a total order on rational trees is not defined by the statement: compare/3 is only required to say = exactly for bisimilar terms, to be antisymmetric and repeatable, and to follow the standard order when the first pre-order difference is at a finite position".into(),
            "termination: a case that runs for 30 s in the worker (>= 1000x the median case time) is re-run alone in a fresh process with a 300 s budget; only if it does not finish there either it is reported (hang:no-termination); nothing else depends on wall-clock time".into(),
        ]
    }
    fn run_shard(&self, cfg: &ShardCfg) -> ShardResult {
        // Termination (DESIGN 5.3): a monitor thread watches the progress of this worker. When one
        // case has been running for STALL_S seconds (>= 1000x the median case time of a few ms and
        // >= 30 s) the case is re-run alone in a child process with a 10x larger budget; if it
        // does not finish there either, the worker reports `hang:<ops>` for it and exits.
        let progress = std::sync::Arc::new(std::sync::atomic::AtomicU64::new(0));
        let current: std::sync::Arc<std::sync::Mutex<Option<Value>>> = std::sync::Arc::new(std::sync::Mutex::new(None));
        let done = std::sync::Arc::new(std::sync::atomic::AtomicBool::new(false));
        {
            let (progress, current, done) = (progress.clone(), current.clone(), done.clone());
            let out = cfg.journal.as_ref().and_then(|j| j.parent().map(|p| p.join(format!("shard{}.json", cfg.shard))));
            std::thread::spawn(move || {
                let mut last = 0u64;
                let mut since = std::time::Instant::now();
                loop {
                    std::thread::sleep(std::time::Duration::from_millis(500));
                    if done.load(std::sync::atomic::Ordering::SeqCst) {
                        return;
                    }
                    let p = progress.load(std::sync::atomic::Ordering::SeqCst);
                    if p != last {
                        last = p;
                        since = std::time::Instant::now();
                        continue;
                    }
                    if since.elapsed().as_secs() < STALL_S {
                        continue;
                    }
                    let Some(case) = current.lock().unwrap().clone() else { continue };
                    let o = run_child("C24", "case", &case, 10 * STALL_S, &[]);
                    if !o.timed_out {
                        // the case finishes on its own: the stall was something else (load); keep waiting
                        since = std::time::Instant::now();
                        continue;
                    }
                    let ops = case["ops"].as_array().map(|a| a.iter().filter_map(|x| x.as_str()).collect::<Vec<_>>().join(",")).unwrap_or_default();
                    let mut res = ShardResult::default();
                    res.evaluations = p;
                    res.failures.push(Failure {
                        signature: "hang:no-termination".into(),
                        detail: format!("the case did not finish within {STALL_S} s in the worker nor within {} s alone in a fresh process (operations {ops})", 10 * STALL_S),
                        case,
                        kind: "graph".into(),
                    });
                    if let Some(out) = &out {
                        let _ = std::fs::write(out, serde_json::to_vec(&res).unwrap());
                    }
                    std::process::exit(0);
                }
            });
        }
        let check_mon = move |env: &mut Env, c: &Case| -> Verdict {
            *current.lock().unwrap() = Some(serde_json::to_value(c).unwrap());
            progress.fetch_add(1, std::sync::atomic::Ordering::SeqCst);
            check(env, c)
        };
        let mut d = Driver::new(cfg, "C24");
        let n = cfg.share(cfg.tier.pick(30_000, 1_500_000));
        d.run("graph", 0, n, 1000, case_strategy(), &mk_env, &check_mon);
        done.store(true, std::sync::atomic::Ordering::SeqCst);
        d.finish()
    }
    /// replays run the case in a child process so that a non-terminating case is reported
    /// (`hang:no-termination`) instead of hanging the replay
    fn replay(&self, _kind: &str, case: &Value) -> Verdict {
        let o = run_child("C24", "case", case, 10 * STALL_S, &[]);
        if o.timed_out {
            return Verdict::fail("hang:no-termination", format!("the case did not finish within {} s in a fresh process", 10 * STALL_S));
        }
        if o.crashed() || o.code.is_none() {
            // let the ordinary in-process path report crashes with their details
            return replay_case::<Case, Env>(case, &mk_env, &check);
        }
        let line = o.stdout.lines().find(|l| l.starts_with("VERDICT ")).unwrap_or("").to_string();
        let mut it = line.splitn(3, ' ');
        let _ = it.next();
        match (it.next(), it.next()) {
            (Some("pass"), _) => Verdict::pass(false, &[]),
            (Some("discard"), w) => Verdict::Discard(w.unwrap_or("").to_string()),
            (Some("fail"), Some(rest)) => {
                let (sig, detail) = rest.split_once(" :: ").unwrap_or((rest, ""));
                Verdict::fail(sig.to_string(), detail.to_string())
            }
            _ => replay_case::<Case, Env>(case, &mk_env, &check),
        }
    }
    /// `vcheck child C24 case <file>`: one case on a fresh machine, verdict on stdout
    fn child(&self, mode: &str, input: &Value) -> i32 {
        if mode != "case" {
            return 2;
        }
        match replay_case::<Case, Env>(input, &mk_env, &check) {
            Verdict::Pass { .. } => println!("VERDICT pass"),
            Verdict::Discard(w) => println!("VERDICT discard {w}"),
            Verdict::Fail { signature, detail } => println!("VERDICT fail {signature} :: {}", detail.replace('\n', " ")),
        }
        0
    }
    fn watchdog_s(&self, tier: Tier) -> u64 {
        tier.pick(1500, 14400)
    }
}

/// seconds without progress after which the running case is examined alone (see run_shard)
const STALL_S: u64 = 30;
