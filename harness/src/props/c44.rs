//! C44 — Prolog flags read back what was set.
//!
//! A case is a history of set_prolog_flag/2 calls, current_prolog_flag/2 reads (flag and value
//! each bound or unbound) and behaviour probes, run on a fresh machine inside one query
//! (prolog/c44.pl). The model state is seeded from the enumeration the fresh machine reports.
use crate::engine::*;
use crate::gen::pick;
use crate::session::{Outcome, Session};
use crate::term::{atom, cmp, int, list, nil, T};
use dashu::integer::IBig;
use proptest::prelude::*;
use serde::{Deserialize, Serialize};
use serde_json::Value;
use std::collections::BTreeMap;

/// Signatures carry no ':' (the driver shrinks within the text before the first ':'; with a
/// colon-free signature a failure can only shrink to a case with exactly the same signature, so an
/// unknown failure can never be minimised into a tolerated known one). Panics keep their form.
fn vfail(sig: impl Into<String>, detail: impl Into<String>) -> Verdict {
    Verdict::fail(nsig(&sig.into()), detail)
}
fn nsig(s: &str) -> String {
    if s.starts_with("panic:") {
        s.to_string()
    } else {
        s.trim_end_matches(':').replace(':', "/")
    }
}

pub const C44_PL: &str = include_str!("../../prolog/c44.pl");

#[derive(Clone, Debug, Serialize, Deserialize)]
pub enum Step {
    Set { f: T, v: T },
    Get { f: T, v: T },
    /// 0 = double_quotes (read "ab"), 1 = occurs_check (X = f(X)), 2 = unknown (undefined call)
    Probe(u8),
}

#[derive(Clone, Debug, Serialize, Deserialize)]
pub struct Case {
    pub steps: Vec<Step>,
}

pub const FLAGS: &[&str] = &["bounded", "max_integer", "min_integer", "integer_rounding_function", "max_arity", "double_quotes", "unknown", "occurs_check", "answer_write_options"];
pub const WRITABLE: &[&str] = &["double_quotes", "unknown", "occurs_check", "answer_write_options"];

fn is_flag(f: &str) -> bool {
    FLAGS.contains(&f)
}
fn writable(f: &str) -> bool {
    WRITABLE.contains(&f)
}

fn awo_values() -> Vec<T> {
    vec![
        nil(),
        list(vec![cmp("quoted", vec![atom("true")])]),
        list(vec![cmp("max_depth", vec![int(5)])]),
        list(vec![cmp("quoted", vec![atom("false")]), cmp("max_depth", vec![int(2)])]),
        list(vec![cmp("ignore_ops", vec![atom("true")])]),
    ]
}

fn awo_bad_values() -> Vec<T> {
    vec![atom("foo"), list(vec![atom("foo")]), int(7), list(vec![cmp("quoted", vec![atom("maybe")])]), list(vec![cmp("max_depth", vec![int(-1)])])]
}

/// documented values of a flag (for generation)
fn own_values(f: &str) -> Vec<T> {
    match f {
        "bounded" => vec![atom("true"), atom("false")],
        "max_integer" | "min_integer" => vec![int(0), int(255), T::Int(IBig::from(1u8) << 70)],
        "integer_rounding_function" => vec![atom("toward_zero"), atom("down")],
        "max_arity" => vec![int(255), int(256), int(0)],
        "double_quotes" => vec![atom("chars"), atom("codes"), atom("atom")],
        "unknown" => vec![atom("error"), atom("warning"), atom("fail")],
        "occurs_check" => vec![atom("true"), atom("false"), atom("error")],
        "answer_write_options" => awo_values(),
        _ => vec![],
    }
}

/// Is V an admissible value of flag F (7.11 / the doc comment of current_prolog_flag/2)?
fn admissible(f: &str, v: &T) -> bool {
    match f {
        "max_integer" | "min_integer" | "max_arity" => matches!(v, T::Int(_)),
        "answer_write_options" => awo_values().iter().any(|x| x.norm().eq_struct(&v.norm())),
        _ => own_values(f).iter().any(|x| x.eq_struct(v)),
    }
}

fn err(name: &str, args: Vec<T>) -> T {
    cmp(name, args)
}

pub type Model = BTreeMap<String, T>;

#[derive(Debug)]
pub enum SetExp {
    /// must succeed and store
    Store,
    /// read-only flag given its current value: success, failure or permission_error accepted; nothing changes
    ReadOnlySame,
    /// read-only flag, admissible other value: failure or permission_error(modify, flag, F)
    ReadOnlyChange,
    /// one of these errors
    Errors(Vec<T>),
}

pub fn set_expect(m: &Model, f: &T, v: &T) -> SetExp {
    let mut errors = vec![];
    if matches!(f, T::Var(_)) || matches!(v, T::Var(_)) {
        errors.push(atom("instantiation_error"));
    }
    match f {
        T::Var(_) => {}
        T::Atom(a) if is_flag(a) => {
            if !matches!(v, T::Var(_)) && !admissible(a, v) {
                errors.push(err("domain_error", vec![atom("flag_value"), cmp("+", vec![f.clone(), v.clone()])]));
                if !writable(a) {
                    errors.push(err("permission_error", vec![atom("modify"), atom("flag"), f.clone()]));
                }
            }
        }
        T::Atom(_) => errors.push(err("domain_error", vec![atom("prolog_flag"), f.clone()])),
        _ => errors.push(err("type_error", vec![atom("atom"), f.clone()])),
    }
    if !errors.is_empty() {
        return SetExp::Errors(errors);
    }
    let T::Atom(a) = f else { unreachable!() };
    if writable(a) {
        SetExp::Store
    } else if m.get(a).map(|cur| cur.norm().eq_struct(&v.norm())).unwrap_or(false) {
        SetExp::ReadOnlySame
    } else {
        SetExp::ReadOnlyChange
    }
}

/// current_prolog_flag(F, V): Err(errors) or Ok(sorted (flag, value) solutions)
pub fn get_expect(m: &Model, f: &T, v: &T) -> Result<Vec<(String, T)>, Vec<T>> {
    match f {
        T::Var(_) => {}
        T::Atom(a) if is_flag(a) || m.contains_key(a) => {}
        T::Atom(_) => return Err(vec![err("domain_error", vec![atom("prolog_flag"), f.clone()])]),
        _ => return Err(vec![err("type_error", vec![atom("atom"), f.clone()])]),
    }
    let mut out = vec![];
    for (k, val) in m {
        let okf = match f {
            T::Atom(a) => a == k,
            _ => true,
        };
        let okv = match v {
            T::Var(_) => true,
            other => other.norm().eq_struct(&val.norm()),
        };
        if okf && okv {
            out.push((k.clone(), val.norm()));
        }
    }
    Ok(out)
}

// ---------------------------------------------------------------------------------------------
// generators

fn pool() -> Vec<T> {
    let mut p = vec![
        atom("true"),
        atom("false"),
        atom("error"),
        atom("warning"),
        atom("fail"),
        atom("chars"),
        atom("codes"),
        atom("atom"),
        atom("toward_zero"),
        atom("down"),
        int(255),
        int(0),
        int(256),
        T::Int(IBig::from(1u8) << 70),
        atom("foo"),
        T::Float(1.5),
        cmp("f", vec![atom("x")]),
        T::Var(1),
        T::Var(1),
    ];
    p.extend(awo_values());
    p.extend(awo_bad_values());
    p
}

fn flag_arg(full: bool) -> BoxedStrategy<T> {
    let flags = any::<u16>().prop_map(|k| atom(pick(FLAGS, k)));
    let writable = any::<u16>().prop_map(|k| atom(pick(WRITABLE, k)));
    let non = any::<u16>().prop_map(|k| pick(&[atom("foo"), int(1), T::Var(0), T::Var(0), cmp("f", vec![atom("x")]), atom("max_arity "), atom("occurs_check_"), T::Float(1.0)], k));
    if full {
        prop_oneof![10 => flags, 6 => writable, 3 => non].boxed()
    } else {
        prop_oneof![8 => flags, 8 => writable, 3 => non].boxed()
    }
}

fn value_for(f: &T, k1: u16, k2: u16, own: bool) -> T {
    if own {
        if let T::Atom(a) = f {
            let vs = own_values(a);
            if !vs.is_empty() {
                return pick(&vs, k1);
            }
        }
    }
    pick(&pool(), k2)
}

/// `full` = the whole vocabulary; otherwise the combinations behind open known findings are
/// excluded by construction (they live in the kind "edge").
fn step_strategy(full: bool) -> BoxedStrategy<Step> {
    let set = (flag_arg(full), any::<u16>(), any::<u16>(), 0u8..10).prop_map(move |(f, k1, k2, own)| {
        let v = value_for(&f, k1, k2, own < 6);
        let (f, v) = if full { (f, v) } else { tame_set(f, v) };
        Step::Set { f, v }
    });
    let get = (flag_arg(full), any::<u16>(), any::<u16>(), 0u8..10).prop_map(move |(f, k1, k2, mode)| {
        // a quarter of the reads enumerate (flag unbound)
        let f = if k1 % 4 == 0 { T::Var(0) } else { f };
        let v = if mode < 5 { T::Var(1) } else { value_for(&f, k1, k2, mode < 8) };
        let (f, v) = if full { (f, v) } else { tame_get(f, v) };
        Step::Get { f, v }
    });
    let probe = (0u8..3).prop_map(Step::Probe);
    prop_oneof![5 => set, 5 => get, 3 => probe].boxed()
}

/// keep the history kind clear of the open findings (see known/C44.json)
fn tame_set(f: T, v: T) -> (T, T) {
    if let T::Atom(a) = &f {
        let bound = !matches!(v, T::Var(_));
        match a.as_str() {
            // set of integer_rounding_function / max_arity: wrong outcomes (known)
            "integer_rounding_function" | "max_arity" if bound => return (atom("bounded"), v),
            // an inadmissible value for unknown / occurs_check raises domain_error(prolog_flag, F) (known)
            "unknown" | "occurs_check" if bound && !admissible(a, &v) => return (atom("double_quotes"), v),
            _ => {}
        }
    }
    (f, v)
}

fn tame_get(f: T, v: T) -> (T, T) {
    if matches!(&f, T::Atom(a) if a == "integer_rounding_function") && matches!(v, T::Var(_)) {
        return (f, atom("toward_zero"));
    }
    // current_prolog_flag(answer_write_options, []) holds whatever the stored value is (known)
    if v.is_nil() {
        return (f, T::Var(1));
    }
    (f, v)
}

pub fn case_strategy(full: bool) -> BoxedStrategy<Case> {
    proptest::collection::vec(step_strategy(full), 1..=20).prop_map(|steps| Case { steps }).boxed()
}

// ---------------------------------------------------------------------------------------------
// execution

pub struct Env {
    pub s: Session,
    pub ok: bool,
}

pub fn mk_env() -> Env {
    let mut s = Session::new(&[]);
    let ok = s.consult(C44_PL, "c44");
    Env { s, ok }
}

fn ren(t: &T, idx: usize) -> T {
    match t {
        T::Var(v) => T::Var(*v + 10 * idx as u32),
        other => other.clone(),
    }
}

fn step_enc(s: &Step, idx: usize) -> String {
    match s {
        Step::Set { f, v } => cmp("set", vec![ren(f, idx), ren(v, idx)]).enc_text(),
        Step::Get { f, v } => cmp("get", vec![ren(f, idx), ren(v, idx)]).enc_text(),
        Step::Probe(k) => cmp("probe", vec![atom(["dq", "oc", "unk"][(*k % 3) as usize])]).enc_text(),
    }
}

fn show(s: &Step) -> String {
    match s {
        Step::Set { f, v } => format!("set_prolog_flag({},{})", f.text(), v.text()),
        Step::Get { f, v } => format!("current_prolog_flag({},{})", f.text(), v.text()),
        Step::Probe(k) => ["read \"ab\"", "X = f(X)", "call undefined"][(*k % 3) as usize].to_string(),
    }
}

fn as_items(t: &T) -> Option<Vec<T>> {
    match t {
        T::Atom(a) if a == "[]" => Some(vec![]),
        T::PList(items, tail) if tail.is_nil() => Some(items.clone()),
        _ => None,
    }
}

/// ok([F-V,...]) -> sorted pairs; ex(Ball) -> Err(ball)
fn pairs(t: &T) -> Option<Result<Vec<(String, T)>, T>> {
    match t {
        T::Cmp(f, a) if f == "ok" && a.len() == 1 => {
            let mut out = vec![];
            for it in as_items(&a[0])? {
                match it {
                    T::Cmp(m, kv) if m == "-" && kv.len() == 2 => match &kv[0] {
                        T::Atom(k) => out.push((k.clone(), kv[1].norm())),
                        _ => return None,
                    },
                    _ => return None,
                }
            }
            Some(Ok(out))
        }
        T::Cmp(f, a) if f == "ex" && a.len() == 1 => Some(Err(a[0].clone())),
        _ => None,
    }
}

fn formal_of(ball: &T) -> Option<T> {
    match ball {
        T::Cmp(n, args) if n == "error" && args.len() == 2 => Some(args[0].clone()),
        _ => None,
    }
}

fn sort_pairs(mut v: Vec<(String, T)>) -> Vec<(String, String)> {
    let mut out: Vec<(String, String)> = v.drain(..).map(|(k, t)| (k, t.text())).collect();
    out.sort();
    out
}

fn err_head(f: &T) -> String {
    match f {
        T::Cmp(n, a) if !a.is_empty() => format!("{n}({})", match &a[0] { T::Atom(x) => x.clone(), _ => "_".into() }),
        other => other.text(),
    }
}

fn flag_tag(f: &T) -> String {
    match f {
        T::Atom(a) if is_flag(a) => a.clone(),
        T::Atom(_) => "nonflag-atom".into(),
        T::Var(_) => "unbound".into(),
        _ => "non-atom".into(),
    }
}

fn value_tag(f: &T, v: &T) -> &'static str {
    match (f, v) {
        (_, T::Var(_)) => "unbound",
        (T::Atom(a), v) if is_flag(a) && admissible(a, v) => "admissible",
        _ => "inadmissible",
    }
}

struct Tol {
    first_known: Option<Verdict>,
}

impl Tol {
    /// returns Some(verdict) when the failure must be reported now
    fn fail(&mut self, sig: String, detail: String) -> Option<Verdict> {
        let sig = nsig(&sig);
        let v = vfail(sig.clone(), detail);
        if is_known_open(&sig) {
            if self.first_known.is_none() {
                self.first_known = Some(v);
            }
            None
        } else {
            Some(v)
        }
    }
}

pub fn check(env: &mut Env, case: &Case) -> Verdict {
    if !env.ok {
        return Verdict::Discard("c44.pl rejected".into());
    }
    let encs: Vec<String> = case.steps.iter().enumerate().map(|(i, s)| step_enc(s, i + 1)).collect();
    let goal = format!("c44_run([{}], Out)", encs.join(","));
    let o = env.s.ask_once(&goal, "Out");
    let hist_all = || case.steps.iter().map(show).collect::<Vec<_>>().join(", ");
    let out = match &o {
        Outcome::Sols(v) if v.len() == 1 => v[0].clone(),
        Outcome::Panic(m) => {
            let loc = m.split_whitespace().next().unwrap_or("?");
            return vfail(format!("panic:{loc}"), format!("history {} panicked: {m}", hist_all()));
        }
        Outcome::Harness(m) => return Verdict::Discard(format!("harness:{}", m.chars().take(40).collect::<String>())),
        other => return vfail("driver:unexpected", format!("c44_run gave {} for {}", other.short(), hist_all())),
    };
    let Some(results) = as_items(&out) else { return Verdict::Discard("harness:result-not-a-list".into()) };
    if results.len() != case.steps.len() + 1 {
        return Verdict::Discard("harness:result-length".into());
    }
    // step 0: seed the model from the enumeration of the fresh machine
    let e0 = match &results[0] {
        T::Cmp(f, a) if f == "e" && a.len() == 1 => pairs(&a[0]),
        _ => None,
    };
    let Some(Ok(e0)) = e0 else { return vfail("enum-initial:undecodable", format!("initial enumeration: {}", results[0].text())) };
    let mut model: Model = BTreeMap::new();
    for (k, v) in &e0 {
        if model.insert(k.clone(), v.clone()).is_some() {
            return vfail(format!("enum-initial:duplicate:{k}"), format!("flag {k} enumerated twice on a fresh machine"));
        }
    }
    for w in WRITABLE {
        match model.get(*w) {
            Some(v) if admissible(w, v) => {}
            other => return vfail(format!("enum-initial:missing:{w}"), format!("fresh machine enumerates {w} as {:?}", other.map(|t| t.text()))),
        }
    }
    let read_only: Vec<String> = model.keys().filter(|k| !writable(k)).cloned().collect();
    let frozen: Vec<(String, T)> = read_only.iter().map(|k| (k.clone(), model[k].clone())).collect();

    let mut tol = Tol { first_known: None };
    let mut classes: Vec<String> = vec![];
    let push = |c: String, classes: &mut Vec<String>| {
        if !classes.contains(&c) {
            classes.push(c);
        }
    };
    let mut nontrivial = false;
    // per flag: was it set successfully, then read with F given, then read with F unbound
    let mut set_done: BTreeMap<String, (bool, bool)> = BTreeMap::new();
    let mut changed: BTreeMap<&'static str, bool> = BTreeMap::new();

    for (idx, st) in case.steps.iter().enumerate() {
        let r = &results[idx + 1];
        let rargs = match r {
            T::Cmp(f, a) if f == "r" => a.clone(),
            _ => return Verdict::Discard("harness:result-shape".into()),
        };
        let hist = || case.steps[..=idx].iter().map(show).collect::<Vec<_>>().join(", ");
        // enumeration after the step (set/get only)
        let mut enum_after: Option<&T> = None;
        match st {
            Step::Set { f, v } => {
                if rargs.len() != 3 {
                    return Verdict::Discard("harness:result-shape".into());
                }
                enum_after = Some(&rargs[2]);
                let exp = set_expect(&model, f, v);
                let (ftag, vtag) = (flag_tag(f), value_tag(f, v));
                let outcome = &rargs[0];
                let obs_err: Option<T> = match outcome {
                    T::Cmp(x, b) if x == "ex" && b.len() == 1 => match formal_of(&b[0]) {
                        Some(fm) => Some(fm),
                        None => return vfail("set-non-iso-ball:", format!("{} threw {} (history: {})", show(st), b[0].text(), hist())),
                    },
                    _ => None,
                };
                let yes = matches!(outcome, T::Atom(a) if a == "yes");
                let no = matches!(outcome, T::Atom(a) if a == "no");
                let perm = err("permission_error", vec![atom("modify"), atom("flag"), f.clone()]);
                let mut stored = false;
                let problem: Option<(String, String)> = match (&exp, yes, no, &obs_err) {
                    (SetExp::Store, true, _, _) => {
                        stored = true;
                        None
                    }
                    (SetExp::Store, _, true, _) => Some((format!("set-failed:{ftag}"), "failed; the value is admissible and the flag is writable".into())),
                    (SetExp::Store, _, _, Some(e)) => Some((format!("set-rejected-valid:{ftag}:{}", err_head(e)), format!("raised {}; the value is admissible and the flag is writable", e.text()))),
                    (SetExp::ReadOnlySame, true, _, _) | (SetExp::ReadOnlySame, _, true, _) => None,
                    (SetExp::ReadOnlyChange, _, true, _) => None,
                    (SetExp::ReadOnlySame, _, _, Some(e)) | (SetExp::ReadOnlyChange, _, _, Some(e)) => {
                        if e.eq_struct(&perm) {
                            None
                        } else {
                            Some((format!("set-wrong-error:{ftag}:{}", err_head(e)), format!("raised {}; the flag is read-only and the value admissible: failure or {} expected", e.text(), perm.text())))
                        }
                    }
                    (SetExp::ReadOnlyChange, true, _, _) => Some((format!("set-accepted-readonly-change:{ftag}"), "succeeded although the flag is read-only and the value differs from the current one".into())),
                    (SetExp::Errors(es), _, _, Some(e)) => {
                        if es.iter().any(|x| x.eq_struct(e)) {
                            None
                        } else {
                            Some((format!("set-wrong-error:{ftag}:{}", err_head(e)), format!("raised {}; expected one of {:?}", e.text(), es.iter().map(|x| x.text()).collect::<Vec<_>>())))
                        }
                    }
                    (SetExp::Errors(es), _, _, None) => Some((format!("set-no-error:{ftag}:{vtag}"), format!("{}; expected one of {:?}", if yes { "succeeded" } else { "failed" }, es.iter().map(|x| x.text()).collect::<Vec<_>>()))),
                    _ => Some(("set-outcome:undecodable".into(), outcome.text())),
                };
                if let Some((sig, d)) = problem {
                    if let Some(v) = tol.fail(sig, format!("{} {d} (history: {})", show(st), hist())) {
                        return v;
                    }
                }
                if stored {
                    let T::Atom(a) = f else { unreachable!() };
                    let before = model.insert(a.clone(), v.norm());
                    if before.map(|b| !b.eq_struct(&v.norm())).unwrap_or(true) {
                        for (name, key) in [("double_quotes", "dq"), ("occurs_check", "oc"), ("unknown", "unk")] {
                            if a == name {
                                changed.insert(key, true);
                            }
                        }
                    }
                    set_done.insert(a.clone(), (false, false));
                    push(format!("set-stored:{a}"), &mut classes);
                } else {
                    push(format!("set-not-stored:{}", match &exp { SetExp::Errors(_) => "error", SetExp::Store => "defect", _ => "read-only" }), &mut classes);
                }
                // (2) success <=> afterwards current_prolog_flag(F, V) holds (checked against the updated model)
                if let T::Atom(a) = f {
                    if !matches!(v, T::Var(_)) && rargs[1] != atom("skipped") {
                        let want = get_expect(&model, f, v);
                        if let Some(vd) = judge_get(&mut tol, "after-set", f, v, &want, &rargs[1], &format!("{} (history: {})", show(st), hist())) {
                            return vd;
                        }
                        if yes && is_flag(a) {
                            push("set-then-holds".into(), &mut classes);
                        }
                    }
                }
            }
            Step::Get { f, v } => {
                if rargs.len() != 2 {
                    return Verdict::Discard("harness:result-shape".into());
                }
                enum_after = Some(&rargs[1]);
                let want = get_expect(&model, f, v);
                if let Some(vd) = judge_get(&mut tol, "get", f, v, &want, &rargs[0], &format!("{} (history: {})", show(st), hist())) {
                    return vd;
                }
                let mode = format!("{}{}", if matches!(f, T::Var(_)) { 'u' } else { 'b' }, if matches!(v, T::Var(_)) { 'u' } else { 'b' });
                push(format!("get-{mode}-{}", match &want { Err(_) => "error", Ok(x) if x.is_empty() => "none", Ok(_) => "some" }), &mut classes);
                if let (T::Atom(a), T::Var(_)) = (f, v) {
                    if is_flag(a) && !writable(a) {
                        nontrivial = true;
                        push("read-readonly-unbound".into(), &mut classes);
                    }
                }
                match f {
                    T::Atom(a) => {
                        if let Some(e) = set_done.get_mut(a) {
                            e.0 = true;
                        }
                    }
                    T::Var(_) => {
                        for e in set_done.values_mut() {
                            e.1 = true;
                        }
                    }
                    _ => {}
                }
                if set_done.values().any(|e| e.0 && e.1) {
                    nontrivial = true;
                    push("set-then-both-read-styles".into(), &mut classes);
                }
            }
            Step::Probe(k) => {
                let k = *k % 3;
                let got = &rargs[0];
                let (flag, key) = [("double_quotes", "dq"), ("occurs_check", "oc"), ("unknown", "unk")][k as usize];
                let val = match model.get(flag) {
                    Some(T::Atom(a)) => a.clone(),
                    _ => "?".into(),
                };
                let ok = match (k, val.as_str()) {
                    (0, "chars") => *got == cmp("ok", vec![list(vec![atom("a"), atom("b")])]),
                    (0, "codes") => *got == cmp("ok", vec![list(vec![int(97), int(98)])]),
                    (0, "atom") => *got == cmp("ok", vec![atom("ab")]),
                    (1, "false") => *got == atom("yes"),
                    (1, "true") => *got == atom("no"),
                    // the doc comment only says "throws an exception"
                    (1, "error") => matches!(got, T::Cmp(x, _) if x == "ex"),
                    (2, "error") => match got {
                        T::Cmp(x, b) if x == "ex" => formal_of(&b[0]).map(|fm| fm.eq_struct(&err("existence_error", vec![atom("procedure"), cmp("/", vec![atom("c44_undefined_predicate_zz"), int(1)])]))).unwrap_or(false),
                        _ => false,
                    },
                    (2, "fail") | (2, "warning") => *got == atom("no"),
                    _ => false,
                };
                if !ok {
                    if let Some(v) = tol.fail(format!("probe:{flag}:{val}"), format!("with {flag} = {val} the probe {} gave {} (history: {})", show(st), got.text(), hist())) {
                        return v;
                    }
                }
                push(format!("probe-{flag}-{val}"), &mut classes);
                if changed.get(key).copied().unwrap_or(false) {
                    nontrivial = true;
                    push("probe-after-change".into(), &mut classes);
                }
            }
        }
        if let Some(e) = enum_after {
            match pairs(e) {
                Some(Ok(p)) => {
                    let got = sort_pairs(p);
                    let want = sort_pairs(model.iter().map(|(k, v)| (k.clone(), v.clone())).collect());
                    if got != want {
                        // name the first differing flag
                        let which = want.iter().find(|w| !got.contains(w)).map(|w| w.0.clone()).or_else(|| got.iter().find(|g| !want.contains(g)).map(|g| g.0.clone())).unwrap_or_default();
                        if let Some(v) = tol.fail(format!("enum-mismatch:{which}"), format!("after {} the enumeration is {:?}; the model says {:?}", hist(), got, want)) {
                            return v;
                        }
                    }
                }
                _ => return vfail("enum:undecodable", format!("after {}: {}", hist(), e.text())),
            }
        }
        for (k, v) in &frozen {
            if model.get(k) != Some(v) {
                return Verdict::Discard("harness:read-only-model-changed".into());
            }
        }
    }
    if let Some(v) = tol.first_known {
        return v;
    }
    let cls: Vec<&str> = classes.iter().map(|s| s.as_str()).collect();
    Verdict::pass(nontrivial, &cls)
}

fn judge_get(tol: &mut Tol, ctx: &str, f: &T, v: &T, want: &Result<Vec<(String, T)>, Vec<T>>, got: &T, detail: &str) -> Option<Verdict> {
    let mode = format!("{}{}", if matches!(f, T::Var(_)) { 'u' } else { 'b' }, if matches!(v, T::Var(_)) { 'u' } else { 'b' });
    let ftag = flag_tag(f);
    let got_p = pairs(got);
    let problem: Option<(String, String)> = match (want, &got_p) {
        (Ok(w), Some(Ok(g))) => {
            let (w2, g2) = (sort_pairs(w.clone()), sort_pairs(g.clone()));
            if w2 == g2 {
                None
            } else {
                let what = if g2.len() < w2.len() { "missing" } else if g2.len() > w2.len() { "extra" } else { "different" };
                // with F unbound name the flag that differs
                let which = if ftag == "unbound" { w2.iter().find(|x| !g2.contains(x)).or_else(|| g2.iter().find(|x| !w2.contains(x))).map(|x| x.0.clone()).unwrap_or_default() } else { ftag.clone() };
                Some((format!("{ctx}-mismatch:{which}:{mode}:{what}"), format!("gave {:?}; the model says {:?}", g2, w2)))
            }
        }
        (Err(es), Some(Err(ball))) => match formal_of(ball) {
            Some(fm) if es.iter().any(|e| e.eq_struct(&fm)) => None,
            _ => Some((format!("{ctx}-wrong-error:{ftag}:{mode}"), format!("raised {}; expected one of {:?}", ball.text(), es.iter().map(|x| x.text()).collect::<Vec<_>>()))),
        },
        (Ok(w), Some(Err(ball))) => Some((format!("{ctx}-raised:{ftag}:{mode}"), format!("raised {}; the model says {:?}", ball.text(), sort_pairs(w.clone())))),
        (Err(es), Some(Ok(g))) => Some((format!("{ctx}-no-error:{ftag}:{mode}"), format!("gave {:?}; expected one of {:?}", sort_pairs(g.clone()), es.iter().map(|x| x.text()).collect::<Vec<_>>()))),
        (_, None) => Some((format!("{ctx}:undecodable"), got.text())),
    };
    match problem {
        None => None,
        Some((sig, d)) => tol.fail(sig, format!("{ctx}: {d}; at {detail}")),
    }
}

pub struct C44;

impl Prop for C44 {
    fn id(&self) -> &'static str {
        "C44"
    }
    fn rule(&self) -> &'static str {
        "histories of 1..20 steps on a fresh machine, inside one query: set_prolog_flag(F,V), current_prolog_flag(F,V) with F and V each bound or unbound, and behaviour probes (reading \"ab\", X = f(X), calling an undefined predicate); F over the nine documented flags plus non-flags (foo, 1, unbound, f(x), near-miss names), V over each flag's documented values, other flags' values, ill-typed values and unbound; after every step the enumeration current_prolog_flag(F,V) with both unbound must equal the model (seeded from the enumeration of the fresh machine), every read must agree with the enumeration, set succeeds exactly when the value is then read back, read-only flags never change, errors must be among the applicable 8.17.1.3/8.17.2.3 errors, probes must reflect the model value; kind hist excludes by construction the argument combinations of the open findings, kind edge uses the whole vocabulary; non-trivial = a read of a read-only flag with the value unbound, or a successful set later read both with the flag given and by enumeration, or a probe after a change of its flag; distinct by case encoding"
    }
    fn assumptions(&self) -> Vec<String> {
        vec![
            "the set of flags and the admissible values are those of the doc comment of current_prolog_flag/2 in builtins.pl; initial values are taken from the fresh machine".into(),
            "setting a read-only flag: to its current value success, failure or permission_error(modify,flag,F) are all accepted; to another admissible value failure (documented) or that permission error; with an inadmissible value domain_error(flag_value,F+V) or the permission error".into(),
            "occurs_check=error is only required to raise some exception on X = f(X) (doc comment)".into(),
        ]
    }
    fn run_shard(&self, cfg: &ShardCfg) -> ShardResult {
        let mut d = Driver::new(cfg, "C44");
        let n = cfg.share(cfg.tier.pick(2000, 100_000));
        d.run("hist", 0, n, 1, case_strategy(false), &mk_env, &check);
        let m = cfg.share(cfg.tier.pick(600, 30_000));
        d.run("edge", 1, m, 1, case_strategy(true), &mk_env, &check);
        d.finish()
    }
    fn replay(&self, _kind: &str, case: &Value) -> Verdict {
        replay_case::<Case, Env>(case, &mk_env, &check)
    }
}
