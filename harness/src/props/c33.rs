//! C33 — Heap writes never exceed the reserved capacity.
//!
//! Operation sequences on a raw `Heap` (through `VerifHeap`) created with a tiny capacity, so
//! that every sequence meets the capacity boundary many times. Oracles:
//!   * the guard allocator's canary after the heap's block (checked when the heap is dropped at
//!     the end of the case, and on every realloc during growth),
//!   * `byte_len <= capacity` after every operation (the capacity is tracked exactly: it doubles
//!     each time `InnerHeap::grow` runs, which the alloc_fault attempt counter reveals),
//!   * a byte-level model of the expected heap contents after every operation.
use crate::engine::*;
use crate::gen::pick;
use crate::guard_alloc::take_corruptions;
use crate::session::take_last_panic;
use proptest::prelude::*;
use scryer_prolog::verif_hooks::{alloc_fault, VerifHeap};
use serde::{Deserialize, Serialize};
use serde_json::{json, Value};
use std::cell::RefCell;
use std::collections::BTreeMap;
use std::panic::{catch_unwind, AssertUnwindSafe};
use std::sync::OnceLock;

#[derive(Clone, Debug, Serialize, Deserialize, PartialEq)]
pub enum Op {
    Push(u64),
    /// reserve n cells, write k <= n of them
    Reserve(u8, u8),
    Pstr(String),
    Cstr(String),
    /// copy_pstr_within of string segment (sel mod #segments) from its (off mod #chars)-th char
    CopyPstr(u16, u16),
    /// copy_slice_to_end of a cell range derived from (a, b); at most 32 cells
    CopySlice(u16, u16),
    /// append another heap holding `cells` plain cells and optionally a string
    Append(u8, Option<String>),
    Truncate(u16),
    /// push cells until exactly k cells of free space remain (steering to the boundary)
    FillTo(u8),
}

impl Op {
    fn name(&self) -> &'static str {
        match self {
            Op::Push(_) => "push_cell",
            Op::Reserve(..) => "reserve",
            Op::Pstr(_) => "allocate_pstr",
            Op::Cstr(_) => "allocate_cstr",
            Op::CopyPstr(..) => "copy_pstr_within",
            Op::CopySlice(..) => "copy_slice_to_end",
            Op::Append(..) => "append",
            Op::Truncate(_) => "truncate",
            Op::FillTo(_) => "fill",
        }
    }
}

#[derive(Clone, Debug, Serialize, Deserialize)]
pub struct Case {
    /// initial capacity in cells (1..=64)
    pub cap: u8,
    pub ops: Vec<Op>,
}

// ---------------------------------------------------------------------------------------------
// cell encodings (types.rs: val 56 bits, f, m, tag 6 bits from the LSB up)

const TAG_PSTRLOC: u64 = 0b010011 << 58;
const TAG_LIS: u64 = 0b000101 << 58;

struct Calib {
    empty_list: u64,
    nul_char: u64,
}

fn calib() -> &'static Calib {
    static C: OnceLock<Calib> = OnceLock::new();
    C.get_or_init(|| {
        let mut h = VerifHeap::with_cell_capacity(256).expect("calibration heap");
        let empty_list = h.allocate_cstr("").expect("cstr");
        assert_eq!(h.cell_len(), 0, "calibration: allocate_cstr(\"\") wrote cells");
        let r = h.allocate_pstr("\0").expect("pstr");
        assert_eq!(r, TAG_LIS, "calibration: allocate_pstr(\"\\0\") on an empty heap should return list_loc(0)");
        assert_eq!(h.cell_len(), 1);
        let nul_char = h.cell(0);
        Calib { empty_list, nul_char }
    })
}

// ---------------------------------------------------------------------------------------------
// model

#[derive(Clone, Debug)]
struct Seg {
    start: usize,
    len: usize,
}

struct Model {
    bytes: Vec<u8>,
    segs: Vec<Seg>,
    cap: usize,
}

fn pad_len(n: usize) -> usize {
    // zero bytes after a string segment of n bytes starting on a cell boundary: up to the next
    // boundary, a whole cell when already aligned, plus a whole extra cell when only one byte
    // would separate the text from the tail cell
    let p = 8 - n % 8;
    if p == 1 {
        9
    } else {
        p
    }
}

impl Model {
    fn cells(&self) -> usize {
        self.bytes.len() / 8
    }
    fn push(&mut self, raw: u64) {
        self.bytes.extend_from_slice(&raw.to_le_bytes());
    }
    fn push_segment(&mut self, s: &str) {
        if s.is_empty() {
            return;
        }
        self.segs.push(Seg { start: self.bytes.len(), len: s.len() });
        self.bytes.extend_from_slice(s.as_bytes());
        let p = pad_len(s.len());
        self.bytes.extend(std::iter::repeat(0u8).take(p));
    }
    /// layout of ReservedHeapSection::push_pstr as described in heap.rs; returns the cell that
    /// refers to the string (None for the empty string)
    fn push_pstr(&mut self, mut src: &str) -> Option<u64> {
        let c = calib();
        let mut ret: Option<u64> = None;
        loop {
            while src.starts_with('\0') {
                match ret {
                    Some(_) => {
                        let l = self.cells() as u64 + 1;
                        self.push(TAG_LIS | l)
                    }
                    None => ret = Some(TAG_LIS | self.cells() as u64),
                }
                self.push(c.nul_char);
                src = &src[1..];
            }
            if src.is_empty() {
                return ret;
            }
            let (seg, rest, had_nul) = match src.find('\0') {
                Some(i) => (&src[..i], &src[i + 1..], true),
                None => (src, "", false),
            };
            match ret {
                Some(_) => {
                    let l = 8 * (self.cells() as u64 + 1);
                    self.push(TAG_PSTRLOC | l)
                }
                None => ret = Some(TAG_PSTRLOC | 8 * self.cells() as u64),
            }
            self.push_segment(seg);
            if had_nul {
                let l = self.cells() as u64 + 1;
                self.push(TAG_LIS | l);
                self.push(c.nul_char);
                src = rest;
                if src.is_empty() {
                    return ret;
                }
            } else {
                return ret;
            }
        }
    }
    fn drop_segs_beyond(&mut self) {
        let n = self.bytes.len();
        self.segs.retain(|s| s.start + s.len + pad_len(s.len) <= n);
    }
    /// segments wholly inside the byte range get a copy at `dst`
    fn clone_segs(&mut self, from: usize, to: usize, dst: usize) {
        let add: Vec<Seg> = self.segs.iter().filter(|s| s.start >= from && s.start + s.len + pad_len(s.len) <= to).map(|s| Seg { start: s.start - from + dst, len: s.len }).collect();
        self.segs.extend(add);
    }
}

// ---------------------------------------------------------------------------------------------
// check

pub struct Env;
pub fn mk_env() -> Env {
    Env
}

thread_local! {
    /// coverage table: op kind x (free space before the op relative to what it wrote)
    static FILL: RefCell<BTreeMap<String, u64>> = const { RefCell::new(BTreeMap::new()) };
    static OPS_RUN: RefCell<u64> = const { RefCell::new(0) };
    static TOLERATED: RefCell<u64> = const { RefCell::new(0) };
}

struct Fail {
    sig: String,
    detail: String,
}

struct RunStats {
    nontrivial: bool,
    classes: Vec<String>,
}

fn fill_class(op: &str, free_before: usize, written: usize, grew: bool) -> String {
    let rel = if grew {
        "grew".to_string()
    } else if free_before == written {
        "exact-fit".to_string()
    } else {
        let spare = (free_before - written) / 8;
        if spare <= 2 {
            format!("spare-{spare}-cells")
        } else {
            "roomy".to_string()
        }
    };
    format!("{op}@{rel}")
}

fn show_op(op: &Op) -> String {
    match op {
        Op::Pstr(s) => format!("allocate_pstr({s:?}) [{} bytes]", s.len()),
        Op::Cstr(s) => format!("allocate_cstr({s:?}) [{} bytes]", s.len()),
        o => format!("{o:?}"),
    }
}

/// Runs `ops[..upto]`. The heap is dropped before returning; canary corruption found by the guard
/// allocator is turned into a failure attributed to the operation that ran last.
fn run_ops(cap_cells: usize, ops: &[Op], stats: &mut RunStats, count: bool) -> Result<(), Fail> {
    let _ = take_corruptions();
    let mut last_op = String::from("(none)");
    let mut last_name = "none";
    let res = catch_unwind(AssertUnwindSafe(|| -> Result<(), Fail> {
        let mut h = VerifHeap::with_cell_capacity(cap_cells).map_err(|_| Fail { sig: "harness-alloc".into(), detail: "could not allocate the heap".into() })?;
        let mut m = Model { bytes: vec![], segs: vec![], cap: cap_cells * 8 };
        let mut soft_known: Option<Fail> = None;
        for (i, op) in ops.iter().enumerate() {
            last_op = format!("op #{i} {}", show_op(op));
            last_name = op.name();
            let len_before = m.bytes.len();
            let free_before = m.cap - len_before;
            let mut g0 = alloc_fault::attempts();
            let mut expect_ret: Option<(u64, u64)> = None; // (got, expected)
            let mut skipped = false;
            match op {
                Op::Push(raw) => {
                    h.push_cell(*raw).map_err(|_| Fail { sig: "alloc-error:push_cell".into(), detail: last_op.clone() })?;
                    m.push(*raw);
                }
                Op::Reserve(n, k) => {
                    let n = *n as usize;
                    let k = (*k as usize).min(n);
                    let cells: Vec<u64> = (0..k as u64).map(|j| 0x0101_0101_0101_0101u64.wrapping_mul(j + 1) ^ (i as u64)).collect();
                    h.reserve_and_write(n, &cells).map_err(|_| Fail { sig: "alloc-error:reserve".into(), detail: last_op.clone() })?;
                    for c in &cells {
                        m.push(*c);
                    }
                }
                Op::Pstr(s) | Op::Cstr(s) => {
                    let cstr = matches!(op, Op::Cstr(_));
                    let got = if cstr { h.allocate_cstr(s) } else { h.allocate_pstr(s) }.map_err(|_| Fail { sig: format!("alloc-error:{}", op.name()), detail: last_op.clone() })?;
                    let r = m.push_pstr(s);
                    if cstr && r.is_some() {
                        m.push(calib().empty_list);
                    }
                    expect_ret = Some((got, r.unwrap_or(calib().empty_list)));
                    // "Returns the number of bytes needed to store `src` as a PStr" (incl. the tail cell)
                    let need = (m.bytes.len() - len_before) + if cstr && r.is_some() { 0 } else { 8 };
                    let said = VerifHeap::compute_pstr_size(s);
                    if said < need {
                        let f = Fail { sig: format!("pstr-size-too-small:{}", if s.contains('\0') { "string-with-nul" } else { "plain-string" }), detail: format!("compute_pstr_size({s:?}) = {said} bytes but the string occupies {need} bytes with its tail cell") };
                        if is_known_open(&f.sig) {
                            // latent miscount (no write outside the heap): tolerated for exactly this
                            // signature without giving up the rest of the sequence
                            soft_known.get_or_insert(f);
                        } else {
                            return Err(f);
                        }
                    }
                }
                Op::CopyPstr(sel, off) => {
                    if m.segs.is_empty() {
                        skipped = true;
                    } else {
                        let seg = m.segs[*sel as usize % m.segs.len()].clone();
                        let text = std::str::from_utf8(&m.bytes[seg.start..seg.start + seg.len]).expect("model segment is utf-8").to_string();
                        let nchars = text.chars().count();
                        let skip_chars = *off as usize % nchars;
                        let boff = text.char_indices().nth(skip_chars).map(|(b, _)| b).unwrap_or(0);
                        let loc = seg.start + boff;
                        let s_len = seg.len - boff;
                        let got_tail = h.copy_pstr_within(loc).map_err(|_| Fail { sig: "alloc-error:copy_pstr_within".into(), detail: last_op.clone() })?;
                        last_op = format!("op #{i} copy_pstr_within(byte {loc}) of a {s_len}-byte string");
                        let dst = m.bytes.len();
                        let copy: Vec<u8> = m.bytes[loc..loc + s_len].to_vec();
                        m.segs.push(Seg { start: dst, len: s_len });
                        m.bytes.extend_from_slice(&copy);
                        m.bytes.extend(std::iter::repeat(0u8).take(pad_len(s_len)));
                        // the tail cell of the *source* follows its padding
                        let exp_tail = (seg.start + seg.len + pad_len(seg.len)) / 8;
                        expect_ret = Some((got_tail as u64, exp_tail as u64));
                    }
                }
                Op::CopySlice(a, b) => {
                    let n = m.cells();
                    let (mut x, mut y) = (*a as usize % (n + 1), *b as usize % (n + 1));
                    if x > y {
                        std::mem::swap(&mut x, &mut y);
                    }
                    y = y.min(x + 32);
                    h.copy_slice_to_end(x, y).map_err(|_| Fail { sig: "alloc-error:copy_slice_to_end".into(), detail: last_op.clone() })?;
                    last_op = format!("op #{i} copy_slice_to_end({x}..{y})");
                    let dst = m.bytes.len();
                    let copy: Vec<u8> = m.bytes[x * 8..y * 8].to_vec();
                    m.bytes.extend_from_slice(&copy);
                    m.clone_segs(x * 8, y * 8, dst);
                }
                Op::Append(cells, s) => {
                    let mut other = VerifHeap::with_cell_capacity(1 + *cells as usize).map_err(|_| Fail { sig: "harness-alloc".into(), detail: "other heap".into() })?;
                    let mut om = Model { bytes: vec![], segs: vec![], cap: 0 };
                    for j in 0..*cells as u64 {
                        let raw = 0xA0A0_0000_0000_0000u64 | (j << 8) | i as u64;
                        other.push_cell(raw).map_err(|_| Fail { sig: "alloc-error:push_cell".into(), detail: "building the heap to append".into() })?;
                        om.push(raw);
                    }
                    if let Some(s) = s {
                        other.allocate_cstr(s).map_err(|_| Fail { sig: "alloc-error:allocate_cstr".into(), detail: "building the heap to append".into() })?;
                        if om.push_pstr(s).is_some() {
                            om.push(calib().empty_list);
                        }
                    }
                    if other.bytes() != &om.bytes[..] {
                        return Err(Fail { sig: "contents:append-source".into(), detail: format!("{last_op}: the heap to append differs from its model") });
                    }
                    // growth of the other heap must not be booked on this one
                    g0 = alloc_fault::attempts();
                    h.append(&other).map_err(|_| Fail { sig: "alloc-error:append".into(), detail: last_op.clone() })?;
                    let dst = m.bytes.len();
                    m.bytes.extend_from_slice(&om.bytes);
                    for s in om.segs {
                        m.segs.push(Seg { start: s.start + dst, len: s.len });
                    }
                }
                Op::Truncate(t) => {
                    let to = *t as usize % (m.cells() + 1);
                    h.truncate(to);
                    m.bytes.truncate(to * 8);
                    m.drop_segs_beyond();
                }
                Op::FillTo(k) => {
                    let want_free = (*k as usize) * 8;
                    let mut guard = 0;
                    while m.cap - m.bytes.len() > want_free && guard < 4096 {
                        let raw = 0xF1F1_0000_0000_0000u64 | guard as u64;
                        h.push_cell(raw).map_err(|_| Fail { sig: "alloc-error:push_cell".into(), detail: last_op.clone() })?;
                        m.push(raw);
                        guard += 1;
                    }
                }
            }
            if skipped {
                continue;
            }
            if count {
                OPS_RUN.with(|c| *c.borrow_mut() += 1);
            }
            // capacity bookkeeping: every run of InnerHeap::grow doubles the capacity
            let grew = alloc_fault::attempts() - g0;
            for _ in 0..grew {
                m.cap = if m.cap == 0 { 256 * 256 * 8 } else { m.cap * 2 };
            }
            let written = m.bytes.len().saturating_sub(len_before);
            if h.byte_len() > m.cap {
                return Err(Fail {
                    sig: format!("heap-overrun:{}", op.name()),
                    detail: format!("{last_op}: heap length {} bytes exceeds its capacity {} bytes (free space before the operation {} bytes, it wrote {} bytes, grow ran {} times)", h.byte_len(), m.cap, free_before, h.byte_len().saturating_sub(len_before), grew),
                });
            }
            if h.byte_len() != m.bytes.len() {
                return Err(Fail { sig: format!("contents:length:{}", op.name()), detail: format!("{last_op}: heap is {} bytes long, the model {} bytes", h.byte_len(), m.bytes.len()) });
            }
            if h.bytes() != &m.bytes[..] {
                let at = h.bytes().iter().zip(m.bytes.iter()).position(|(a, b)| a != b).unwrap_or(0);
                return Err(Fail {
                    sig: format!("contents:bytes:{}", op.name()),
                    detail: format!("{last_op}: heap differs from the model at byte {at} (cell {}): heap {:02x?} model {:02x?}", at / 8, &h.bytes()[at / 8 * 8..(at / 8 * 8 + 8).min(h.byte_len())], &m.bytes[at / 8 * 8..(at / 8 * 8 + 8).min(m.bytes.len())]),
                });
            }
            if let Some((got, exp)) = expect_ret {
                if got != exp {
                    return Err(Fail { sig: format!("contents:return:{}", op.name()), detail: format!("{last_op}: returned {got:#x}, expected {exp:#x}") });
                }
            }
            if !matches!(op, Op::Truncate(_) | Op::FillTo(_)) {
                let cl = fill_class(op.name(), free_before, written, grew > 0);
                if grew > 0 || free_before == written {
                    stats.nontrivial = true;
                }
                if count {
                    FILL.with(|f| *f.borrow_mut().entry(cl.clone()).or_default() += 1);
                }
                if !stats.classes.contains(&cl) {
                    stats.classes.push(cl);
                }
            }
        }
        drop(h);
        if let Some(f) = soft_known {
            // counted, labelled, and otherwise treated as a pass (nothing was written out of bounds)
            TOLERATED.with(|c| *c.borrow_mut() += 1);
            let cl = format!("tolerated-known:{}", f.sig);
            if !stats.classes.contains(&cl) {
                stats.classes.push(cl);
            }
        }
        Ok(())
    }));
    // the heap is gone (dropped normally or during unwinding): its canary has been verified
    let corrupt = take_corruptions();
    let res = match res {
        Ok(r) => r,
        Err(_) => {
            let p = take_last_panic();
            let loc = p.split_whitespace().next().unwrap_or("?").to_string();
            if loc.starts_with("harness:") {
                panic!("harness panic in C33: {p}");
            }
            Err(Fail { sig: format!("panic:{loc}"), detail: format!("{last_op} panicked: {p}") })
        }
    };
    if let Some((n, size, off)) = corrupt {
        let extra = match &res {
            Err(f) => format!(" [also: {} — {}]", f.sig, f.detail),
            Ok(()) => String::new(),
        };
        return Err(Fail {
            sig: format!("heap-overrun:{last_name}"),
            detail: format!("guard allocator: {n} block(s) written past their end (last: a {size}-byte block, first corrupt byte {off} past its end); last operation: {last_op}{extra}"),
        });
    }
    res
}

pub fn check(_e: &mut Env, c: &Case) -> Verdict {
    let cap = (c.cap as usize).clamp(1, 64);
    let mut stats = RunStats { nontrivial: false, classes: vec![] };
    match run_ops(cap, &c.ops, &mut stats, true) {
        Ok(()) => {}
        Err(f) => {
            if f.sig.starts_with("harness-alloc") {
                return Verdict::Discard("alloc".into());
            }
            // attribute a canary hit to the first prefix that trips it
            if f.sig.starts_with("heap-overrun") {
                for upto in 1..=c.ops.len() {
                    let mut st = RunStats { nontrivial: false, classes: vec![] };
                    if let Err(f2) = run_ops(cap, &c.ops[..upto], &mut st, false) {
                        if f2.sig.starts_with("heap-overrun") {
                            return Verdict::fail(f2.sig, format!("capacity {cap} cells; {}", f2.detail));
                        }
                    }
                }
            }
            return Verdict::fail(f.sig, format!("capacity {cap} cells; {}", f.detail));
        }
    }
    let mut cl: Vec<&str> = stats.classes.iter().map(|s| s.as_str()).collect();
    if c.ops.len() >= 50 {
        cl.push("long-sequence");
    }
    Verdict::pass(stats.nontrivial, &cl)
}

// ---------------------------------------------------------------------------------------------
// generators

const CHARS: &[&str] = &["a", "b", "z", "\u{e9}", "\u{20ac}", "\u{1f600}", "\0"];

fn string_strategy() -> BoxedStrategy<String> {
    prop_oneof![
        // every byte length 0..=40, plain
        5 => (0usize..=40).prop_map(|n| "abcdefghijklmnopqrstuvwxyz0123456789ABCDEFGH"[..n].to_string()),
        // lengths around the cell size
        3 => (any::<u16>(), 0usize..5).prop_map(|(k, m)| { let n = pick(&[6usize, 7, 8, 9, 14, 15, 16, 17, 23, 31, 39], k) + 8 * (m / 3); "x".repeat(n) }),
        // mixtures with multi-byte characters and NULs
        4 => (proptest::collection::vec(any::<u16>(), 0..=24), 0u8..10).prop_map(|(ks, nul)| ks.into_iter().map(|k| pick(CHARS, k)).filter(|c| nul < 3 || *c != "\0").collect::<String>()),
        // NUL-heavy
        1 => proptest::collection::vec(prop_oneof![Just("\0"), Just("\0"), Just("ab"), Just("abcdefg")], 0..=6).prop_map(|v| v.concat()),
    ]
    .boxed()
}

fn op_strategy() -> BoxedStrategy<Op> {
    prop_oneof![
        4 => any::<u64>().prop_map(Op::Push),
        3 => (0u8..=12, 0u8..=12).prop_map(|(n, k)| Op::Reserve(n, k)),
        4 => string_strategy().prop_map(Op::Pstr),
        4 => string_strategy().prop_map(Op::Cstr),
        6 => (any::<u16>(), any::<u16>()).prop_map(|(a, b)| Op::CopyPstr(a, b)),
        3 => (any::<u16>(), any::<u16>()).prop_map(|(a, b)| Op::CopySlice(a, b)),
        2 => (0u8..=6, proptest::option::of(string_strategy())).prop_map(|(c, s)| Op::Append(c, s)),
        2 => any::<u16>().prop_map(Op::Truncate),
        5 => (0u8..=6).prop_map(Op::FillTo),
    ]
    .boxed()
}

pub fn case_strategy(max_ops: usize) -> BoxedStrategy<Case> {
    (1u8..=64, proptest::collection::vec(op_strategy(), 1..=max_ops)).prop_map(|(cap, ops)| Case { cap, ops }).boxed()
}

// ---------------------------------------------------------------------------------------------

pub struct C33;

impl Prop for C33 {
    fn id(&self) -> &'static str {
        "C33"
    }
    fn rule(&self) -> &'static str {
        "sequences of 1-200 raw heap operations (push_cell, reserve n + write k<=n cells, allocate_pstr/allocate_cstr of strings of every byte length 0-40 incl. lengths = 6,7,8,9 mod 8, multi-byte characters and NULs, copy_pstr_within from any character of an existing string, copy_slice_to_end, append of another heap, truncate, fill-to-k-free-cells) on a Heap created with a capacity of 1-64 cells; after every operation heap length <= tracked capacity and heap bytes == byte-level model, at the end the heap is dropped and the guard allocator's canary behind its block is verified (also at every realloc during growth); non-trivial = some operation ran with free space smaller than (heap had to grow) or exactly equal to what it wrote; distinct by case encoding"
    }
    fn assumptions(&self) -> Vec<String> {
        vec![
            "the guard allocator (64-byte canary after every allocation) sees every overrun of at most 64 bytes; larger overruns corrupt the allocator and show up as a crashed worker".into(),
            "capacity tracking assumes InnerHeap::grow doubles the capacity (observed through the alloc_fault attempt counter); a wrong assumption shows up as a false heap-overrun on the unchanged tree, which burn-in excludes".into(),
            "the byte-level model transliterates the partial-string layout documented in heap.rs (segment, zero padding to the cell boundary, extra cell when only one padding byte would remain)".into(),
        ]
    }
    fn run_shard(&self, cfg: &ShardCfg) -> ShardResult {
        let mut d = Driver::new(cfg, "C33");
        let n_short = cfg.share(cfg.tier.pick(20_000, 1_000_000));
        let n_long = cfg.share(cfg.tier.pick(20_000, 1_000_000));
        d.run("seq", 0, n_short, 1_000_000, case_strategy(24), &mk_env, &check);
        d.run("seq", 1, n_long, 1_000_000, case_strategy(200), &mk_env, &check);
        crate::shared::c33_l2::run(&mut d, cfg);
        let fill = FILL.with(|f| f.borrow().clone());
        for (k, v) in fill {
            d.res.extra.insert(format!("fill:{k}"), json!(v));
        }
        d.res.extra.insert("operations_executed".into(), json!(OPS_RUN.with(|c| *c.borrow())));
        d.res.extra.insert("cases_with_tolerated_known_pstr_size_miscount".into(), json!(TOLERATED.with(|c| *c.borrow())));
        d.finish()
    }
    fn replay(&self, kind: &str, case: &Value) -> Verdict {
        match kind {
            "seq" => replay_case::<Case, Env>(case, &mk_env, &check),
            _ => crate::shared::c33_l2::replay(kind, case),
        }
    }
}
