//! C52 — Random number predicates are in range and reproducible (library(random)).
use crate::engine::*;
use crate::gen::pick;
use crate::num::ipow2;
use crate::session::{Outcome, Session};
use crate::term::{atom, cmp, int, list, T};
use dashu::integer::IBig;
use proptest::prelude::*;
use serde::{Deserialize, Serialize};
use serde_json::Value;

/// Signatures carry no ':' (the driver shrinks within the text before the first ':'; with a
/// colon-free signature a failure can only shrink to a case with exactly the same signature, so an
/// unknown failure can never be minimised into a tolerated known one). Panics keep their form.
fn vfail(sig: impl Into<String>, detail: impl Into<String>) -> Verdict {
    Verdict::fail(nsig(&sig.into()), detail)
}
fn nsig(s: &str) -> String {
    if s.starts_with("panic:") {
        s.to_string()
    } else {
        s.trim_end_matches(':').replace(':', "/")
    }
}

pub const C52_PL: &str = include_str!("../../prolog/c52.pl");

#[derive(Clone, Debug, Serialize, Deserialize)]
pub enum Call {
    Random,
    Maybe,
    Int {
        #[serde(with = "crate::term::ibig_serde")]
        l: IBig,
        #[serde(with = "crate::term::ibig_serde")]
        h: IBig,
    },
}

#[derive(Clone, Debug, Serialize, Deserialize)]
pub enum Case {
    /// a call sequence, optionally after set_random(seed(S)) (then run three times: twice on one
    /// machine, once on another)
    Seq { seed: Option<T>, calls: Vec<Call> },
    /// a call with ill-typed / unbound arguments: 0 = random_integer(L,H,X), 1 = set_random(S)
    Bad { which: u8, a: T, b: T },
    /// 200 draws from [l, l+4): every value appears; 20 draws from [l, l+2^200): the high bits vary;
    /// 200 maybe/0 and random/1 draws are not constant
    Spread {
        #[serde(with = "crate::term::ibig_serde")]
        l: IBig,
    },
}

fn call_t(c: &Call) -> T {
    match c {
        Call::Random => atom("r"),
        Call::Maybe => atom("m"),
        Call::Int { l, h } => cmp("i", vec![T::Int(l.clone()), T::Int(h.clone())]),
    }
}

// ---------------------------------------------------------------------------------------------
// generators

fn bound() -> BoxedStrategy<IBig> {
    let small = (-10i64..=20).prop_map(IBig::from);
    let edge = (any::<u16>(), -2i64..=2).prop_map(|(k, d)| pick(&[ipow2(55), -ipow2(55), ipow2(63), ipow2(64), -ipow2(64), ipow2(200), -ipow2(200), ipow2(31)], k) + IBig::from(d));
    prop_oneof![5 => small, 3 => edge].boxed()
}

fn int_call() -> BoxedStrategy<Call> {
    (bound(), prop_oneof![4 => Just(IBig::ONE), 2 => Just(IBig::ZERO), 1 => (-3i64..=-1).prop_map(IBig::from), 4 => (2i64..=9).prop_map(IBig::from), 1 => Just(ipow2(64)), 1 => Just(ipow2(200)), 1 => Just(ipow2(56))], any::<bool>())
        .prop_map(|(l, w, other)| {
            // `other`: an independent upper bound crossing the small/bignum boundary
            let h = if other && l < ipow2(55) && w > IBig::ONE { ipow2(55) + w } else { &l + w };
            Call::Int { l, h }
        })
        .boxed()
}

fn call() -> BoxedStrategy<Call> {
    prop_oneof![3 => Just(Call::Random), 2 => Just(Call::Maybe), 6 => int_call()].boxed()
}

fn seed() -> BoxedStrategy<T> {
    let ok = any::<u16>().prop_map(|k| T::Int(pick(&[IBig::ZERO, IBig::ONE, IBig::from(42), IBig::from(123456789), ipow2(31), ipow2(55) - IBig::ONE, ipow2(55), ipow2(63), ipow2(64) - IBig::ONE], k)));
    let any_small = (0i64..1_000_000).prop_map(int);
    // negative and beyond 64 bits (the statement quantifies over all integer seeds)
    let wide = any::<u16>().prop_map(|k| T::Int(pick(&[IBig::from(-1), IBig::from(-42), ipow2(64), ipow2(70), -ipow2(64)], k)));
    prop_oneof![20 => ok, 19 => any_small, 1 => wide].boxed()
}

pub fn case_strategy() -> BoxedStrategy<Case> {
    let seq = (proptest::option::weighted(0.8, seed()), proptest::collection::vec(call(), 1..=50)).prop_map(|(seed, calls)| Case::Seq { seed, calls });
    let bad_arg = any::<u16>().prop_map(|k| pick(&[atom("a"), T::Float(2.0), T::Float(0.5), T::Var(1), T::Var(1), cmp("f", vec![int(1)]), list(vec![int(1)])], k));
    let bad_int = (bad_arg.clone(), bound(), 0u8..3).prop_map(|(x, o, pos)| match pos {
        0 => Case::Bad { which: 0, a: x, b: T::Int(o) },
        1 => Case::Bad { which: 0, a: T::Int(o), b: x },
        _ => Case::Bad { which: 0, a: x.clone(), b: x },
    });
    let bad_seed = any::<u16>().prop_map(|k| Case::Bad { which: 1, a: pick(&[T::Var(1), cmp("seed", vec![T::Var(1)]), cmp("seed", vec![atom("a")]), cmp("seed", vec![T::Float(1.0)]), atom("foo"), int(3), cmp("seed", vec![int(1), int(2)])], k), b: atom("x") });
    let spread = bound().prop_map(|l| Case::Spread { l });
    prop_oneof![20 => seq, 3 => bad_int, 1 => bad_seed, 1 => spread].boxed()
}

// ---------------------------------------------------------------------------------------------
// execution

pub struct Env {
    pub a: Session,
    pub b: Session,
    pub ok: bool,
}

pub fn mk_env() -> Env {
    let mut a = Session::new(&["random"]);
    let mut b = Session::new(&["random"]);
    let ok = a.consult(C52_PL, "c52") && b.consult(C52_PL, "c52");
    // put the two machines into different generator states
    let _ = b.ask_once("c52_draws(7, r, Zs)", "[]");
    Env { a, b, ok }
}

fn items(t: &T) -> Option<Vec<T>> {
    match t {
        T::Atom(a) if a == "[]" => Some(vec![]),
        T::PList(items, tail) if tail.is_nil() => Some(items.clone()),
        _ => None,
    }
}

enum Run {
    Ok(Vec<T>),
    Stop(Verdict),
}

fn run_seq(s: &mut Session, seed: &Option<T>, calls: &[Call], what: &str) -> Run {
    let calls_t = list(calls.iter().map(call_t).collect()).text();
    let goal = match seed {
        Some(sd) => format!("set_random(seed({})), c52_seq({calls_t}, Zs)", sd.text()),
        None => format!("c52_seq({calls_t}, Zs)"),
    };
    match s.ask_once(&goal, "Zs") {
        Outcome::Sols(v) if v.len() == 1 => match items(&v[0]) {
            Some(it) if it.len() == calls.len() => Run::Ok(it),
            _ => Run::Stop(Verdict::Discard("harness:result-shape".into())),
        },
        Outcome::Panic(m) => {
            let loc = m.split_whitespace().next().unwrap_or("?").to_string();
            Run::Stop(vfail(format!("panic:{loc}"), format!("{what}: {goal} panicked: {m}")))
        }
        Outcome::Harness(m) => Run::Stop(Verdict::Discard(format!("harness:{}", m.chars().take(40).collect::<String>()))),
        other => Run::Stop(vfail("seq-outcome:", format!("{what}: {goal} gave {}", other.short()))),
    }
}

/// range check of one outcome; Err((signature-tail, detail))
fn in_range(c: &Call, r: &T) -> Result<(), (String, String)> {
    match (c, r) {
        (Call::Random, T::Cmp(f, a)) if f == "f" && a.len() == 1 => match &a[0] {
            T::Float(x) if *x >= 0.0 && *x < 1.0 => Ok(()),
            other => Err(("random1".into(), format!("random(X) gave {}", other.text()))),
        },
        (Call::Maybe, T::Atom(a)) if a == "yes" || a == "no" => Ok(()),
        (Call::Int { l, h }, T::Atom(a)) if a == "none" => {
            if l >= h {
                Ok(())
            } else {
                Err(("random_integer3:failed".into(), format!("random_integer({l},{h},X) failed on a non-empty range")))
            }
        }
        (Call::Int { l, h }, T::Cmp(f, a)) if f == "i" && a.len() == 1 => match &a[0] {
            T::Int(x) if l <= x && x < h => Ok(()),
            T::Int(x) => Err((format!("random_integer3:{}", if l >= h { "empty-range-succeeded" } else if x == h { "upper-bound-returned" } else { "out-of-range" }), format!("random_integer({l},{h},X) gave {x}"))),
            other => Err(("random_integer3:non-integer".into(), format!("random_integer({l},{h},X) gave {}", other.text()))),
        },
        (c, r) => Err(("outcome-shape".into(), format!("{:?} gave {}", c, r.text()))),
    }
}

fn is_big(v: &IBig) -> bool {
    crate::num::bit_len(v) > 55
}

pub fn check(env: &mut Env, case: &Case) -> Verdict {
    if !env.ok {
        return Verdict::Discard("c52.pl rejected".into());
    }
    match case {
        Case::Seq { seed, calls } => {
            let r1 = match run_seq(&mut env.a, seed, calls, "first run") {
                Run::Ok(v) => v,
                Run::Stop(v) => return v,
            };
            for (c, r) in calls.iter().zip(&r1) {
                if let Err((sig, d)) = in_range(c, r) {
                    return vfail(format!("range:{sig}"), d);
                }
            }
            let mut classes: Vec<&str> = vec![];
            let mut nontrivial = false;
            if calls.iter().any(|c| matches!(c, Call::Int { l, h } if is_big(l) || is_big(h))) {
                classes.push("bignum-bounds");
                nontrivial = true;
            }
            if calls.iter().any(|c| matches!(c, Call::Int { l, h } if l + IBig::ONE == *h)) {
                classes.push("width-1");
                nontrivial = true;
            }
            if calls.iter().any(|c| matches!(c, Call::Int { l, h } if l >= h)) {
                classes.push("empty-range");
            }
            if seed.is_some() {
                let r2 = match run_seq(&mut env.a, seed, calls, "second run, same machine") {
                    Run::Ok(v) => v,
                    Run::Stop(v) => return v,
                };
                let r3 = match run_seq(&mut env.b, seed, calls, "third run, other machine") {
                    Run::Ok(v) => v,
                    Run::Stop(v) => return v,
                };
                for (which, other) in [("same-machine", &r2), ("other-machine", &r3)] {
                    if let Some(i) = (0..r1.len()).find(|i| !r1[*i].eq_struct(&other[*i])) {
                        let kind = match &calls[i] {
                            Call::Random => "random1",
                            Call::Maybe => "maybe0",
                            Call::Int { .. } => "random_integer3",
                        };
                        return vfail(
                            format!("not-reproducible:{which}:{kind}"),
                            format!("after set_random(seed({})) call #{} {:?} gave {} first and {} on the re-run ({which})", seed.as_ref().unwrap().text(), i + 1, calls[i], r1[i].text(), other[i].text()),
                        );
                    }
                }
                classes.push("reseeded");
                if calls.len() >= 5 {
                    classes.push("reseeded-5+");
                    nontrivial = true;
                }
                if matches!(seed, Some(T::Int(v)) if is_big(v)) {
                    classes.push("bignum-seed");
                }
            } else {
                classes.push("unseeded");
            }
            Verdict::pass(nontrivial, &classes)
        }
        Case::Bad { which, a, b } => {
            let (goal, expected): (String, Vec<T>) = if *which == 0 {
                let mut errs = vec![];
                for x in [a, b] {
                    match x {
                        T::Var(_) => errs.push(atom("instantiation_error")),
                        T::Int(_) => {}
                        other => errs.push(cmp("type_error", vec![atom("integer"), other.clone()])),
                    }
                }
                // the two bounds get distinct variables unless the case says otherwise
                (format!("random_integer({},{},Zx)", a.text(), b.text()), errs)
            } else {
                let errs = match a {
                    T::Var(_) => vec![atom("instantiation_error")],
                    T::Cmp(f, args) if f == "seed" && args.len() == 1 => match &args[0] {
                        T::Var(_) => vec![atom("instantiation_error")],
                        T::Int(_) => vec![],
                        other => vec![cmp("type_error", vec![atom("integer"), other.clone()])],
                    },
                    // not of the form seed(_): the docs are silent: failure or a type/domain error
                    _ => vec![],
                };
                (format!("set_random({})", a.text()), errs)
            };
            let o = env.a.ask_once(&goal, "[]");
            let seed_form = matches!(a, T::Cmp(f, args) if f == "seed" && args.len() == 1);
            match &o {
                Outcome::Panic(m) => vfail(format!("panic:{}", m.split_whitespace().next().unwrap_or("?")), format!("{goal} panicked: {m}")),
                Outcome::Harness(m) => Verdict::Discard(format!("harness:{}", m.chars().take(40).collect::<String>())),
                Outcome::Ex(_) => match o.formal() {
                    Some(f) if expected.iter().any(|e| e.eq_struct(&f)) => Verdict::pass(true, &["error-case"]),
                    Some(T::Cmp(n, _)) if *which == 1 && !seed_form && !matches!(a, T::Var(_)) && (n == "type_error" || n == "domain_error") => Verdict::pass(true, &["error-case", "non-seed-term"]),
                    _ => vfail(format!("wrong-error:{}", if *which == 0 { "random_integer3" } else { "set_random1" }), format!("{goal} gave {}; expected one of {:?}", o.short(), expected.iter().map(|e| e.text()).collect::<Vec<_>>())),
                },
                Outcome::Sols(v) => {
                    if *which == 1 && !seed_form && !matches!(a, T::Var(_)) && v.is_empty() {
                        Verdict::pass(true, &["error-case", "non-seed-term"])
                    } else {
                        vfail(format!("no-error:{}", if *which == 0 { "random_integer3" } else { "set_random1" }), format!("{goal} gave {}; expected one of {:?}", o.short(), expected.iter().map(|e| e.text()).collect::<Vec<_>>()))
                    }
                }
                Outcome::Limit => Verdict::Discard("limit".into()),
            }
        }
        Case::Spread { l } => {
            // (a) every value of a width-4 range appears in 200 draws (false alarm < 1e-24)
            let h = l + IBig::from(4);
            let goal = format!("c52_draws(200, i({l},{h}), Zs)");
            let vals = match env.a.ask_once(&goal, "Zs") {
                Outcome::Sols(v) if v.len() == 1 => items(&v[0]).unwrap_or_default(),
                Outcome::Panic(m) => return vfail(format!("panic:{}", m.split_whitespace().next().unwrap_or("?")), format!("{goal} panicked: {m}")),
                other => return vfail("spread-outcome:", format!("{goal} gave {}", other.short())),
            };
            let c = Call::Int { l: l.clone(), h: h.clone() };
            let mut seen = [false; 4];
            for v in &vals {
                if let Err((sig, d)) = in_range(&c, v) {
                    return vfail(format!("range:{sig}"), d);
                }
                if let T::Cmp(_, a) = v {
                    if let T::Int(x) = &a[0] {
                        seen[usize::try_from(&(x - l)).unwrap()] = true;
                    }
                }
            }
            if vals.len() != 200 || seen.iter().any(|s| !s) {
                return vfail("degenerate:random_integer3:width4", format!("200 draws from [{l},{h}) hit only the offsets {:?}", seen));
            }
            // (b) a 2^200-wide range: some draw uses the high bits (false alarm 2^-200)
            let h2 = l + ipow2(200);
            let goal = format!("c52_draws(20, i({l},{h2}), Zs)");
            let vals = match env.a.ask_once(&goal, "Zs") {
                Outcome::Sols(v) if v.len() == 1 => items(&v[0]).unwrap_or_default(),
                Outcome::Panic(m) => return vfail(format!("panic:{}", m.split_whitespace().next().unwrap_or("?")), format!("{goal} panicked: {m}")),
                other => return vfail("spread-outcome:", format!("{goal} gave {}", other.short())),
            };
            let c2 = Call::Int { l: l.clone(), h: h2.clone() };
            let mut high = false;
            for v in &vals {
                if let Err((sig, d)) = in_range(&c2, v) {
                    return vfail(format!("range:{sig}"), d);
                }
                if let T::Cmp(_, a) = v {
                    if let T::Int(x) = &a[0] {
                        if x - l >= ipow2(190) {
                            high = true;
                        }
                    }
                }
            }
            if vals.len() != 20 || !high {
                return vfail("degenerate:random_integer3:width2^200", format!("20 draws from [{l},{l}+2^200) all lie below {l}+2^190"));
            }
            // (c) maybe/0 and random/1 are not constant over 200 draws
            for (callt, name) in [("m", "maybe0"), ("r", "random1")] {
                let goal = format!("c52_draws(200, {callt}, Zs)");
                let vals = match env.a.ask_once(&goal, "Zs") {
                    Outcome::Sols(v) if v.len() == 1 => items(&v[0]).unwrap_or_default(),
                    other => return vfail("spread-outcome:", format!("{goal} gave {}", other.short())),
                };
                let c = if callt == "m" { Call::Maybe } else { Call::Random };
                for v in &vals {
                    if let Err((sig, d)) = in_range(&c, v) {
                        return vfail(format!("range:{sig}"), d);
                    }
                }
                if vals.len() != 200 || vals.iter().all(|v| v.eq_struct(&vals[0])) {
                    return vfail(format!("degenerate:{name}"), format!("200 draws of {name} are all {}", vals.first().map(|t| t.text()).unwrap_or_default()));
                }
            }
            Verdict::pass(is_big(l), &["spread"])
        }
    }
}

pub struct C52;

impl Prop for C52 {
    fn id(&self) -> &'static str {
        "C52"
    }
    fn rule(&self) -> &'static str {
        "sequences of 1..50 calls of random/1, maybe/0 and random_integer(L,H,X) (L small, negative or around 2^31/2^55/2^63/2^64/2^200; widths 1, 0, negative, 2..9, 2^56, 2^64, 2^200, and upper bounds across the small/bignum boundary): every value must be an integer with L =< X < H resp. a float in [0,1), empty ranges must fail; 80% of the sequences run after set_random(seed(S)) (S over 0, 1, small, 2^31, 2^55-1, 2^55, 2^63, 2^64-1 and, rarely, negative and >= 2^64) three times - twice on one machine and once on a second machine in a different generator state - and must give identical values; ill-typed/unbound bounds and seeds must raise the documented errors; spread cases require all 4 values of a width-4 range in 200 draws, a draw above 2^190 in 20 draws of a 2^200-wide range, and non-constant maybe/0 and random/1; non-trivial = bignum bounds, a width-1 range, a reseeded sequence of >= 5 calls, or an error case; distinct by case encoding"
    }
    fn assumptions(&self) -> Vec<String> {
        vec![
            "statistical sanity checks have a false-alarm probability below 1e-24 per case".into(),
            "set_random/1 with a term that is not seed(_) may fail or raise a type/domain error (the docs are silent)".into(),
        ]
    }
    fn run_shard(&self, cfg: &ShardCfg) -> ShardResult {
        let mut d = Driver::new(cfg, "C52");
        let n = cfg.share(cfg.tier.pick(10_000, 500_000));
        d.run("seq", 0, n, 2000, case_strategy(), &mk_env, &check);
        d.finish()
    }
    fn replay(&self, _kind: &str, case: &Value) -> Verdict {
        replay_case::<Case, Env>(case, &mk_env, &check)
    }
}
