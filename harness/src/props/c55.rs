//! C55 — writeq and print quote and space exactly as ISO requires.
use crate::engine::*;
use crate::gen::pick;
use crate::shared::isotok::{self, Tok};
use crate::shared::pgen::*;
use crate::shared::printer::*;
use crate::term::T;
use proptest::prelude::*;
use serde::{Deserialize, Serialize};
use serde_json::{json, Value};

#[derive(Clone, Debug, Serialize, Deserialize)]
pub enum Case {
    /// an atom text
    Atom(String),
    /// a term (C15 space) for write_canonical/1 and the spacing of writeq/1; `pstr` as in C15
    Term { pstr: bool, t: T },
}

/// 40-character alphabet of the exhaustive part (every class of ISO 6.5 represented)
pub const ALPHABET: &[char] = &[
    'a', 'b', 'z', 'A', 'Z', '0', '1', '9', '_', '#', '$', '&', '*', '+', '-', '.', '/', ':', '<', '=', '>', '?', '@', '^', '~', '\\', '!', '(', ')', ',', ';', '[', ']', '{', '}', '|', '%', ' ', '\'', '"',
];

/// further characters of the random part
const EXTRA_CHARS: &[char] = &[
    '\n', '\t', '\r', '\u{0b}', '\u{0c}', '\u{07}', '\u{08}', '\u{0}', '\u{1}', '\u{1b}', '\u{7f}', '`', 'é', 'É', 'λ', 'Σ', '日', '😀', '\u{a0}', '\u{2028}', '\u{301}', '²', '½', '\u{2167}', '\u{1c5}', '\u{85}', '\u{feff}', 'ß', '€', '§',
    '\u{200b}', '\u{e000}',
];

/// The quoting rule for ASCII texts, restated from ISO 6.4.2 / 7.10.5: an atom is written
/// without quotes iff it is a letter-digit token starting with a small letter, a graphic token
/// (not beginning a comment, not the lone end char), or one of the solo atoms [] {} ! ;
pub fn ascii_bare(a: &str) -> bool {
    let cs: Vec<char> = a.chars().collect();
    if cs.is_empty() {
        return false;
    }
    if matches!(a, "[]" | "{}" | "!" | ";") {
        return true;
    }
    if cs[0].is_ascii_lowercase() {
        return cs.iter().all(|c| c.is_ascii_alphanumeric() || *c == '_');
    }
    if cs.iter().all(|c| isotok::is_graphic(*c)) {
        return !(a.starts_with("/*") || a == ".");
    }
    false
}

/// The text `out` is a correct quoted rendering of the atom `a`: one single-quoted token whose
/// value is `a`, spanning the whole text, without raw control characters or newlines.
fn quoted_ok(a: &str, out: &str) -> Result<(), String> {
    if !out.starts_with('\'') || !out.ends_with('\'') || out.chars().count() < 2 {
        return Err("not enclosed in single quotes".into());
    }
    if let Some(c) = out.chars().find(|c| c.is_ascii_control()) {
        return Err(format!("raw control character {:?} inside the quoted token", c));
    }
    let mut lx = isotok::Lexer::new(out);
    match lx.next() {
        Ok(isotok::Token { tok: Tok::Name { text, quoted: true }, .. }) => {
            if lx.pos != out.chars().count() {
                return Err("the quoted token ends before the end of the text".into());
            }
            if text != a {
                return Err(format!("the quoted token denotes {:?}", text));
            }
            Ok(())
        }
        Ok(t) => Err(format!("lexes as {:?}", t.tok)),
        Err(e) => Err(format!("does not lex: {e:?}")),
    }
}

const ATOM_WRITERS: &[(&str, &str, bool)] = &[
    ("writeq", "writeq", true),
    ("write_canonical", "write_canonical", true),
    ("write_term-quoted", "wt([quoted(true)])", true),
    ("write", "write", false),
    ("write_term-unquoted", "wt([quoted(false)])", false),
];

const APOS2: &str = "apos2:atom-of-two-apostrophes-written-as-empty-atom";
const PSTR_TAIL: &str = "pstr-shared-tail:ignore_ops-writer-swaps-the-variable-tail-of-a-packed-string-with-the-rest-of-the-enclosing-list";
const PAREN_FAMILY: &str = "prefix-op-paren:no-space-between-prefix-operator-and-open-paren-of-leftmost-bracketed-operator-atom";

fn perr(tag: &str, e: PErr, what: &str) -> Verdict {
    match e {
        PErr::Panic(m) => Verdict::fail(format!("panic:{}", m.split_whitespace().next().unwrap_or("?")), format!("{tag}: {what} : {m}")),
        PErr::Harness(m) => Verdict::Discard(format!("harness:{}", m.chars().take(60).collect::<String>())),
    }
}

fn char_class(c: char) -> &'static str {
    if c.is_ascii_lowercase() {
        "small"
    } else if c.is_ascii_uppercase() {
        "capital"
    } else if c.is_ascii_digit() {
        "digit"
    } else if c == '_' {
        "underscore"
    } else if isotok::is_graphic(c) {
        "graphic"
    } else if isotok::is_solo(c) {
        "solo"
    } else if isotok::is_layout(c) {
        "layout"
    } else if c.is_ascii_control() {
        "control"
    } else if matches!(c, '\'' | '"' | '`') {
        "quote"
    } else if !c.is_ascii() {
        "non-ascii"
    } else {
        "other"
    }
}

fn check_atom(env: &mut PEnv, a: &str) -> Verdict {
    let t = T::Atom(a.to_string());
    // the raw writers would emit the capture separator itself for these two characters
    let has_sep = a.contains('\u{1}') || a.contains('\u{2}');
    let writers: Vec<&(&str, &str, bool)> = ATOM_WRITERS.iter().filter(|w| w.2 || !has_sep).collect();
    let specs: Vec<&str> = writers.iter().map(|w| w.1).collect();
    let texts = match env.emit(false, &t, &specs) {
        Ok(x) => x,
        Err(e) => return perr("writers", e, &format!("atom {:?}", a)),
    };
    // expected decision
    let ascii = a.is_ascii();
    let bare = if ascii {
        let b = ascii_bare(a);
        // the harness's tokenizer must agree with the restated rule (self-check of the oracle)
        assert_eq!(b, isotok::bare_is_atom(a), "oracle self-check: rule vs tokenizer for {:?}", a);
        b
    } else {
        // beyond ASCII the rule is grounded in the reader: unquoted <=> the bare text reads as this atom
        match env.readback(&[a.to_string()]) {
            Ok(r) => matches!(&r[0], Read1::Ok(T::Atom(x)) if x == a),
            Err(e) => return perr("reader", e, &format!("atom {:?}", a)),
        }
    };
    let cls_sig = {
        let mut k: Vec<&str> = a.chars().map(char_class).collect();
        k.dedup();
        k.truncate(4);
        k.join("+")
    };
    for (w, text) in writers.iter().zip(texts.iter()) {
        if text.starts_with('\u{2}') {
            return Verdict::fail(format!("write-error:{}", w.0), format!("{} raised {} for the atom {:?}", w.0, &text[1..], a));
        }
        if !w.2 {
            if text != a {
                return Verdict::fail(format!("write-not-raw:{}:{cls_sig}", w.0), format!("{} wrote the atom {:?} as {:?}, expected the raw text", w.0, a, text));
            }
            continue;
        }
        if a == "''" && text == "''" {
            return Verdict::fail(APOS2, format!("{} wrote the atom {:?} as {:?}, which denotes the empty atom", w.0, a, text));
        }
        if bare {
            if text != a {
                return Verdict::fail(format!("over-quoted:{}:{cls_sig}", w.0), format!("{} wrote the atom {:?} as {:?}; it needs no quotes", w.0, a, text));
            }
        } else if text == a && !a.is_empty() {
            return Verdict::fail(format!("under-quoted:{}:{cls_sig}", w.0), format!("{} wrote the atom {:?} without quotes", w.0, a));
        } else if let Err(why) = quoted_ok(a, text) {
            if a == "''" && text == "''" {
                return Verdict::fail(APOS2, format!("{} wrote the atom {:?} as {:?}: {why}", w.0, a, text));
            }
            return Verdict::fail(format!("bad-quoting:{}:{cls_sig}", w.0), format!("{} wrote the atom {:?} as {:?}: {why}", w.0, a, text));
        }
    }
    let mut classes: Vec<String> = vec![if bare { "expected-unquoted".into() } else { "expected-quoted".into() }];
    let mut k: Vec<&str> = a.chars().map(char_class).collect();
    k.sort();
    k.dedup();
    for c in k {
        classes.push(format!("char:{c}"));
    }
    if a.is_empty() {
        classes.push("empty".into());
    }
    let cl: Vec<&str> = classes.iter().map(|s| s.as_str()).collect();
    Verdict::pass(!is_plain_ident(a), &cl)
}

fn has_numbervar(t: &T) -> bool {
    any_sub(t, &|s| matches!(s, T::Cmp(n, a) if n == "$VAR" && a.len() == 1 && matches!(&a[0], T::Int(i) if !crate::num::is_neg(i))))
}

fn rename_symbol(t: &T, from: &str, to: &str) -> T {
    map_term(t, &|s| match s {
        T::Atom(a) if a == from => Some(T::Atom(to.into())),
        T::Cmp(n, args) if n == from => Some(T::Cmp(to.into(), args.iter().map(|a| rename_symbol(a, from, to)).collect())),
        _ => None,
    })
}

/// over-quoting inside a term text: every quoted name token must need its quotes
fn over_quoted_token(text: &str) -> Option<String> {
    let toks = isotok::tokenize(text).ok()?;
    for t in toks {
        if let Tok::Name { text, quoted: true } = t.tok {
            if text.is_ascii() && ascii_bare(&text) {
                return Some(text);
            }
        }
    }
    None
}

fn paren_space_repairs(text: &str) -> Vec<String> {
    let cs: Vec<char> = text.chars().collect();
    let pos: Vec<usize> = (1..cs.len()).filter(|&i| cs[i] == '(' && !matches!(cs[i - 1], ' ' | '(' | ',' | '[' | '{' | '|')).take(10).collect();
    let build = |sel: &[usize]| -> String {
        let mut s = String::new();
        for (i, c) in cs.iter().enumerate() {
            if sel.contains(&i) {
                s.push(' ');
            }
            s.push(*c);
        }
        s
    };
    let mut out = vec![];
    for (a, &i) in pos.iter().enumerate() {
        out.push(build(&[i]));
        for &j in pos.iter().skip(a + 1) {
            out.push(build(&[i, j]));
        }
    }
    out
}

/// Err((class, detail)) of the first problem
fn term_problem(env: &mut PEnv, pstr: bool, t: &T) -> Result<(), Verdict> {
    let nv = has_numbervar(t);
    let texts = env.emit(pstr, t, &["write_canonical", "writeq"]).map_err(|e| perr("writers", e, &t.text()))?;
    let (canon, wq) = (&texts[0], &texts[1]);
    if canon.starts_with('\u{2}') || wq.starts_with('\u{2}') {
        return Err(Verdict::fail("write-error:term", format!("a writer raised an exception for {}: {:?} {:?}", t.text(), canon, wq)));
    }
    // write_canonical: functional notation only, re-readable without any operator
    match isotok::read_canonical(canon) {
        Ok(t2) => {
            if !same_term(t, &t2) {
                return Err(Verdict::fail("canonical-mismatch:", format!("write_canonical wrote {} as {:?}, which denotes {} when read without operators", t.text(), canon, t2.text())));
            }
        }
        Err(e) => return Err(Verdict::fail("canonical-not-operator-free:", format!("write_canonical wrote {} as {:?}, which is not operator-free canonical text: {e:?}", t.text(), canon))),
    }
    if let Some(tok) = over_quoted_token(canon) {
        return Err(Verdict::fail("over-quoted-in-term:write_canonical", format!("write_canonical wrote {} as {:?}: the token {:?} needs no quotes", t.text(), canon, tok)));
    }
    if let Some(tok) = over_quoted_token(wq) {
        return Err(Verdict::fail("over-quoted-in-term:writeq", format!("writeq wrote {} as {:?}: the token {:?} needs no quotes", t.text(), wq, tok)));
    }
    // writeq spacing: the harness's own tokenizer + operator-precedence reader must get the term back
    if !nv {
        let ops: Vec<(String, u32, String)> = env.ops.iter().map(|o| (o.name.clone(), o.p as u32, o.spec.clone())).collect();
        let ok = matches!(isotok::read_with_ops(wq, &ops), Ok(ref t2) if same_term(t, t2));
        if !ok {
            let got = match isotok::read_with_ops(wq, &ops) {
                Ok(t2) => format!("denotes {}", t2.text()),
                Err(e) => format!("does not parse: {e:?}"),
            };
            // the known missing-space defect: a space before some '(' repairs the text
            if paren_space_repairs(wq).iter().any(|c| matches!(isotok::read_with_ops(c, &ops), Ok(ref t2) if same_term(t, t2))) {
                return Err(Verdict::fail(PAREN_FAMILY, format!("writeq wrote {} as {:?}, which {got} for the harness's ISO reader", t.text(), wq)));
            }
            return Err(Verdict::fail("spacing:writeq", format!("writeq wrote {} as {:?}, which {got} for the harness's ISO reader", t.text(), wq)));
        }
    }
    Ok(())
}

fn check_term(env: &mut PEnv, pstr: bool, t: &T) -> Verdict {
    match term_problem(env, pstr, t) {
        Ok(()) => {}
        Err(Verdict::Fail { signature, detail }) if !signature.starts_with("panic") && signature != PAREN_FAMILY => {
            // blame by substitution: the term passes (or shows only the known missing-space
            // defect) once the trigger of a known defect family is neutralised
            let mut syms = vec![];
            symbols(t, &mut syms);
            let apos = if syms.iter().any(|(n, _)| n == "''") { Some(rename_symbol(t, "''", "'")) } else { None };
            let tails = if pstr { fresh_pstr_tails(t) } else { None };
            let fine = |env: &mut PEnv, t2: &T| match term_problem(env, pstr, t2) {
                Ok(()) => true,
                Err(Verdict::Fail { signature, .. }) => signature == PAREN_FAMILY,
                Err(_) => false,
            };
            if let Some(t2) = &apos {
                if fine(env, t2) {
                    return Verdict::fail(APOS2, detail);
                }
            }
            if let Some(t2) = &tails {
                if fine(env, t2) {
                    return Verdict::fail(PSTR_TAIL, detail);
                }
            }
            if let (Some(t2), true) = (&apos, tails.is_some()) {
                if let Some(t3) = fresh_pstr_tails(t2) {
                    if fine(env, &t3) {
                        return Verdict::fail(APOS2, detail);
                    }
                }
            }
            return Verdict::Fail { signature, detail };
        }
        Err(v) => return v,
    }
    let mut classes = vec!["term"];
    let mut syms = vec![];
    symbols(t, &mut syms);
    let opapp = syms.iter().any(|(n, a)| *a > 0 && env.is_op(n));
    if opapp {
        classes.push("term-with-operator-application");
    }
    if any_sub(t, &|s| matches!(s, T::PList(..) | T::Str(_))) {
        classes.push("term-with-list");
    }
    if any_sub(t, &|s| matches!(s, T::Int(i) if crate::num::is_neg(i)) || matches!(s, T::Float(f) if f.is_sign_negative())) {
        classes.push("term-with-negative-number");
    }
    Verdict::pass(syms.iter().any(|(n, _)| !is_plain_ident(n)), &classes)
}

pub fn check(env: &mut PEnv, c: &Case) -> Verdict {
    let v = match c {
        Case::Atom(a) => check_atom(env, a),
        Case::Term { pstr, t } => check_term(env, *pstr, t),
    };
    // development aid: VERIF_C55_SURVEY=<file> logs failures instead of stopping at them
    if let (Ok(path), Verdict::Fail { signature, detail }) = (std::env::var("VERIF_C55_SURVEY"), &v) {
        use std::io::Write;
        if let Ok(mut fh) = std::fs::OpenOptions::new().create(true).append(true).open(path) {
            let _ = fh.write_all(format!("{signature}\t{detail}\n").as_bytes());
        }
        if !signature.starts_with("panic") {
            return Verdict::pass(false, &["survey-failure"]);
        }
    }
    tolerate(v)
}

fn atom_strategy() -> BoxedStrategy<Case> {
    let ch = prop_oneof![
        8 => any::<u16>().prop_map(|k| pick(ALPHABET, k)),
        2 => any::<u16>().prop_map(|k| pick(EXTRA_CHARS, k)),
        1 => any::<char>(),
    ];
    let random = proptest::collection::vec(ch, 0..=6).prop_map(|v| v.into_iter().collect::<String>());
    let special = any::<u16>().prop_map(|k| pick(SPECIAL_ATOMS, k).to_string());
    let ops = any::<u16>().prop_map(|k| pick(OP_NAMES, k).to_string());
    prop_oneof![8 => random, 1 => special, 1 => ops].prop_map(Case::Atom).boxed()
}

fn no_neg_zero(t: T) -> T {
    map_term(&t, &|s| match s {
        T::Float(f) if f.to_bits() == (-0.0f64).to_bits() => Some(T::Float(0.0)),
        _ => None,
    })
}

fn term_strategy() -> BoxedStrategy<Case> {
    let fixed: Vec<T> = {
        use crate::term::{atom, cmp, int, list};
        vec![
            cmp("-", vec![atom("a"), int(-1)]),
            cmp("-", vec![int(1), int(2)]),
            cmp("-", vec![int(1)]),
            cmp(":", vec![atom("a"), cmp(":", vec![atom("b"), atom("c")])]),
            cmp(":", vec![cmp(":", vec![atom("a"), atom("b")]), atom("c")]),
            cmp("f", vec![atom(":-")]),
            list(vec![atom("-")]),
            cmp("-", vec![cmp("-", vec![atom("a")])]),
            cmp("=", vec![atom("a"), cmp("\\+", vec![atom("b")])]),
            cmp("-", vec![cmp("-", vec![int(1)])]),
            cmp("**", vec![int(2), int(-1)]),
            cmp("-", vec![cmp("^", vec![int(1), int(2)])]),
            cmp(",", vec![atom("a"), atom("b")]),
            cmp("f", vec![cmp(",", vec![atom("a"), atom("b")])]),
            cmp("f", vec![cmp(":-", vec![atom("a"), atom("b")])]),
            cmp("{}", vec![cmp(",", vec![atom("a"), atom("b")])]),
            cmp("-", vec![atom("-"), atom("-")]),
            cmp("\\", vec![atom("\\")]),
            cmp("=", vec![atom("="), atom("=")]),
            cmp("is", vec![T::Var(0), cmp("+", vec![int(1), T::Float(2.0)])]),
            cmp("-", vec![T::Float(1.0e10)]),
            cmp("e", vec![T::Float(1.0), atom("e")]),
        ]
    };
    let fx = any::<u16>().prop_map(move |k| pick(&fixed, k));
    let t = prop_oneof![1 => fx, 12 => pterm(&[], 4, 24)];
    (any::<bool>(), t).prop_map(|(pstr, t)| Case::Term { pstr, t: no_neg_zero(t) }).boxed()
}

/// all atoms of length <= n over ALPHABET
fn exhaustive(n: usize) -> Vec<String> {
    let mut out = vec![String::new()];
    let mut layer = vec![String::new()];
    for _ in 0..n {
        let mut next = vec![];
        for p in &layer {
            for c in ALPHABET {
                let mut s = p.clone();
                s.push(*c);
                next.push(s);
            }
        }
        out.extend(next.iter().cloned());
        layer = next;
    }
    out
}

pub struct C55;

impl Prop for C55 {
    fn id(&self) -> &'static str {
        "C55"
    }
    fn rule(&self) -> &'static str {
        "atoms: every text of length <= 2 (quick) / <= 3 (thorough) over a 40-character alphabet covering all ISO character classes, plus random texts of length 0-6 over that alphabet, layout/control/quote and non-ASCII characters, reader-special atoms and operator names; each written by writeq/1, write_canonical/1, write_term/2 quoted(true) (must be unquoted exactly when the restated ISO rule says so - beyond ASCII: exactly when the bare text reads as that atom - and otherwise one single-quoted token denoting the atom for the harness's own tokenizer, without raw control characters) and by write/1, write_term/2 quoted(false) (raw text); terms of the C15 space: write_canonical/1 text must parse with the harness's operator-free reader to the same term, no quoted token may be quotable-free, and writeq/1 text must parse with the harness's own tokenizer + ISO operator-precedence reader (default table) to the same term; non-trivial = an atom/functor that is not a plain lowercase identifier; distinct by case encoding"
    }
    fn assumptions(&self) -> Vec<String> {
        vec![
            "print/1 is not defined in this codebase (existence_error) and is therefore not exercised".into(),
            "the harness tokenizer/readers (src/shared/isotok.rs) implement ISO 6.4/6.3 with the strict reading that `-` followed by a numeric token denotes a negative number; the restated ASCII quoting rule is cross-checked against that tokenizer on every case".into(),
            "beyond ASCII the quoting decision is grounded in scryer's reader (bare text reads back as the atom), as the design prescribes".into(),
        ]
    }
    fn run_shard(&self, cfg: &ShardCfg) -> ShardResult {
        let mut d = Driver::new(cfg, "C55");
        let all = exhaustive(cfg.tier.pick(2, 3));
        let total = all.len();
        let mine: Vec<Case> = all.into_iter().enumerate().filter(|(i, _)| (*i as u32) % cfg.nshards == cfg.shard).map(|(_, a)| Case::Atom(a)).collect();
        d.run_list("atom-exhaustive", mine, 5000, &mk_penv, &check);
        d.res.extra.insert("exhaustive_atoms".into(), json!(if cfg.shard == 0 { total as u64 } else { 0 }));
        d.run("atom", 0, cfg.share(cfg.tier.pick(40_000, 2_000_000)), 5000, atom_strategy(), &mk_penv, &check);
        d.run("term", 1, cfg.share(cfg.tier.pick(20_000, 1_000_000)), 2000, term_strategy(), &mk_penv, &check);
        drain_tolerated(&mut d.res);
        d.finish()
    }
    fn replay(&self, _kind: &str, case: &Value) -> Verdict {
        replay_case::<Case, PEnv>(case, &mk_penv, &check)
    }
}
